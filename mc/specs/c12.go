package specs

import "verif/mc/runner"

func init() {
	add(&runner.Spec{
		Prop: "C12",
		Rule: "call alphabet of 16: Unmarshal into string, []byte, RawMessage, json.Number, an Unmarshaler and a TextUnmarshaler that retain the slice they are handed, interface{}, a struct with all of these incl. a ,string field; successive Decodes from one stream with escapes and a long string that forces a refill; Token with UseNumber; Marshal small / 4 KiB, MarshalIndent, Encoder; and two caller actions insertable anywhere: overwrite every input passed so far with 0xEE, overwrite every returned slice (to its capacity) with 0xEE. Every history of length <=3 (quick) / <=4 (thorough), under the default pool answers and every single pool deviation. After every step: every caller input still equals its snapshot, every value ever produced (incl. the slices kept by the retaining callbacks and earlier values from the same Decoder) equals its deep snapshot, and every call gives its cold result. Output sizes: for 75 (thorough 136) element counts giving documents from a few bytes to 600 KiB, dense around the powers of two and the sizes at which a pooled buffer is kept or dropped, and 5 buffer-returning entry points: document, small value, small map, document again, larger document - every earlier result unchanged after every step; then the caller overwrites every slice it was given to its capacity and later results must be those of a fresh library.",
		StatesAre: "distinct call results observed over all histories",
		Assume:    append([]string{"deterministic LIFO pool shim (build overlay) so that buffer recycling is reproducible; pool answers are choice points", "inputs are handed over with spare capacity, as a reused caller buffer would be"}, commonAssume...),
		Jobs: func(tier string) []runner.Job {
			return []runner.Job{{Harness: "c12.histories", Mode: "shim", Shards: 16}, {Harness: "c12.sizes", Mode: "shim", Shards: 16, GC: "on"}, {Harness: "c12.slices", Mode: "shim", Shards: 16},
				{Harness: "c12.tokens", Mode: "plain", Shards: 8, GC: "on"}, {Harness: "c12.views", Mode: "plain", Shards: 4, GC: "on"}}
		},
	})
}
