package specs

import "verif/mc/runner"

func init() {
	add(&runner.Spec{
		Prop: "C16",
		Rule: "encode: every value of the 8- and 16-bit types and every value within W (2^10 quick / 2^14 thorough) of 0, +-2^k (k<=65) and +-10^k (k<=21) for the 32- and 64-bit types, int, uint, uintptr, in 7 positions (top level, pointer, slice element, ,string field, omitempty field, pointer field, map key), compared with strconv; decode: per type every literal in [min-W, max+W] (8/16 bit) or within W (2^9 / 2^13) of every such centre and of the type's limits, 1..25-digit literals, 20 non-integer forms, in 4 positions (plain, pointer, map key, ,string) x {Unmarshal, Decoder}, judged by the rule itself: a JSON integer that fits must decode to exactly that value, anything else must be an error that leaves the destination unchanged.",
		StatesAre: "distinct (position, entry point, literal form, difference kind) outcomes",
		Assume:    append([]string{"strconv.FormatInt/FormatUint (encode) and the JSON integer grammar + math/big range test (decode) are the references"}, commonAssume...),
		Jobs: func(tier string) []runner.Job {
			return []runner.Job{
				{Harness: "c16.encode", Mode: "plain", Shards: 16},
				{Harness: "c16.decode", Mode: "plain", Shards: 16},
				{Harness: "c16.stream", Mode: "plain", Shards: 16},
			}
		},
	})
}
