package specs

import "verif/mc/runner"

func init() {
	add(&runner.Spec{
		Prop: "C07",
		Rule: "layouts struct{Pre [8]byte; F T; Mid [3]byte; G uint8; Post [8]byte} with canary contents, placed as the middle element of a three-element allocation; T over 19 (quick) / 24 (thorough) element kinds of sizes 1..64 bytes (unsigned integers, byte arrays of 3/7/9/24/64, string, slice, small struct, pointer, bool, Text/JSON unmarshalers of 1/2/4/16 bytes, interface, map), arrays [n]E for n<=3 (4), slices []E pre-populated as the window [1:3:5] of a guarded 6-element backing array, ,string members; documents: 0..n+1 elements, null, wrong kinds, nulls inside, x 6 surrounding forms (F alone, with sibling G before/after, truncated, after an unknown member) x {zero, pre-populated} x {Unmarshal, Decoder}; run in a normal build with a forced garbage collection after every call and in a -d=checkptr build. Oracle: every canary byte, the sibling field, both neighbouring elements, the guard elements around the slice window and the caller's input are unchanged; slice/string headers are well formed. Streams of 2..3 documents into 8 destination kinds whose values may share memory with the stream buffer, under every single cut, one document per Read and pieces of 1..8 bytes: the values of earlier Decodes keep their contents (a later Decode writes only inside its own destination). Over-read probes: every truncation of 9 documents (thorough: plus the depth-2 grammar) alone and followed by a lone backslash, an unfinished \\u escape, an opening quote or an unfinished literal, padded with leading white space so that the private copy (len+1 bytes) exactly fills a size class of the allocator, into 16 destination kinds through Unmarshal, UnmarshalNoEscape, Compact, Indent and Path evaluation in the checkptr build.",
		StatesAre: "distinct failure kinds",
		Assume:    append([]string{"stray reads are visible only through the checkptr build; a read of addressable memory that checkptr accepts is invisible", "reflect.StructOf lays fields out like a declared struct"}, commonAssume...),
		Jobs: func(tier string) []runner.Job {
			return []runner.Job{
				{Harness: "c07.canary", Mode: "plain", Shards: 16, GC: "on"},
				{Harness: "c07.canary", Mode: "checkptr", Shards: 16, GC: "on"},
				{Harness: "c07.retain", Mode: "plain", Shards: 16, GC: "on"},
				{Harness: "c07.overread", Mode: "checkptr", Shards: 16, GC: "on"},
				{Harness: "c07.bystanders", Mode: "shim", Shards: 16},
				{Harness: "c07.guard", Mode: "plain", Shards: 4, GC: "on"},
				{Harness: "c07.slices", Mode: "shim", Shards: 16},
				{Harness: "c07.stack", Mode: "plain", Shards: 4, GC: "on"},
				{Harness: "c07.views", Mode: "plain", Shards: 4, GC: "on"},
			}
		},
	})
}
