package specs

import "verif/mc/runner"

func init() {
	add(&runner.Spec{
		Prop: "C02",
		Rule: "every destination type of the decoding grammar (27 leaves incl. Unmarshaler/TextUnmarshaler implementers; depth 2; as C01's constructors) x every type-directed document with at most D deviations (D=2 quick, 3 thorough) from the well-typed default: other domain values incl. every integer boundary +-1 and float overflow, null, wrong JSON kind, missing/duplicate/unknown/differently-cased member, short/long array, whitespace; x {zero, pre-populated} destination x {Unmarshal, Decoder, Decoder+UseNumber, Decoder+DisallowUnknownFields}. Only RFC- and UTF-8-valid texts are judged. Error <=> error and canonical destination equality with encoding/json.",
		StatesAre: "distinct (entry point, difference kind) outcomes",
		Assume: append([]string{
			"encoding/json with the same options on an identically pre-populated destination is the reference",
			"canonical form distinguishes nil/empty, follows pointers, validates headers",
		}, commonAssume...),
		Jobs: func(tier string) []runner.Job {
			return []runner.Job{{Harness: "c02.types", Mode: "plain", Shards: 16}}
		},
	})
}
