package specs

import "verif/mc/runner"

func init() {
	add(&runner.Spec{
		Prop: "C02",
		Rule: "every destination type of the decoding grammar (27 leaves incl. Unmarshaler/TextUnmarshaler implementers; depth 2; as C01's constructors) x every type-directed document with at most D deviations (D=2 quick, 3 thorough) from the well-typed default: other domain values incl. every integer boundary +-1 and float overflow, null, wrong JSON kind, missing/duplicate/unknown/differently-cased member, short/long array, whitespace; x {zero, pre-populated} destination x {Unmarshal, Decoder, Decoder+UseNumber, Decoder+DisallowUnknownFields}. Only RFC- and UTF-8-valid texts are judged. Error <=> error and canonical destination equality with encoding/json. Floating-point literals: every valid number literal of at most 6 (thorough 7) characters over {-,0,1,9,.,e,E,+}, the shortest, exponent-form and exact decimal expansions of ~190 boundary values (powers of two and ten, subnormal and overflow limits, 2^53, halfway cases) and of their +-2 (thorough +-12) ulp neighbours, and 21 long mantissas x 38 exponents, into 14 destinations (float64/float32 in every container position, ,string, interface{}, UseNumber, Number) through Unmarshal and Decoder: the decoded bits must be encoding/json's. Base64 payloads: every string of at most 4 (thorough 5) atoms over {A,Q,Zg,=,-,_,+,/,\\n,\\r,space,\\u0041,\\/,é} into five []byte positions through Unmarshal and Decoder.",
		StatesAre: "distinct (entry point, difference kind) outcomes",
		Assume: append([]string{
			"encoding/json with the same options on an identically pre-populated destination is the reference",
			"canonical form distinguishes nil/empty, follows pointers, validates headers",
		}, commonAssume...),
		Jobs: func(tier string) []runner.Job {
			return []runner.Job{{Harness: "c02.types", Mode: "plain", Shards: 16}, {Harness: "c02.floats", Mode: "plain", Shards: 16}, {Harness: "c02.bytes", Mode: "plain", Shards: 16}, {Harness: "c02.lengths", Mode: "plain", Shards: 16}, {Harness: "c02.iface", Mode: "plain", Shards: 4}, {Harness: "c02.views", Mode: "plain", Shards: 4, GC: "on"}}
		},
	})
}
