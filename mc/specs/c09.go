package specs

import "verif/mc/runner"

func init() {
	add(&runner.Spec{
		Prop: "C09",
		Rule: "documents: every depth-2 grammar text plus 13 scanner-exercising valid and 24 invalid texts x 17 destination kinds; chunkings: all 2^(n-1) for texts of n <= 12 bytes, every single cut (every pair in thorough) otherwise, each cut also with EOF attached to the last piece and with one (0,nil) read, fixed piece sizes 1..17; long documents whose token of interest (12 kinds) ends at offsets 509..514 and 1021..1026 with cuts within 16 bytes and boundary piece sizes; a reader failure at every byte offset; streams of up to 3 documents from 10 x 3 separators under every single cut with More/InputOffset/Token compared with encoding/json. Oracle: the whole-input Decoder outcome must equal Unmarshal's and every chunking must give the whole-input outcome.",
		StatesAre: "distinct verdict sequences (v value, x error, E EOF, R reader error)",
		Assume:    append([]string{"go-json's own buffer mode is the reference for verdict and value (as the property states); encoding/json for More/InputOffset/Token sequences"}, commonAssume...),
		Jobs: func(tier string) []runner.Job {
			return []runner.Job{
				{Harness: "c09.chunks", Mode: "plain", Shards: 16},
				{Harness: "c09.long", Mode: "plain", Shards: 16},
				{Harness: "c09.longtyped", Mode: "plain", Shards: 16},
				{Harness: "c09.faults", Mode: "plain", Shards: 8},
				{Harness: "c09.multi", Mode: "plain", Shards: 16},
				{Harness: "c09.strings", Mode: "plain", Shards: 16},
				{Harness: "c09.retain", Mode: "plain", Shards: 16},
				{Harness: "c09.stream", Mode: "plain", Shards: 16, GC: "on"},
				{Harness: "c09.tokens", Mode: "plain", Shards: 8, GC: "on"},
				{Harness: "c09.lengths", Mode: "plain", Shards: 16},
				{Harness: "c09.members", Mode: "plain", Shards: 16},
			}
		},
	})
}
