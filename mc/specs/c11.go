package specs

import (
	"time"

	"verif/mc/runner"
)

func init() {
	add(&runner.Spec{
		Prop: "C11",
		Rule: "call alphabet of 75 calls over the whole public API (Marshal ok / marshaler error / recovered marshaler panic / a marshaler that re-enters the library / unsupported type / cyclic value; MarshalIndent; Colorize, Debug, UnorderedMap, DisableHTMLEscape+DisableNormalizeUTF8, NoEscape; MarshalContext with two queries and none; a reused Encoder incl. a failing value; outputs of 2 KiB and 256 KiB; Unmarshal ok / shallow and deep syntax error / type error / ,string error / duplicate keys; first-win option; UnmarshalContext; UnmarshalNoEscape; a reused Decoder after a type error and after a first-win call; a reused Path: Extract ok / failing / Unmarshal / Get; Compact/Indent ok and failing; Valid). Every history of length 2 (quick) / of length 2 and a fixed thirty-second of those of length 3 (thorough), each under the default pool answers and every single deviation (fresh object / second most recent object); then explicit-state breadth-first search to depth 3 / 4 (partitioned by the first call; 6000 / 9000 states per partition) with states deduplicated on the canonical dump of type caches, query caches, pooled objects and handle state. Oracle: every call's result equals its result as the first call after a reset; the reset hook itself is validated per shard against a fresh process; the pool shim counts objects put into a pool that already holds them (no call may do that). Handles (c11.handles): every sequence of 2..3 (thorough 4) steps on ONE Decoder - 5 documents (valid, wrong types, truncated) x 10 destinations incl. three struct types of identical layout, nil pointers, a non-pointer and nil, under whole-input reads and reads of 5 bytes - each step compared with a fresh Decoder reading exactly what the reused one has not consumed (Buffered() + the rest of the reader); every sequence of 2..3 (4) steps on ONE Encoder (values, failing values, SetIndent, SetEscapeHTML, per-call options) compared with a fresh Encoder brought to the same settings.",
		StatesAre: "explicit-state search: distinct canonical library states (bfs_states) / distinct call results",
		Assume:    append([]string{"deterministic LIFO pool shim replaces sync.Pool (build overlay); pool answers are choice points", "reset hook (build tag verif) validated against fresh-process results (traces_validated_against_impl)"}, commonAssume...),
		Jobs: func(tier string) []runner.Job {
			return []runner.Job{
				{Harness: "c11.histories", Mode: "shim", Shards: 48, MaxRSS: 8192},
				{Harness: "c11.bfs", Mode: "shim", Shards: 48, MaxRSS: 8192, Deadline: tiered(tier, 0, 15*time.Minute)},
				{Harness: "c11.handles", Mode: "shim", Shards: 16, MaxRSS: 8192},
				{Harness: "c11.order", Mode: "shim", Shards: 4},
			}
		},
	})
}
