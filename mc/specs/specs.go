// Package specs is the table of property checks: which harnesses, in which
// build modes, with how many shards, at each tier.
package specs

import (
	"time"

	"verif/mc/runner"
)

var table = map[string]*runner.Spec{}

func Lookup(p string) *runner.Spec { return table[p] }

func add(s *runner.Spec) {
	if s.Level == "" {
		s.Level = "model_checking"
	}
	table[s.Prop] = s
}

func tiered(tier string, q, t time.Duration) time.Duration {
	if tier == "thorough" {
		return t
	}
	return q
}

var commonAssume = []string{
	"go1.23.5 linux/amd64; encoding/json of that toolchain is the reference where the property names it",
	"bounded exhaustive enumeration: nothing is claimed beyond the stated bounds",
	"worker built from /repo's working tree with -tags verif at check time",
}
