package specs

import "verif/mc/runner"

func init() {
	add(&runner.Spec{
		Prop: "C17",
		Rule: "encode: every byte string of length 0..2 (quick) / 0..3 (thorough) over all 256 byte values; 36 interesting byte sequences (every control/quote/backslash/HTML/DEL class, every UTF-8 lead and continuation class, E2 80 A8/A9 whole and truncated, encoded surrogate) at every offset of ASCII fillers of length 7,8,9,15,16,17 (and 23,24,25,40) and every pair of them (fillers <= 17 quick, all thorough); x 4 HTMLEscape/NormalizeUTF8 flag sets x {value, map key, struct field}. decode: every string literal of 0..4 (quick) / 0..5 (thorough) atoms over 18 escape atoms in 10 positions x {Unmarshal, Decoder}, compared with encoding/json.",
		StatesAre: "distinct (position, flags, failure kind) outcomes",
		Assume:    append([]string{"encoding/json is the conforming parser that reads emitted literals back, and the reference for decoded strings"}, commonAssume...),
		Jobs: func(tier string) []runner.Job {
			return []runner.Job{
				{Harness: "c17.encode", Mode: "plain", Shards: 16},
				{Harness: "c17.decode", Mode: "plain", Shards: 16},
				{Harness: "c17.utf8", Mode: "plain", Shards: 16},
				{Harness: "c17.keys", Mode: "plain", Shards: 8},
			}
		},
	})
}
