package specs

import "verif/mc/runner"

func init() {
	add(&runner.Spec{
		Prop: "C18",
		Rule: "valid texts: every text of the document grammar (depth 2 quick / 3 thorough), number and string forms, every single white-space placement in the depth-1 documents, nesting 1..10001; x {Compact, HTMLEscape, Indent with all 16 prefix/indent pairs over {\"\", \" \", \"\\t\", \"é·\"}} x destination {empty, already holding abc}: appended bytes equal encoding/json's, second application agrees, HTMLEscape output equivalent and free of raw specials, Valid agrees. invalid texts: every byte string over the 27-symbol alphabet up to length 4 / 5 and every single-byte edit of every depth-2 grammar text: error and destination unchanged.",
		StatesAre: "distinct (function, difference kind) outcomes",
		Assume:    append([]string{"encoding/json's Compact/Indent/HTMLEscape/Valid are the references, byte for byte"}, commonAssume...),
		Jobs: func(tier string) []runner.Job {
			return []runner.Job{
				{Harness: "c18.valid", Mode: "plain", Shards: 16, MaxRSS: 8192},
				{Harness: "c18.invalid", Mode: "plain", Shards: 16},
				{Harness: "c18.lengths", Mode: "plain", Shards: 16},
				{Harness: "c18.ctrl", Mode: "plain", Shards: 8},
			}
		},
	})
}
