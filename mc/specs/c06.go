package specs

import "verif/mc/runner"

func init() {
	add(&runner.Spec{
		Prop: "C06",
		Rule: "inputs: every byte string over the 27-symbol alphabet up to length 4 (quick) / 5 (thorough), every prefix and every single-byte deletion/insertion/substitution of every depth-2 grammar text, every token string (incl. malformed atoms) up to length 3 / 4; each through Unmarshal into ~60 destination types (one per decoder kind, bitmap and map key lookup structs, recursive struct), Decoder.Decode/Buffered/InputOffset, UnmarshalNoEscape, first-win option, Token/More, Valid, Compact, Indent, HTMLEscape. Nesting family: 4 opener patterns x depth 1..10^6 (10^7 thorough) x closed/unclosed x 12 entry points, one journalled case each. Readers: every cut x failure position (coinciding in quick, all pairs in thorough). CreatePath/Extract/Get are driven by the C20 path harness. Oracle: the call returns.",
		StatesAre: "distinct (entry point, returned/panicked) outcomes",
		Assume:    append([]string{"a hang is only claimed for a case that exceeds 120 s three times when run alone; a worker death only if it recurs 3/3 alone"}, commonAssume...),
		Jobs: func(tier string) []runner.Job {
			return []runner.Job{
				{Harness: "c06.inputs", Mode: "plain", Shards: 16},
				{Harness: "c06.nesting", Mode: "plain", Shards: 8, MaxRSS: 8192, GC: "on"},
				{Harness: "c06.reader", Mode: "plain", Shards: 16},
				{Harness: "c20.paths", Mode: "plain", Shards: 16},
				{Harness: "c06.pathtrunc", Mode: "plain", Shards: 16},
				{Harness: "c06.lengths", Mode: "plain", Shards: 16},
				{Harness: "c06.iface", Mode: "plain", Shards: 4},
			}
		},
	})
}
