package specs

import "verif/mc/runner"

func init() {
	add(&runner.Spec{
		Prop: "C05",
		Rule: "every byte string over the 27-symbol structural alphabet up to length 5 (quick) / 6 (thorough); every token string over 25 tokens (13 well-formed + 12 malformed atoms) up to length 5 / 6 into 18 typed destinations; every single-byte deletion, insertion and substitution (27 symbols) of every text of the document grammar. A case is distinct by its bytes; distinct_nontrivial counts distinct (verdict pattern x destination) outcomes.",
		StatesAre: "distinct outcome patterns (Unmarshal/Valid verdict bits, Decoder verdict sequence shape, per-destination accept/reject)",
		Assume: append([]string{
			"hand-written RFC 8259 recogniser, cross-validated against encoding/json.Valid on every enumerated string (traces_validated_against_impl)",
		}, commonAssume...),
		Jobs: func(tier string) []runner.Job {
			return []runner.Job{
				{Harness: "c05.bytes", Mode: "plain", Shards: 16},
				{Harness: "c05.tokens", Mode: "plain", Shards: 16, Deadline: tiered(tier, 0, 0)},
				{Harness: "c05.edits", Mode: "plain", Shards: 16},
				{Harness: "c05.bytes256", Mode: "plain", Shards: 16},
				{Harness: "c05.strings", Mode: "plain", Shards: 8},
				{Harness: "c05.numbers", Mode: "plain", Shards: 8},
				{Harness: "c05.ctrl", Mode: "plain", Shards: 8},
			}
		},
	})
}
