package specs

import "verif/mc/runner"

func init() {
	add(&runner.Spec{
		Prop: "C15",
		Rule: "struct shapes (reflect.StructOf, names given by tags): every single field name of length 1..2 over {a A b B 1 _ é É <} and ordered pairs of names (quick: one-character pairs and pairs related by case or prefix; thorough: all 8010), each padded to <=8, 9..16 and 17 fields (bitmap8, bitmap16 and map lookup) and once with 64- and 65-byte names; keys: every string of length 0..2 over the alphabet plus extensions, prefixes and case variants of the field names, spelled raw, fully \\u-escaped and with the first/last character escaped; duplicate-key documents; Unmarshal and Decoder; encoding side: member names and order. Compiled-in embedded-struct types (10) x 20 keys x 7 second keys. Oracle: encoding/json sets the same field to the same value.",
		StatesAre: "distinct (expected relation, observed relation) outcomes",
		Assume:    append([]string{"encoding/json on the identical struct type is the reference", "field names are given by json tags on generated fields (Go identifiers cannot spell most of the alphabet)"}, commonAssume...),
		Jobs: func(tier string) []runner.Job {
			return []runner.Job{
				{Harness: "c15.keys", Mode: "plain", Shards: 16},
				{Harness: "c15.embedded", Mode: "plain", Shards: 4},
			}
		},
	})
}
