package specs

import "verif/mc/runner"

func init() {
	add(&runner.Spec{
		Prop: "C03",
		Rule: "(a) every type of the run-time grammar (as C01, plus chan/func/complex members) x every value with at most D non-default positions over domains that include NaN, +-Inf (both float widths) and 15 ill-formed json.Number texts x 3 placements x 36 entry-point/option combinations (all subsets of DisableHTMLEscape, DisableNormalizeUTF8, UnorderedMap on MarshalWithOption, MarshalIndentWithOption, MarshalContext, Encoder.EncodeWithOption; Marshal, MarshalIndent, MarshalNoEscape, Encoder+indent); (b) Marshaler / context Marshaler / RawMessage / json.Number / TextMarshaler members returning every byte string over the 27-symbol alphabet up to length 3 (quick) / 4 (thorough) and every number-alphabet string two symbols longer, in 16 positions x 5 entry points, plus every single-byte edit of every depth-1 grammar text in 3 positions x 2 entry points. (c) c03.sizes: seven carriers (byte slice, strings, RawMessage, []int, marshaler text, map value) of EVERY size up to 1200 (thorough 4200) bytes, alone and behind 0/500/1000 leading bytes, from empty buffer pools and from the grown buffer, 5 entry points. Success must yield exactly one RFC 8259 value (valid UTF-8 while normalisation is on); whatever encoding/json refuses must be refused.",
		StatesAre: "distinct (position, failure kind) outcomes",
		Assume: append([]string{
			"the RFC 8259 recogniser decides well-formedness of outputs; encoding/json's refusal decides which values are unrepresentable",
		}, commonAssume...),
		Jobs: func(tier string) []runner.Job {
			return []runner.Job{
				{Harness: "c03.types", Mode: "plain", Shards: 16},
				{Harness: "c03.bytes", Mode: "plain", Shards: 16},
				{Harness: "c03.utf8", Mode: "plain", Shards: 16},
				{Harness: "c03.sizes", Mode: "shim", Shards: 16},
				{Harness: "c03.ctrl", Mode: "plain", Shards: 8},
				{Harness: "c03.passthrough", Mode: "plain", Shards: 8},
			}
		},
	})
}
