package specs

import "verif/mc/runner"

func init() {
	runner.SetCrashClassifier("enc.fatal", func(kind, sig, desc string) string {
		return "pointer-chain shape " + desc + " : wrong output, panic or process death"
	})
	add(&runner.Spec{
		Prop: "C01",
		Rule: "every type of the run-time type grammar to depth 2 (31 leaves incl. named Marshaler/TextMarshaler implementers, recursive and embedded structs; constructors *T, []T, [2]T, [0]T, map[K]T, struct with 6 tag sets, two- and three-field structs) x every value with at most D non-default positions (D=2 quick, 3 thorough; per-kind boundary domains) x 3 placements (direct, behind a pointer, inside interface{}) x 4 encoder configurations, each compared with encoding/json. distinct_nontrivial counts distinct (placement, configuration, difference kind) outcomes. Floating-point values: ~190 boundary values (powers of two and ten, format switch-over at 1e-6 and 1e21, subnormals, limits of float32 and float64, 2^53) with their +-3 (thorough +-40) ulp neighbours in float64 and float32, in 16 positions (scalar, pointer, slice, array, map value, map key, struct member plain / ,string / ,omitempty, inside interface{}) x {Marshal, MarshalIndent}: bytes equal to encoding/json.",
		StatesAre: "distinct (placement, configuration, difference-kind) outcomes",
		Assume: append([]string{
			"encoding/json on the identical value is the reference; error texts are not compared; tokens compared by decoded string contents and exact number value",
			"reflect.StructOf types stand in for anonymous struct types; named types with methods are compiled into the worker",
		}, commonAssume...),
		Jobs: func(tier string) []runner.Job {
			return []runner.Job{
				{Harness: "c01.types", Mode: "plain", Shards: 16, Deadline: tiered(tier, 0, 0)},
				{Harness: "enc.fatal", Mode: "plain", Shards: 4, MaxRSS: 2048},
				{Harness: "c01.floats", Mode: "plain", Shards: 16},
				{Harness: "c01.windows", Mode: "plain", Shards: 2},
				{Harness: "c01.deep", Mode: "plain", Shards: 8, GC: "on", MaxRSS: 3072},
				{Harness: "c01.passthrough", Mode: "plain", Shards: 8},
			}
		},
	})
}
