package specs

import (
	"time"

	"verif/mc/runner"
)

func init() {
	add(&runner.Spec{
		Prop: "C10",
		Rule: "scenarios: every unordered pair (with repetition) of 13 calls (Marshal of two compiled-in types and a reflect-made type, MarshalIndent, MarshalContext with a shared FieldQuery, Unmarshal into the same kinds, Valid/Compact/Indent, Encoder to a writer that yields inside Write, Decoder from a reader that yields inside Read), one call per goroutine (thorough: a third goroutine), type caches and pools reset before every execution (first use of every type), pool answers {most recent, fresh}; every interleaving with at most 2 (quick) / 3 (thorough) preemptions at the library's sync operations and hooked shared accesses; in the production (!race) source variant and in the race-build source variant (mutex-protected caches; selected through the overlay without the race detector's instrumentation). Oracle: every call returns what it returns alone; no deadlock, no step-horizon overrun; on the -race build no happens-before race on the hooked locations.",
		StatesAre: "distinct call results observed over all schedules",
		Assume: append([]string{
			"sequentially consistent interleavings at sync operations and hooked accesses only; weak-memory reorderings are not modelled",
			"the happens-before race check covers the hooked locations (cache slots, FieldQuery.hash, Path.node); other locations are covered only through wrong results",
		}, commonAssume...),
		Jobs: func(tier string) []runner.Job {
			return []runner.Job{
				{Harness: "c10.sched", Mode: "shim", Shards: 16, Deadline: tiered(tier, 0, 20*time.Minute)},
				{Harness: "c10.sched", Mode: "racevar", Shards: 16, Deadline: tiered(tier, 0, 20*time.Minute)},
				{Harness: "c10.free", Mode: "racefree", Shards: 8, GC: "on"},
			}
		},
	})
}
