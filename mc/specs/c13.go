package specs

import "verif/mc/runner"

func init() {
	add(&runner.Spec{
		Prop: "C13",
		Rule: "every type of the run-time type grammar (as C01) x every value with at most D non-default positions (D=2 quick, 3 thorough) x 3 placements; for each, 8 variant entry points/options, UnorderedMap, 4 prefix/indent pairs (with and without a marked colour scheme) are related to Marshal's bytes; placements are related to each other whenever encoding/json gives one document for them. c13.depth: marshaler / RawMessage texts nested 9999..10001 containers deep (thorough: 1..20000) (arrays, objects, alternating; five carriers; three placements) under the same relations. distinct_nontrivial counts distinct (relation, difference kind) outcomes.",
		StatesAre: "distinct (relation, difference kind) outcomes",
		Assume: append([]string{
			"encoding/json.Indent and encoding/json.HTMLEscape are the neutral formatters used to relate outputs",
			"cases whose plain Marshal panics are counted and left to C01/C08",
		}, commonAssume...),
		Jobs: func(tier string) []runner.Job {
			return []runner.Job{{Harness: "c13.types", Mode: "plain", Shards: 16}, {Harness: "c13.depth", Mode: "plain", Shards: 16}}
		},
	})
}
