package specs

import "verif/mc/runner"

func init() {
	add(&runner.Spec{
		Prop: "C20",
		Rule: "every path string over {$ . [ ] * ' \" 0 1 a b} up to length 5 (quick) / 6 (thorough): CreatePath must not panic and must accept exactly the documented grammar; every accepted path x ~130 documents over keys {a,b} (depth <= 3, width <= 2, plus invalid/odd documents): Extract against the reference evaluator (byte ranges in document order, compacted), Path.Unmarshal against Extract, Path.Get over 10 Go sources must return; reuse histories: 18 paths x every sequence of up to 3 (4 thorough) Extract calls over 8 documents (matching, failing mid-evaluation, selecting nothing, invalid) against the fresh-Path result; schedules: 2 goroutines sharing one Path under all interleavings with <=2 preemptions (harness c20.sched, build mode shim).",
		StatesAre: "distinct (selector-kind sequence, difference kind) outcomes / distinct Extract results in reuse histories",
		Assume:    append([]string{"reference grammar and evaluator = the selector subset path.go documents, validated against every expectation of path_test.go (unit test in mc/oracle)", "an error return is accepted where the reference selects nothing"}, commonAssume...),
		Jobs: func(tier string) []runner.Job {
			return []runner.Job{
				{Harness: "c20.paths", Mode: "plain", Shards: 16},
				{Harness: "c20.long", Mode: "plain", Shards: 16},
				{Harness: "c20.reuse", Mode: "plain", Shards: 8},
				{Harness: "c20.sched", Mode: "shim", Shards: 2},
				{Harness: "c20.free", Mode: "racefree", Shards: 2, GC: "on"},
			}
		},
	})
}
