package specs

import (
	"bytes"
	"fmt"
	"os"
	"os/exec"
	"path/filepath"
	"strings"
	"sync"

	"verif/mc/runner"
)

type c14Variant struct {
	name   string
	n      int
	prefix string
	racev  bool
	pie    bool   // position-independent executable: the binary's type descriptors lie ABOVE the heap, so run-time-created types are below the window
	order  string // "": encode and decode interleaved per value; "enc-first": every value is encoded before the first decode of the process; "dec-first": the converse
}

func c14Variants(tier string) []c14Variant {
	v := []c14Variant{
		{"n50", 50, "T", false, false, ""},
		{"n500-zq", 500, "Zq", false, false, ""},
		{"n5000", 5000, "T", false, false, ""},
		{"n500-racevariant", 500, "Aa", true, false, ""},
		{"n800-encfirst", 800, "T", false, false, "enc-first"},
		{"n800-decfirst", 800, "T", false, false, "dec-first"},
		{"n500-pie", 500, "T", false, true, ""},
	}
	if tier == "thorough" {
		v = append(v,
			c14Variant{"n20000", 20000, "T", false, false, ""},
			c14Variant{"n5000-aa", 5000, "Aa", false, false, ""},
			c14Variant{"n2000-zq", 2000, "Zq", false, false, ""},
			c14Variant{"n5000-racevariant", 5000, "T", true, false, ""},
			c14Variant{"n200", 200, "Mid", false, false, ""},
			c14Variant{"n10000-zq", 10000, "Zq", false, false, ""},
			c14Variant{"n5000-encfirst", 5000, "Zq", false, false, "enc-first"},
			c14Variant{"n5000-decfirst", 5000, "Zq", false, false, "dec-first"},
			c14Variant{"n800-encfirst-racevariant", 800, "T", true, false, "enc-first"},
			c14Variant{"n5000-pie", 5000, "Zq", false, true, ""},
			c14Variant{"n800-pie-decfirst", 800, "T", false, true, "dec-first"},
		)
	}
	return v
}

// c14Source generates the type corpus of one program of the family.
func c14Source(v c14Variant) string {
	var sb strings.Builder
	sb.WriteString("// Code generated for the C14 check; DO NOT EDIT.\n\npackage main\n\n")
	for i := 0; i < v.n; i++ {
		fmt.Fprintf(&sb, "type %s%d struct {\n\tF%d int `json:\"f%d\"`\n\tS string `json:\"s\"`\n}\n", v.prefix, i, i, i)
		if i%5 == 0 {
			fmt.Fprintf(&sb, "type %sL%d []%s%d\n", v.prefix, i, v.prefix, i)
		}
		if i%9 == 0 {
			fmt.Fprintf(&sb, "type %sM%d map[string]%s%d\n", v.prefix, i, v.prefix, i)
		}
	}
	sb.WriteString("\nvar values = []interface{}{\n")
	for i := 0; i < v.n; i++ {
		fmt.Fprintf(&sb, "\t%s%d{%d, \"t%d\"},\n", v.prefix, i, i, i)
		if i%5 == 0 {
			fmt.Fprintf(&sb, "\t%sL%d{{%d, \"l\"}},\n", v.prefix, i, i)
		}
		if i%9 == 0 {
			fmt.Fprintf(&sb, "\t%sM%d{\"k\": {%d, \"m\"}},\n", v.prefix, i, i)
		}
		if i%7 == 0 {
			fmt.Fprintf(&sb, "\t[]%s%d{{%d, \"u\"}},\n", v.prefix, i, i)
		}
		if i%11 == 0 {
			fmt.Fprintf(&sb, "\tmap[string]*%s%d{\"k\": {%d, \"p\"}},\n", v.prefix, i, i)
		}
		if i%13 == 0 {
			fmt.Fprintf(&sb, "\t[2]%s%d{{%d, \"a\"}},\n", v.prefix, i, i)
		}
	}
	sb.WriteString("}\n")
	return sb.String()
}

func c14Prepare(e *runner.Env, tier string) ([]runner.Job, error) {
	tmpl, err := os.ReadFile(filepath.Join(e.Verif, "mc", "c14tmpl", "main.go.txt"))
	if err != nil {
		return nil, err
	}
	vars := c14Variants(tier)
	jobs := make([]runner.Job, len(vars))
	errs := make([]error, len(vars))
	var ovMu sync.Mutex
	// (written once, before the parallel builds read it)
	mf, mfErr := e.Modfile()
	var wg sync.WaitGroup
	sem := make(chan struct{}, 4)
	for i, v := range vars {
		wg.Add(1)
		go func(i int, v c14Variant) {
			defer wg.Done()
			sem <- struct{}{}
			defer func() { <-sem }()
			// the generated package lives inside the harness module (git-ignored) and is removed afterwards
			dir := filepath.Join(e.Verif, "mc", ".gen", fmt.Sprintf("c14-%s-%d", v.name, os.Getpid()))
			os.RemoveAll(dir)
			if errs[i] = os.MkdirAll(dir, 0o755); errs[i] != nil {
				return
			}
			defer os.RemoveAll(dir)
			src := strings.Replace(string(tmpl), `"VARIANT"`, fmt.Sprintf("%q", v.name), 1)
			src = strings.Replace(src, `"ORDER"`, fmt.Sprintf("%q", v.order), 1)
			os.WriteFile(filepath.Join(dir, "main.go"), []byte(src), 0o644)
			os.WriteFile(filepath.Join(dir, "types_gen.go"), []byte(c14Source(v)), 0o644)
			out := filepath.Join(e.WorkDir, "c14-"+v.name)
			args := []string{"build", "-o", out}
			if v.pie {
				args = append(args, "-buildmode=pie")
			}
			tags := "verif"
			if v.racev {
				tags += ",vshim,vracevar"
				ovMu.Lock()
				ov, err := e.Overlay(true)
				ovMu.Unlock()
				if err != nil {
					errs[i] = err
					return
				}
				args = append(args, "-overlay", ov)
			}
			args = append(args, "-tags", tags)
			if mfErr != nil {
				errs[i] = mfErr
				return
			}
			if mf != "" {
				args = append(args, "-modfile", mf)
			}
			args = append(args, "./.gen/"+filepath.Base(dir))
			cmd := exec.Command("go", args...)
			cmd.Dir = filepath.Join(e.Verif, "mc")
			cmd.Env = runner.GoEnv(e)
			var buf bytes.Buffer
			cmd.Stdout, cmd.Stderr = &buf, &buf
			if err := cmd.Run(); err != nil {
				errs[i] = fmt.Errorf("build of C14 program %s failed: %v\n%s", v.name, err, buf.String())
				return
			}
			mode := "c14-program"
			jobs[i] = runner.Job{Harness: "c14.bind." + v.name, Mode: mode, Shards: 1, Bin: out, GC: "on", MaxRSS: 8192}
		}(i, v)
	}
	wg.Wait()
	for _, err := range errs {
		if err != nil {
			return nil, err
		}
	}
	// one Decoder / Encoder used for several types in sequence (incl. refused destinations): see props/c11handles.go
	jobs = append(jobs, runner.Job{Harness: "c14.handles", Mode: "shim", Shards: 16, MaxRSS: 8192})
	jobs = append(jobs, runner.Job{Harness: "c14.order", Mode: "shim", Shards: 4})
	return jobs, nil
}

func init() {
	add(&runner.Spec{
		Prop: "C14",
		Rule: "a family of generated programs (quick: 50, 500, 5000 types, a 500-type program in the race-build source variant, and two 800-type programs that encode every value before the first decode of the process / decode every value before the first encode; thorough adds 200, 2000, 5000, 10000, 20000 with other name prefixes), each defining N named struct types with distinct members plus named slice/map types and unnamed slice, pointer-map and array composites, linked densely by the linker. In every program, for every compiled-in value by value and by pointer (ascending, cold then warm; descending after a cache reset), for 300+300 run-time types created before and after first use, and for run-time types whose heap descriptors are steered (by growing the heap) to alias the address window modulo 2^32: the binding hooks must see every value handled by the program of its own type and no decoder slot claimed by two types, and Marshal/Unmarshal must give encoding/json's result for the type-specific sentinel.",
		StatesAre: "distinct failure kinds",
		Assume:    append([]string{"c14.handles: every sequence of 2..3 (thorough 4) Decode steps on one Decoder over 5 documents x 10 destinations (three struct types of identical layout, refused destinations) equals a fresh Decoder on the unconsumed input, step by step", "linux/amd64, go1.23.5 linker layout; other linkers and architectures are out of scope", "binding hooks (build tag verif) are called on every return of CompileToGetCodeSet / CompileToGetDecoder"}, commonAssume...),
		Prepare:   c14Prepare,
	})
}
