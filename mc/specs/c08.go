package specs

import "verif/mc/runner"

func init() {
	add(&runner.Spec{
		Prop: "C08",
		Rule: "616 generated compiled-in types struct{pre...; R; post...}: R over {*T, []T, []*T, map[string]T, map[string]*T, interface{}, embedded pointer back to T}, pre/post over all sequences of length 0..1 (and 8 of length 2) of {int, string, *int, []int, map[string]interface{}, interface{}, nested struct}, plus mutual recursion; values at nesting depth 0..3 with every nil/non-nil pattern and interface content (scalar, nil, the same struct again by value and by pointer, a marshaler that forces a GC, allocates 1 MiB and recurses 10^4 frames) within D deviations (1 quick, 2 thorough); by value, behind a pointer, inside interface{}; through all four interpreters, Debug and MarshalNoEscape with the slot hook armed (pointer stack sized exactly; every load/store checked for bounds, alignment and frame overlap) and output compared with encoding/json; cycles of length 1 and 2 through pointer, pointer slice, pointer map, interface and embedded pointer, and through plain maps/slices, must give an error; acyclic nesting 999..2000 deep.",
		StatesAre: "distinct failure kinds",
		Assume:    append([]string{"slot hook (build tag verif) observes every access made through load/store/loadNPtr of the four VMs; reads of the value's own memory are judged only through the output and crashes"}, commonAssume...),
		Jobs: func(tier string) []runner.Job {
			return []runner.Job{
				{Harness: "c08.shapes", Mode: "plain", Shards: 16, GC: "on"},
				{Harness: "c08.cycles", Mode: "plain", Shards: 16, GC: "on", HangSeconds: 30, MaxRSS: 3072},
				{Harness: "c08.deep", Mode: "plain", Shards: 8, GC: "on"},
				{Harness: "c08.liveness", Mode: "plain", Shards: 4, GC: "on"},
				{Harness: "c08.windows", Mode: "plain", Shards: 2, GC: "on"},
				{Harness: "c08.dag", Mode: "plain", Shards: 8, GC: "on", MaxRSS: 3072},
				{Harness: "c08.guard", Mode: "plain", Shards: 4, GC: "on"},
			}
		},
	})
}
