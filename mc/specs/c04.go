package specs

import "verif/mc/runner"

func init() {
	add(&runner.Spec{
		Prop: "C04",
		Rule: "every type of the round-trippable sub-grammar (25 leaves without one-way marshalers; *T, []T, [2]T, map[string]T, struct with 3 tag sets, to depth 2; integer-keyed maps; two-field structs) x every value with at most D non-default positions over round-trip domains (integer extremes of every width, 17-digit floats, every escape class, nil vs empty) x 3 channels (Marshal->Unmarshal, MarshalIndent->Unmarshal, Encoder->Decoder); the decoded value's canonical form must equal the one encoding/json's own round trip yields.",
		StatesAre: "distinct (channel, failure kind) outcomes",
		Assume: append([]string{
			"expected value = result of encoding/json's own round trip (fixes the JSON-inherent collapses without a hand-written exception list); cases where the reference round trip fails are counted and skipped",
		}, commonAssume...),
		Jobs: func(tier string) []runner.Job {
			return []runner.Job{{Harness: "c04.types", Mode: "plain", Shards: 16}, {Harness: "c04.stream", Mode: "plain", Shards: 16, GC: "on"}}
		},
	})
}
