package specs

import "verif/mc/runner"

func init() {
	add(&runner.Spec{
		Prop: "C19",
		Rule: "struct tree Q1>Q2>Q3 (scalar, struct, *struct, []struct, map[string]struct, interface{} holding structs, context-aware marshaler) x 8 values/placements; queries: per field {not selected, selected, selected with a recursively generated sub-query} plus a non-existent name, all queries with at most D selections (D=3 quick, 4 thorough); each compared with the type-aware reference projection of Marshal's output, and with the query rebuilt from its own QueryString; histories: for 6 values, every ordered pair from 11-14 queries, every sequence of length 2..3 over {query, other query, no query} after a cache reset, each call compared with its cold result.",
		StatesAre: "distinct projection outcomes / distinct outputs in histories",
		Assume:    append([]string{"reference projection validated against query_test.go's expectation (unit test in mc/props)", "only struct objects are restricted; maps pass the query on to their values; an unknown name selects nothing"}, commonAssume...),
		Jobs: func(tier string) []runner.Job {
			return []runner.Job{
				{Harness: "c19.queries", Mode: "plain", Shards: 16},
				{Harness: "c19.histories", Mode: "plain", Shards: 16},
			}
		},
	})
}
