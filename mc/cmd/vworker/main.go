// vworker runs one harness shard against the library under test.
package main

import (
	"flag"
	"fmt"
	"os"
	"runtime/debug"
	"strconv"
	"strings"
	"time"

	_ "verif/mc/props"
	"verif/mc/work"
)

func main() {
	var (
		harness = flag.String("harness", "", "harness name")
		prop    = flag.String("prop", "", "property id")
		tier    = flag.String("tier", "quick", "quick|thorough")
		shard   = flag.Int("shard", 0, "")
		nshards = flag.Int("nshards", 1, "")
		seed    = flag.Int64("seed", 0, "")
		from    = flag.Int64("from", 0, "first case index to execute")
		skip    = flag.String("skip", "", "comma separated case indices to skip")
		only    = flag.Int64("only", -1, "execute only this case index")
		res     = flag.String("result", "", "result file")
		journal = flag.String("journal", "", "journal file")
		dl      = flag.Duration("deadline", 0, "internal deadline")
		verbose = flag.Bool("v", false, "")
		list    = flag.Bool("list", false, "")
		match   = flag.String("match", "", "development aid: run only cases whose description contains this")
	)
	flag.Parse()
	if *list {
		fmt.Println(strings.Join(work.Names(), "\n"))
		return
	}
	h := work.Lookup(*harness)
	if h == nil {
		fmt.Fprintf(os.Stderr, "unknown harness %q\n", *harness)
		os.Exit(2)
	}
	if *prop == "" {
		*prop = h.Prop
	}
	c, err := work.New(*prop, *harness, *tier, *shard, *nshards, *seed, *res, *journal)
	if err != nil {
		fmt.Fprintln(os.Stderr, err)
		os.Exit(2)
	}
	c.From = *from
	c.Only = *only
	c.Match = *match
	c.Verbose = *verbose
	for _, s := range strings.Split(*skip, ",") {
		if s == "" {
			continue
		}
		v, err := strconv.ParseInt(s, 10, 64)
		if err != nil {
			fmt.Fprintln(os.Stderr, err)
			os.Exit(2)
		}
		c.Skip[v] = true
	}
	if *dl > 0 {
		c.Deadline = time.Now().Add(*dl)
	}
	debug.SetTraceback("single")
	h.Run(c)
	c.Finish()
}
