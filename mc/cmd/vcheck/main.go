// vcheck is the coordinator: vcheck <property> <quick|thorough>
package main

import (
	"flag"
	"fmt"
	"os"
	"strconv"
	"strings"

	"verif/mc/runner"
	"verif/mc/specs"
)

func main() {
	propose := flag.Bool("propose", false, "write proposals for unlisted classes to .work/")
	keep := flag.Bool("keep", false, "keep the work directory")
	procs := flag.Int("procs", 16, "max worker processes")
	warm := flag.Bool("warm", false, "build every worker mode once to warm the build cache")
	flag.Parse()
	if *warm {
		verif := os.Getenv("VERIF_HOME")
		if verif == "" {
			verif = "/verif"
		}
		os.Exit(runner.Warm(&runner.Env{Verif: verif, Repo: "/repo"}))
	}
	if flag.NArg() < 1 {
		fmt.Fprintln(os.Stderr, "usage: vcheck [-propose] <property> [quick|thorough]")
		os.Exit(2)
	}
	prop := flag.Arg(0)
	tier := "quick"
	if flag.NArg() > 1 {
		tier = flag.Arg(1)
	}
	if t := os.Getenv("VERIF_TIER"); t != "" && flag.NArg() < 2 {
		tier = t
	}
	if tier != "quick" && tier != "thorough" {
		fmt.Fprintln(os.Stderr, "tier must be quick or thorough")
		os.Exit(2)
	}
	spec := specs.Lookup(prop)
	if spec == nil {
		fmt.Fprintf(os.Stderr, "no check for property %q\n", prop)
		os.Exit(2)
	}
	var seed int64
	if s := os.Getenv("VERIF_SEED"); s != "" {
		seed, _ = strconv.ParseInt(s, 10, 64)
	}
	verif := os.Getenv("VERIF_HOME")
	if verif == "" {
		verif = "/verif"
	}
	repo := os.Getenv("VERIF_REPO")
	if repo == "" {
		repo = "/repo"
	}
	if ad := os.Getenv("VERIF_ADHOC"); ad != "" {
		// development aid: VERIF_ADHOC=harness:mode:shards runs one harness instead of the property's jobs
		parts := strings.Split(ad, ":")
		n, _ := strconv.Atoi(parts[2])
		sp := *spec
		sp.Jobs = func(string) []runner.Job { return []runner.Job{{Harness: parts[0], Mode: parts[1], Shards: n, GC: "on"}} }
		spec = &sp
	}
	e := &runner.Env{Verif: verif, Repo: repo, Seed: seed, Tier: tier, Propose: *propose, Keep: *keep, Procs: *procs}
	os.Exit(runner.Run(e, spec))
}
