// Package work is the worker-side framework: case journal, sharding,
// violation aggregation and the result file read by the coordinator.
package work

import (
	"bytes"
	"encoding/binary"
	"encoding/json"
	"fmt"
	"hash/fnv"
	"os"
	"sort"
	"syscall"
	"time"
)

// ClassAgg aggregates the violations of one class inside one worker.
type ClassAgg struct {
	Count   int64  `json:"count"`
	Witness string `json:"witness"` // simplest (shortest, then smallest) failing case
	Detail  string `json:"detail"`  // observed vs expected for the witness
	Harness string `json:"harness"`
}

// Result is what a worker reports.
type Result struct {
	Harness     string               `json:"harness"`
	Shard       int                  `json:"shard"`
	Executions  int64                `json:"executions"`
	Cases       int64                `json:"cases"` // cases seen (all shards' indices)
	Skipped     int64                `json:"skipped"`
	RefChecks   int64                `json:"ref_checks"`
	Outcomes    []uint64             `json:"outcomes,omitempty"`
	OutcomesN   int64                `json:"outcomes_n"`
	Classes     map[string]*ClassAgg `json:"classes"`
	Counters    map[string]int64     `json:"counters"`
	Samples     []string             `json:"samples"`
	Exhaustive  bool                 `json:"exhaustive"`
	Notes       []string             `json:"notes,omitempty"`
	DoneIdx     int64                `json:"done_idx"`
	Finished    bool                 `json:"finished"`
	HarnessErr  string               `json:"harness_error,omitempty"`
	WallSeconds float64              `json:"wall_s"`
}

const JournalSize = 4096

// Ctx is handed to a harness.
type Ctx struct {
	Prop     string
	Harness  string
	Tier     string
	Shard    int
	NShards  int
	Seed     int64
	From     int64
	Skip     map[int64]bool
	Deadline time.Time
	Only     int64  // >=0: execute only this case index (replay)
	Match    string // development aid: execute only cases whose description contains it
	Verbose  bool
	// SelfSharded: the harness splits its space itself (by c.Shard/c.NShards);
	// Begin then does not filter by index.
	SelfSharded bool

	idx      int64
	journal  []byte
	res      Result
	outcomes map[uint64]struct{}
	resPath  string
	lastCk   time.Time
	start    time.Time
	sampleN  int64
}

func New(prop, harness, tier string, shard, nshards int, seed int64, resPath, journalPath string) (*Ctx, error) {
	c := &Ctx{Prop: prop, Harness: harness, Tier: tier, Shard: shard, NShards: nshards, Seed: seed, Only: -1,
		Skip: map[int64]bool{}, outcomes: map[uint64]struct{}{}, resPath: resPath, start: time.Now(), lastCk: time.Now()}
	c.res.Harness = harness
	c.res.Shard = shard
	c.res.Classes = map[string]*ClassAgg{}
	c.res.Counters = map[string]int64{}
	c.res.Exhaustive = true
	if journalPath != "" {
		f, err := os.OpenFile(journalPath, os.O_RDWR|os.O_CREATE, 0o644)
		if err != nil {
			return nil, err
		}
		if err := f.Truncate(JournalSize); err != nil {
			return nil, err
		}
		m, err := syscall.Mmap(int(f.Fd()), 0, JournalSize, syscall.PROT_READ|syscall.PROT_WRITE, syscall.MAP_SHARED)
		if err != nil {
			return nil, err
		}
		f.Close()
		c.journal = m
	}
	return c, nil
}

func (c *Ctx) Quick() bool { return c.Tier != "thorough" }

// Begin announces the next case. It returns false when this worker must not
// execute it (other shard, already done, listed as skipped). desc is what a
// reader needs to identify the case if the process dies while executing it.
func (c *Ctx) Begin(desc []byte) bool {
	i := c.idx
	c.idx++
	if c.Match != "" {
		// development aid: run exactly the cases whose description contains Match
		if !bytes.Contains(desc, []byte(c.Match)) {
			return false
		}
		c.res.Executions++
		return true
	}
	if c.Only >= 0 {
		if i != c.Only {
			return false
		}
	} else {
		if !c.SelfSharded && c.NShards > 1 && int(i%int64(c.NShards)) != c.Shard {
			return false
		}
		if i < c.From {
			return false
		}
		if len(c.Skip) > 0 && c.Skip[i] {
			c.res.Skipped++
			return false
		}
	}
	if c.journal != nil {
		// layout: [0:8] idx+1 (0 = none), [8:12] len, [12:] desc ; seq at the end
		n := len(desc)
		if n > JournalSize-32 {
			n = JournalSize - 32
		}
		binary.LittleEndian.PutUint64(c.journal[0:], 0)
		binary.LittleEndian.PutUint32(c.journal[8:], uint32(n))
		copy(c.journal[12:], desc[:n])
		binary.LittleEndian.PutUint64(c.journal[0:], uint64(i)+1)
	}
	c.res.Executions++
	c.res.DoneIdx = i
	if c.res.Executions&0x3fff == 0 && time.Since(c.lastCk) > 5*time.Second {
		c.Checkpoint()
	}
	return true
}

// BeginS is Begin for a string description.
func (c *Ctx) BeginS(desc string) bool { return c.Begin([]byte(desc)) }

// Index returns the index of the case most recently announced.
func (c *Ctx) Index() int64 { return c.idx - 1 }

// EndCase clears the journal (the case returned).
func (c *Ctx) EndCase() {
	if c.journal != nil {
		binary.LittleEndian.PutUint64(c.journal[0:], 0)
	}
}

// ReadJournal returns the case a dead worker was executing.
func ReadJournal(path string) (idx int64, desc string, ok bool) {
	b, err := os.ReadFile(path)
	if err != nil || len(b) < 12 {
		return 0, "", false
	}
	v := binary.LittleEndian.Uint64(b[0:])
	if v == 0 {
		return 0, "", false
	}
	n := int(binary.LittleEndian.Uint32(b[8:]))
	if 12+n > len(b) {
		n = len(b) - 12
	}
	return int64(v - 1), string(b[12 : 12+n]), true
}

// TimeUp reports whether the internal deadline has passed; a harness that
// stops because of it must call NotExhaustive.
func (c *Ctx) TimeUp() bool {
	return !c.Deadline.IsZero() && time.Now().After(c.Deadline)
}

func (c *Ctx) NotExhaustive(note string) {
	c.res.Exhaustive = false
	c.res.Notes = append(c.res.Notes, note)
}

func (c *Ctx) Note(note string) { c.res.Notes = append(c.res.Notes, note) }

// Outcome records a canonical outcome (for the distinct-outcomes count).
func (c *Ctx) Outcome(s string) {
	h := fnv.New64a()
	h.Write([]byte(s))
	c.OutcomeH(h.Sum64())
}

func (c *Ctx) OutcomeH(h uint64) {
	if len(c.outcomes) < 1<<18 {
		c.outcomes[h] = struct{}{}
	}
}

// RefCheck counts one cross-validation of a reference model against a second
// executable reference.
func (c *Ctx) RefCheck(n int64) { c.res.RefChecks += n }

func (c *Ctx) Count(name string, n int64) { c.res.Counters[name] += n }

// Sample records an explored case for the evidence file (a rotating few).
func (c *Ctx) Sample(s string) {
	c.sampleN++
	if len(c.res.Samples) < 8 {
		c.res.Samples = append(c.res.Samples, s)
		return
	}
	// keep a seed-dependent spread: replace pseudo-randomly, ever more rarely
	x := uint64(c.sampleN)*0x9E3779B97F4A7C15 + uint64(c.Seed)
	if x%uint64(c.sampleN) < 8 {
		c.res.Samples[x%8] = s
	}
}

// WantSample is a cheap pre-test so harnesses need not format every case.
func (c *Ctx) WantSample() bool {
	n := c.sampleN + 1
	if len(c.res.Samples) < 8 {
		return true
	}
	x := uint64(n)*0x9E3779B97F4A7C15 + uint64(c.Seed)
	if x%uint64(n) < 8 {
		return true
	}
	c.sampleN++
	return false
}

// Violation records a violating case under a root-cause class.
func (c *Ctx) Violation(class, witness, detail string) {
	a := c.res.Classes[class]
	if a == nil {
		a = &ClassAgg{Harness: c.Harness, Witness: witness, Detail: detail}
		c.res.Classes[class] = a
	} else if len(witness) < len(a.Witness) || (len(witness) == len(a.Witness) && witness < a.Witness) {
		a.Witness, a.Detail = witness, detail
	}
	a.Count++
	if c.Verbose {
		fmt.Fprintf(os.Stderr, "violation class=%q witness=%q detail=%s\n", class, witness, detail)
	}
}

// HarnessError reports a defect of the machinery itself (never a finding).
func (c *Ctx) HarnessError(msg string) {
	if c.res.HarnessErr == "" {
		c.res.HarnessErr = msg
	}
}

func (c *Ctx) Checkpoint() { c.write(false) }
func (c *Ctx) Finish()     { c.write(true) }

func (c *Ctx) write(final bool) {
	c.lastCk = time.Now()
	if c.resPath == "" {
		return
	}
	r := c.res
	r.Cases = c.idx
	r.Finished = final
	r.WallSeconds = time.Since(c.start).Seconds()
	r.OutcomesN = int64(len(c.outcomes))
	if final {
		r.Outcomes = make([]uint64, 0, len(c.outcomes))
		for h := range c.outcomes {
			r.Outcomes = append(r.Outcomes, h)
		}
		sort.Slice(r.Outcomes, func(i, j int) bool { return r.Outcomes[i] < r.Outcomes[j] })
	}
	b, err := json.Marshal(&r)
	if err != nil {
		panic(err)
	}
	tmp := c.resPath + ".tmp"
	if err := os.WriteFile(tmp, b, 0o644); err != nil {
		panic(err)
	}
	if err := os.Rename(tmp, c.resPath); err != nil {
		panic(err)
	}
}

// Harness registry.
type Harness struct {
	Name string
	Prop string
	Run  func(c *Ctx)
}

var registry = map[string]*Harness{}

func Register(prop, name string, run func(c *Ctx)) {
	if registry[name] != nil {
		panic("duplicate harness " + name)
	}
	registry[name] = &Harness{Name: name, Prop: prop, Run: run}
}

func Lookup(name string) *Harness { return registry[name] }

func Names() []string {
	var s []string
	for n := range registry {
		s = append(s, n)
	}
	sort.Strings(s)
	return s
}
