//go:build race || vracevar
// +build race vracevar

package work

// RaceBuild reports whether the worker runs the library's race-build source
// variant (mutex-protected caches): built with -race, or with the variant
// selected through the overlay (mode racevar).
const RaceBuild = true
