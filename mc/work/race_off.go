//go:build !race && !vracevar
// +build !race,!vracevar

package work

// RaceBuild reports whether the worker runs the library's race-build source variant.
const RaceBuild = false
