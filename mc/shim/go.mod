module shimsrc

go 1.19
