// Package vatomic replaces "sync/atomic" inside the library under test.
package vatomic

import (
	"sync/atomic"
	"unsafe"

	"github.com/goccy/go-json/internal/vsync"
)

func LoadPointer(addr *unsafe.Pointer) unsafe.Pointer {
	if vsync.Hooks.Active {
		vsync.Hooks.Point("LoadPointer", unsafe.Pointer(addr))
		p := atomic.LoadPointer(addr)
		vsync.Hooks.Acquire(unsafe.Pointer(addr))
		return p
	}
	return atomic.LoadPointer(addr)
}

func StorePointer(addr *unsafe.Pointer, val unsafe.Pointer) {
	if vsync.Hooks.Active {
		vsync.Hooks.Point("StorePointer", unsafe.Pointer(addr))
		vsync.Hooks.Release(unsafe.Pointer(addr))
	}
	atomic.StorePointer(addr, val)
}
