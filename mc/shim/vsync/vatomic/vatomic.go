// Package vatomic replaces "sync/atomic" inside the library under test. Every
// operation is one scheduling point and a happens-before edge on its address
// (loads acquire, stores release, read-modify-write operations do both); the
// memory operation itself is the real atomic one.
package vatomic

import (
	"sync/atomic"
	"unsafe"

	"github.com/goccy/go-json/internal/vsync"
)

func pre(op string, addr unsafe.Pointer, acq, rel bool) {
	if vsync.Hooks.Active {
		vsync.Hooks.Point(op, addr)
		if acq {
			vsync.Hooks.Acquire(addr)
		}
		if rel {
			vsync.Hooks.Release(addr)
		}
	}
}

func LoadPointer(addr *unsafe.Pointer) unsafe.Pointer {
	pre("LoadPointer", unsafe.Pointer(addr), true, false)
	return atomic.LoadPointer(addr)
}

func StorePointer(addr *unsafe.Pointer, val unsafe.Pointer) {
	pre("StorePointer", unsafe.Pointer(addr), false, true)
	atomic.StorePointer(addr, val)
}

func SwapPointer(addr *unsafe.Pointer, new unsafe.Pointer) unsafe.Pointer {
	pre("SwapPointer", unsafe.Pointer(addr), true, true)
	return atomic.SwapPointer(addr, new)
}

func CompareAndSwapPointer(addr *unsafe.Pointer, old, new unsafe.Pointer) bool {
	pre("CompareAndSwapPointer", unsafe.Pointer(addr), true, true)
	return atomic.CompareAndSwapPointer(addr, old, new)
}

func LoadInt32(addr *int32) int32 {
	pre("LoadInt32", unsafe.Pointer(addr), true, false)
	return atomic.LoadInt32(addr)
}
func LoadInt64(addr *int64) int64 {
	pre("LoadInt64", unsafe.Pointer(addr), true, false)
	return atomic.LoadInt64(addr)
}
func LoadUint32(addr *uint32) uint32 {
	pre("LoadUint32", unsafe.Pointer(addr), true, false)
	return atomic.LoadUint32(addr)
}
func LoadUint64(addr *uint64) uint64 {
	pre("LoadUint64", unsafe.Pointer(addr), true, false)
	return atomic.LoadUint64(addr)
}
func LoadUintptr(addr *uintptr) uintptr {
	pre("LoadUintptr", unsafe.Pointer(addr), true, false)
	return atomic.LoadUintptr(addr)
}
func StoreInt32(addr *int32, v int32) {
	pre("StoreInt32", unsafe.Pointer(addr), false, true)
	atomic.StoreInt32(addr, v)
}
func StoreInt64(addr *int64, v int64) {
	pre("StoreInt64", unsafe.Pointer(addr), false, true)
	atomic.StoreInt64(addr, v)
}
func StoreUint32(addr *uint32, v uint32) {
	pre("StoreUint32", unsafe.Pointer(addr), false, true)
	atomic.StoreUint32(addr, v)
}
func StoreUint64(addr *uint64, v uint64) {
	pre("StoreUint64", unsafe.Pointer(addr), false, true)
	atomic.StoreUint64(addr, v)
}
func StoreUintptr(addr *uintptr, v uintptr) {
	pre("StoreUintptr", unsafe.Pointer(addr), false, true)
	atomic.StoreUintptr(addr, v)
}
func AddInt32(addr *int32, d int32) int32 {
	pre("AddInt32", unsafe.Pointer(addr), true, true)
	return atomic.AddInt32(addr, d)
}
func AddInt64(addr *int64, d int64) int64 {
	pre("AddInt64", unsafe.Pointer(addr), true, true)
	return atomic.AddInt64(addr, d)
}
func AddUint32(addr *uint32, d uint32) uint32 {
	pre("AddUint32", unsafe.Pointer(addr), true, true)
	return atomic.AddUint32(addr, d)
}
func AddUint64(addr *uint64, d uint64) uint64 {
	pre("AddUint64", unsafe.Pointer(addr), true, true)
	return atomic.AddUint64(addr, d)
}
func AddUintptr(addr *uintptr, d uintptr) uintptr {
	pre("AddUintptr", unsafe.Pointer(addr), true, true)
	return atomic.AddUintptr(addr, d)
}
func SwapInt32(addr *int32, v int32) int32 {
	pre("SwapInt32", unsafe.Pointer(addr), true, true)
	return atomic.SwapInt32(addr, v)
}
func SwapInt64(addr *int64, v int64) int64 {
	pre("SwapInt64", unsafe.Pointer(addr), true, true)
	return atomic.SwapInt64(addr, v)
}
func SwapUint32(addr *uint32, v uint32) uint32 {
	pre("SwapUint32", unsafe.Pointer(addr), true, true)
	return atomic.SwapUint32(addr, v)
}
func SwapUint64(addr *uint64, v uint64) uint64 {
	pre("SwapUint64", unsafe.Pointer(addr), true, true)
	return atomic.SwapUint64(addr, v)
}
func SwapUintptr(addr *uintptr, v uintptr) uintptr {
	pre("SwapUintptr", unsafe.Pointer(addr), true, true)
	return atomic.SwapUintptr(addr, v)
}
func CompareAndSwapInt32(addr *int32, old, new int32) bool {
	pre("CompareAndSwapInt32", unsafe.Pointer(addr), true, true)
	return atomic.CompareAndSwapInt32(addr, old, new)
}
func CompareAndSwapInt64(addr *int64, old, new int64) bool {
	pre("CompareAndSwapInt64", unsafe.Pointer(addr), true, true)
	return atomic.CompareAndSwapInt64(addr, old, new)
}
func CompareAndSwapUint32(addr *uint32, old, new uint32) bool {
	pre("CompareAndSwapUint32", unsafe.Pointer(addr), true, true)
	return atomic.CompareAndSwapUint32(addr, old, new)
}
func CompareAndSwapUint64(addr *uint64, old, new uint64) bool {
	pre("CompareAndSwapUint64", unsafe.Pointer(addr), true, true)
	return atomic.CompareAndSwapUint64(addr, old, new)
}
func CompareAndSwapUintptr(addr *uintptr, old, new uintptr) bool {
	pre("CompareAndSwapUintptr", unsafe.Pointer(addr), true, true)
	return atomic.CompareAndSwapUintptr(addr, old, new)
}
func AndInt32(addr *int32, mask int32) int32 {
	pre("AndInt32", unsafe.Pointer(addr), true, true)
	return atomic.AndInt32(addr, mask)
}
func AndUint32(addr *uint32, mask uint32) uint32 {
	pre("AndUint32", unsafe.Pointer(addr), true, true)
	return atomic.AndUint32(addr, mask)
}
func AndInt64(addr *int64, mask int64) int64 {
	pre("AndInt64", unsafe.Pointer(addr), true, true)
	return atomic.AndInt64(addr, mask)
}
func AndUint64(addr *uint64, mask uint64) uint64 {
	pre("AndUint64", unsafe.Pointer(addr), true, true)
	return atomic.AndUint64(addr, mask)
}
func AndUintptr(addr *uintptr, mask uintptr) uintptr {
	pre("AndUintptr", unsafe.Pointer(addr), true, true)
	return atomic.AndUintptr(addr, mask)
}
func OrInt32(addr *int32, mask int32) int32 {
	pre("OrInt32", unsafe.Pointer(addr), true, true)
	return atomic.OrInt32(addr, mask)
}
func OrUint32(addr *uint32, mask uint32) uint32 {
	pre("OrUint32", unsafe.Pointer(addr), true, true)
	return atomic.OrUint32(addr, mask)
}
func OrInt64(addr *int64, mask int64) int64 {
	pre("OrInt64", unsafe.Pointer(addr), true, true)
	return atomic.OrInt64(addr, mask)
}
func OrUint64(addr *uint64, mask uint64) uint64 {
	pre("OrUint64", unsafe.Pointer(addr), true, true)
	return atomic.OrUint64(addr, mask)
}
func OrUintptr(addr *uintptr, mask uintptr) uintptr {
	pre("OrUintptr", unsafe.Pointer(addr), true, true)
	return atomic.OrUintptr(addr, mask)
}

// Typed atomics.

type Bool struct{ v atomic.Bool }

func (x *Bool) Load() bool { pre("Bool.Load", unsafe.Pointer(x), true, false); return x.v.Load() }
func (x *Bool) Store(v bool) {
	pre("Bool.Store", unsafe.Pointer(x), false, true)
	x.v.Store(v)
}
func (x *Bool) Swap(v bool) bool { pre("Bool.Swap", unsafe.Pointer(x), true, true); return x.v.Swap(v) }
func (x *Bool) CompareAndSwap(old, new bool) bool {
	pre("Bool.CompareAndSwap", unsafe.Pointer(x), true, true)
	return x.v.CompareAndSwap(old, new)
}

type Int32 struct{ v atomic.Int32 }

func (x *Int32) Load() int32 { pre("Int32.Load", unsafe.Pointer(x), true, false); return x.v.Load() }
func (x *Int32) Store(v int32) {
	pre("Int32.Store", unsafe.Pointer(x), false, true)
	x.v.Store(v)
}
func (x *Int32) Swap(v int32) int32 {
	pre("Int32.Swap", unsafe.Pointer(x), true, true)
	return x.v.Swap(v)
}
func (x *Int32) CompareAndSwap(old, new int32) bool {
	pre("Int32.CompareAndSwap", unsafe.Pointer(x), true, true)
	return x.v.CompareAndSwap(old, new)
}
func (x *Int32) Add(d int32) int32 {
	pre("Int32.Add", unsafe.Pointer(x), true, true)
	return x.v.Add(d)
}
func (x *Int32) And(m int32) int32 {
	pre("Int32.And", unsafe.Pointer(x), true, true)
	return x.v.And(m)
}
func (x *Int32) Or(m int32) int32 { pre("Int32.Or", unsafe.Pointer(x), true, true); return x.v.Or(m) }

type Int64 struct{ v atomic.Int64 }

func (x *Int64) Load() int64 { pre("Int64.Load", unsafe.Pointer(x), true, false); return x.v.Load() }
func (x *Int64) Store(v int64) {
	pre("Int64.Store", unsafe.Pointer(x), false, true)
	x.v.Store(v)
}
func (x *Int64) Swap(v int64) int64 {
	pre("Int64.Swap", unsafe.Pointer(x), true, true)
	return x.v.Swap(v)
}
func (x *Int64) CompareAndSwap(old, new int64) bool {
	pre("Int64.CompareAndSwap", unsafe.Pointer(x), true, true)
	return x.v.CompareAndSwap(old, new)
}
func (x *Int64) Add(d int64) int64 {
	pre("Int64.Add", unsafe.Pointer(x), true, true)
	return x.v.Add(d)
}
func (x *Int64) And(m int64) int64 {
	pre("Int64.And", unsafe.Pointer(x), true, true)
	return x.v.And(m)
}
func (x *Int64) Or(m int64) int64 { pre("Int64.Or", unsafe.Pointer(x), true, true); return x.v.Or(m) }

type Uint32 struct{ v atomic.Uint32 }

func (x *Uint32) Load() uint32 { pre("Uint32.Load", unsafe.Pointer(x), true, false); return x.v.Load() }
func (x *Uint32) Store(v uint32) {
	pre("Uint32.Store", unsafe.Pointer(x), false, true)
	x.v.Store(v)
}
func (x *Uint32) Swap(v uint32) uint32 {
	pre("Uint32.Swap", unsafe.Pointer(x), true, true)
	return x.v.Swap(v)
}
func (x *Uint32) CompareAndSwap(old, new uint32) bool {
	pre("Uint32.CompareAndSwap", unsafe.Pointer(x), true, true)
	return x.v.CompareAndSwap(old, new)
}
func (x *Uint32) Add(d uint32) uint32 {
	pre("Uint32.Add", unsafe.Pointer(x), true, true)
	return x.v.Add(d)
}
func (x *Uint32) And(m uint32) uint32 {
	pre("Uint32.And", unsafe.Pointer(x), true, true)
	return x.v.And(m)
}
func (x *Uint32) Or(m uint32) uint32 {
	pre("Uint32.Or", unsafe.Pointer(x), true, true)
	return x.v.Or(m)
}

type Uint64 struct{ v atomic.Uint64 }

func (x *Uint64) Load() uint64 { pre("Uint64.Load", unsafe.Pointer(x), true, false); return x.v.Load() }
func (x *Uint64) Store(v uint64) {
	pre("Uint64.Store", unsafe.Pointer(x), false, true)
	x.v.Store(v)
}
func (x *Uint64) Swap(v uint64) uint64 {
	pre("Uint64.Swap", unsafe.Pointer(x), true, true)
	return x.v.Swap(v)
}
func (x *Uint64) CompareAndSwap(old, new uint64) bool {
	pre("Uint64.CompareAndSwap", unsafe.Pointer(x), true, true)
	return x.v.CompareAndSwap(old, new)
}
func (x *Uint64) Add(d uint64) uint64 {
	pre("Uint64.Add", unsafe.Pointer(x), true, true)
	return x.v.Add(d)
}
func (x *Uint64) And(m uint64) uint64 {
	pre("Uint64.And", unsafe.Pointer(x), true, true)
	return x.v.And(m)
}
func (x *Uint64) Or(m uint64) uint64 {
	pre("Uint64.Or", unsafe.Pointer(x), true, true)
	return x.v.Or(m)
}

type Uintptr struct{ v atomic.Uintptr }

func (x *Uintptr) Load() uintptr {
	pre("Uintptr.Load", unsafe.Pointer(x), true, false)
	return x.v.Load()
}
func (x *Uintptr) Store(v uintptr) {
	pre("Uintptr.Store", unsafe.Pointer(x), false, true)
	x.v.Store(v)
}
func (x *Uintptr) Swap(v uintptr) uintptr {
	pre("Uintptr.Swap", unsafe.Pointer(x), true, true)
	return x.v.Swap(v)
}
func (x *Uintptr) CompareAndSwap(old, new uintptr) bool {
	pre("Uintptr.CompareAndSwap", unsafe.Pointer(x), true, true)
	return x.v.CompareAndSwap(old, new)
}
func (x *Uintptr) Add(d uintptr) uintptr {
	pre("Uintptr.Add", unsafe.Pointer(x), true, true)
	return x.v.Add(d)
}

type Pointer[T any] struct{ v atomic.Pointer[T] }

func (x *Pointer[T]) Load() *T {
	pre("Pointer.Load", unsafe.Pointer(x), true, false)
	return x.v.Load()
}
func (x *Pointer[T]) Store(v *T) {
	pre("Pointer.Store", unsafe.Pointer(x), false, true)
	x.v.Store(v)
}
func (x *Pointer[T]) Swap(v *T) *T {
	pre("Pointer.Swap", unsafe.Pointer(x), true, true)
	return x.v.Swap(v)
}
func (x *Pointer[T]) CompareAndSwap(old, new *T) bool {
	pre("Pointer.CompareAndSwap", unsafe.Pointer(x), true, true)
	return x.v.CompareAndSwap(old, new)
}

type Value struct{ v atomic.Value }

func (x *Value) Load() interface{} {
	pre("Value.Load", unsafe.Pointer(x), true, false)
	return x.v.Load()
}
func (x *Value) Store(v interface{}) {
	pre("Value.Store", unsafe.Pointer(x), false, true)
	x.v.Store(v)
}
func (x *Value) Swap(v interface{}) interface{} {
	pre("Value.Swap", unsafe.Pointer(x), true, true)
	return x.v.Swap(v)
}
func (x *Value) CompareAndSwap(old, new interface{}) bool {
	pre("Value.CompareAndSwap", unsafe.Pointer(x), true, true)
	return x.v.CompareAndSwap(old, new)
}
