// Package vsync replaces "sync" inside the library under test (through a
// build overlay generated at check time). Outside exploration every type
// delegates to the real primitive, except Pool, which is always a
// deterministic LIFO free list so that runs are reproducible.
//
// Under exploration (Hooks.Active) exactly one goroutine runs at a time;
// every operation is a scheduling point and a happens-before edge, and a
// goroutine that cannot proceed waits inside the scheduler, which makes
// deadlock visible.
package vsync

import (
	"reflect"
	"sync"
	"sync/atomic"
	"unsafe"
)

// Hooks is filled in by the harness.
type HookTable struct {
	Active bool
	// Point is called before every synchronisation operation.
	Point func(op string, addr unsafe.Pointer)
	// Block parks the calling goroutine until ready() is true.
	Block func(ready func() bool, what string)
	// Acquire / Release record happens-before edges on addr.
	Acquire func(addr unsafe.Pointer)
	Release func(addr unsafe.Pointer)
	// PoolGet chooses the answer of a Pool.Get with n pooled objects:
	// 0 = most recently Put object, 1 = a fresh New(), k>=2 = the k-th most recent.
	PoolGet func(n int) int
}

var Hooks HookTable

type Mutex struct {
	real   sync.Mutex
	locked bool
}

func (m *Mutex) Lock() {
	if !Hooks.Active {
		m.real.Lock()
		return
	}
	Hooks.Point("Lock", unsafe.Pointer(m))
	for m.locked {
		Hooks.Block(func() bool { return !m.locked }, "Mutex.Lock")
	}
	m.locked = true
	Hooks.Acquire(unsafe.Pointer(m))
}

func (m *Mutex) Unlock() {
	if !Hooks.Active {
		m.real.Unlock()
		return
	}
	Hooks.Point("Unlock", unsafe.Pointer(m))
	if !m.locked {
		panic("vsync: unlock of unlocked Mutex")
	}
	Hooks.Release(unsafe.Pointer(m))
	m.locked = false
}

type RWMutex struct {
	real    sync.RWMutex
	writer  bool
	readers int
}

func (m *RWMutex) Lock() {
	if !Hooks.Active {
		m.real.Lock()
		return
	}
	Hooks.Point("Lock", unsafe.Pointer(m))
	for m.writer || m.readers > 0 {
		Hooks.Block(func() bool { return !m.writer && m.readers == 0 }, "RWMutex.Lock")
	}
	m.writer = true
	Hooks.Acquire(unsafe.Pointer(m))
}

func (m *RWMutex) Unlock() {
	if !Hooks.Active {
		m.real.Unlock()
		return
	}
	Hooks.Point("Unlock", unsafe.Pointer(m))
	if !m.writer {
		panic("vsync: Unlock of RWMutex not locked for writing")
	}
	Hooks.Release(unsafe.Pointer(m))
	m.writer = false
}

func (m *RWMutex) RLock() {
	if !Hooks.Active {
		m.real.RLock()
		return
	}
	Hooks.Point("RLock", unsafe.Pointer(m))
	for m.writer {
		Hooks.Block(func() bool { return !m.writer }, "RWMutex.RLock")
	}
	m.readers++
	Hooks.Acquire(unsafe.Pointer(m))
}

func (m *RWMutex) RUnlock() {
	if !Hooks.Active {
		m.real.RUnlock()
		return
	}
	Hooks.Point("RUnlock", unsafe.Pointer(m))
	if m.readers <= 0 {
		panic("vsync: RUnlock of RWMutex not locked for reading")
	}
	// a reader's critical section happens before a later writer
	Hooks.Release(unsafe.Pointer(m))
	m.readers--
}

type Once struct {
	real    sync.Once
	done    bool
	running bool
}

func (o *Once) Do(f func()) {
	if !Hooks.Active {
		o.real.Do(func() {
			f()
			o.done = true
		})
		return
	}
	Hooks.Point("Once.Do", unsafe.Pointer(o))
	if o.done {
		Hooks.Acquire(unsafe.Pointer(o))
		return
	}
	for o.running {
		Hooks.Block(func() bool { return !o.running }, "Once.Do")
	}
	if o.done {
		Hooks.Acquire(unsafe.Pointer(o))
		return
	}
	o.running = true
	defer func() {
		o.running = false
		o.done = true
		Hooks.Release(unsafe.Pointer(o))
		// keep the real Once consistent for later free-running use
		o.real.Do(func() {})
	}()
	f()
}

// Pool is a deterministic LIFO free list. It is never emptied by the
// garbage collector.
type Pool struct {
	New func() interface{}

	mu    sync.Mutex
	items []interface{}
	reg   bool
}

var (
	poolsMu sync.Mutex
	pools   []*Pool
)

func (p *Pool) register() {
	if p.reg {
		return
	}
	p.reg = true
	poolsMu.Lock()
	pools = append(pools, p)
	poolsMu.Unlock()
}

func (p *Pool) Get() interface{} {
	if Hooks.Active {
		Hooks.Point("Pool.Get", unsafe.Pointer(p))
	}
	p.mu.Lock()
	p.register()
	n := len(p.items)
	ans := 0
	if Hooks.PoolGet != nil {
		ans = Hooks.PoolGet(n)
	}
	var v interface{}
	switch {
	case n == 0 || ans == 1:
		p.mu.Unlock()
		if Hooks.Active {
			Hooks.Acquire(unsafe.Pointer(p))
		}
		if p.New == nil {
			return nil
		}
		return p.New()
	case ans == 0:
		v = p.items[n-1]
		p.items = p.items[:n-1]
	default:
		k := n - ans // ans=2 -> second most recent
		if k < 0 {
			k = 0
		}
		v = p.items[k]
		p.items = append(p.items[:k], p.items[k+1:]...)
	}
	p.mu.Unlock()
	if Hooks.Active {
		Hooks.Acquire(unsafe.Pointer(p))
	}
	return v
}

func (p *Pool) Put(v interface{}) {
	if v == nil {
		return
	}
	if Hooks.Active {
		Hooks.Point("Pool.Put", unsafe.Pointer(p))
		Hooks.Release(unsafe.Pointer(p))
	}
	p.mu.Lock()
	p.register()
	if isPointerLike(v) {
		for _, it := range p.items {
			if it == v {
				// the same object is in the pool twice: two later Gets hand it to two users
				atomic.AddInt64(&doublePuts, 1)
				break
			}
		}
	}
	p.items = append(p.items, v)
	p.mu.Unlock()
}

var doublePuts int64

// DoublePuts: how often an object was put into a pool that already held it (since the last ResetPools).
func DoublePuts() int { return int(atomic.LoadInt64(&doublePuts)) }

func isPointerLike(v interface{}) bool {
	switch reflect.ValueOf(v).Kind() {
	case reflect.Ptr, reflect.UnsafePointer, reflect.Map, reflect.Chan, reflect.Func:
		return reflect.TypeOf(v).Comparable()
	}
	return false
}

// ResetPools empties every pool seen so far.
func ResetPools() {
	atomic.StoreInt64(&doublePuts, 0)
	poolsMu.Lock()
	for _, p := range pools {
		p.mu.Lock()
		p.items = nil
		p.mu.Unlock()
	}
	poolsMu.Unlock()
}

// PoolContents returns, per pool (in registration order), its objects from
// oldest to most recent.
func PoolContents() [][]interface{} {
	poolsMu.Lock()
	defer poolsMu.Unlock()
	out := make([][]interface{}, len(pools))
	for i, p := range pools {
		p.mu.Lock()
		out[i] = append([]interface{}(nil), p.items...)
		p.mu.Unlock()
	}
	return out
}

// ---------------------------------------------------------------------------
// The rest of package sync's API, so that any change to the library that
// starts using another primitive still builds under the shim. Same rule:
// outside exploration delegate to the real primitive; under exploration every
// operation is a scheduling point and a happens-before edge.

type Locker = sync.Locker

func (m *Mutex) TryLock() bool {
	if !Hooks.Active {
		return m.real.TryLock()
	}
	Hooks.Point("TryLock", unsafe.Pointer(m))
	if m.locked {
		return false
	}
	m.locked = true
	Hooks.Acquire(unsafe.Pointer(m))
	return true
}

func (m *RWMutex) TryLock() bool {
	if !Hooks.Active {
		return m.real.TryLock()
	}
	Hooks.Point("TryLock", unsafe.Pointer(m))
	if m.writer || m.readers > 0 {
		return false
	}
	m.writer = true
	Hooks.Acquire(unsafe.Pointer(m))
	return true
}

func (m *RWMutex) TryRLock() bool {
	if !Hooks.Active {
		return m.real.TryRLock()
	}
	Hooks.Point("TryRLock", unsafe.Pointer(m))
	if m.writer {
		return false
	}
	m.readers++
	Hooks.Acquire(unsafe.Pointer(m))
	return true
}

type rlocker RWMutex

func (r *rlocker) Lock()   { (*RWMutex)(r).RLock() }
func (r *rlocker) Unlock() { (*RWMutex)(r).RUnlock() }

func (m *RWMutex) RLocker() Locker { return (*rlocker)(m) }

// WaitGroup.
type WaitGroup struct {
	real sync.WaitGroup
	n    int
}

func (w *WaitGroup) Add(delta int) {
	if !Hooks.Active {
		w.real.Add(delta)
		return
	}
	Hooks.Point("WaitGroup.Add", unsafe.Pointer(w))
	Hooks.Release(unsafe.Pointer(w))
	w.n += delta
	if w.n < 0 {
		panic("vsync: negative WaitGroup counter")
	}
}

func (w *WaitGroup) Done() { w.Add(-1) }

func (w *WaitGroup) Wait() {
	if !Hooks.Active {
		w.real.Wait()
		return
	}
	Hooks.Point("WaitGroup.Wait", unsafe.Pointer(w))
	for w.n > 0 {
		Hooks.Block(func() bool { return w.n == 0 }, "WaitGroup.Wait")
	}
	Hooks.Acquire(unsafe.Pointer(w))
}

// Cond.
type Cond struct {
	L       Locker
	real    *sync.Cond
	waiters []*bool
}

func NewCond(l Locker) *Cond { return &Cond{L: l, real: sync.NewCond(l)} }

func (c *Cond) Wait() {
	if !Hooks.Active {
		c.real.Wait()
		return
	}
	woken := new(bool)
	c.waiters = append(c.waiters, woken)
	c.L.Unlock()
	for !*woken {
		Hooks.Block(func() bool { return *woken }, "Cond.Wait")
	}
	Hooks.Acquire(unsafe.Pointer(c))
	c.L.Lock()
}

func (c *Cond) Signal() {
	if !Hooks.Active {
		c.real.Signal()
		return
	}
	Hooks.Point("Cond.Signal", unsafe.Pointer(c))
	Hooks.Release(unsafe.Pointer(c))
	if len(c.waiters) > 0 {
		*c.waiters[0] = true
		c.waiters = c.waiters[1:]
	}
}

func (c *Cond) Broadcast() {
	if !Hooks.Active {
		c.real.Broadcast()
		return
	}
	Hooks.Point("Cond.Broadcast", unsafe.Pointer(c))
	Hooks.Release(unsafe.Pointer(c))
	for _, w := range c.waiters {
		*w = true
	}
	c.waiters = nil
}

// Map: a mutex-protected map; every operation is one atomic step.
type Map struct {
	mu   sync.Mutex
	m    map[interface{}]interface{}
	keys []interface{} // insertion order, so that Range is deterministic
}

func (m *Map) step(op string) func() {
	if Hooks.Active {
		Hooks.Point("Map."+op, unsafe.Pointer(m))
		Hooks.Acquire(unsafe.Pointer(m))
		return func() { Hooks.Release(unsafe.Pointer(m)) }
	}
	m.mu.Lock()
	return m.mu.Unlock
}

func (m *Map) Load(key interface{}) (value interface{}, ok bool) {
	defer m.step("Load")()
	value, ok = m.m[key]
	return
}

func (m *Map) store(key, value interface{}) {
	if m.m == nil {
		m.m = map[interface{}]interface{}{}
	}
	if _, ok := m.m[key]; !ok {
		m.keys = append(m.keys, key)
	}
	m.m[key] = value
}

func (m *Map) del(key interface{}) {
	if _, ok := m.m[key]; ok {
		delete(m.m, key)
		for i, k := range m.keys {
			if k == key {
				m.keys = append(m.keys[:i:i], m.keys[i+1:]...)
				break
			}
		}
	}
}

func (m *Map) Store(key, value interface{}) {
	defer m.step("Store")()
	m.store(key, value)
}

func (m *Map) LoadOrStore(key, value interface{}) (actual interface{}, loaded bool) {
	defer m.step("LoadOrStore")()
	if v, ok := m.m[key]; ok {
		return v, true
	}
	m.store(key, value)
	return value, false
}

func (m *Map) LoadAndDelete(key interface{}) (value interface{}, loaded bool) {
	defer m.step("LoadAndDelete")()
	value, loaded = m.m[key]
	m.del(key)
	return
}

func (m *Map) Delete(key interface{}) {
	defer m.step("Delete")()
	m.del(key)
}

func (m *Map) Swap(key, value interface{}) (previous interface{}, loaded bool) {
	defer m.step("Swap")()
	previous, loaded = m.m[key]
	m.store(key, value)
	return
}

func (m *Map) CompareAndSwap(key, old, new interface{}) bool {
	defer m.step("CompareAndSwap")()
	if v, ok := m.m[key]; ok && v == old {
		m.store(key, new)
		return true
	}
	return false
}

func (m *Map) CompareAndDelete(key, old interface{}) bool {
	defer m.step("CompareAndDelete")()
	if v, ok := m.m[key]; ok && v == old {
		m.del(key)
		return true
	}
	return false
}

func (m *Map) Range(f func(key, value interface{}) bool) {
	end := m.step("Range")
	keys := append([]interface{}(nil), m.keys...)
	vals := make([]interface{}, len(keys))
	for i, k := range keys {
		vals[i] = m.m[k]
	}
	end()
	for i, k := range keys {
		if !f(k, vals[i]) {
			break
		}
	}
}

func (m *Map) Clear() {
	defer m.step("Clear")()
	m.m = nil
	m.keys = nil
}

func OnceFunc(f func()) func() {
	var once Once
	return func() { once.Do(f) }
}

func OnceValue[T any](f func() T) func() T {
	var once Once
	var v T
	return func() T {
		once.Do(func() { v = f() })
		return v
	}
}

func OnceValues[T1, T2 any](f func() (T1, T2)) func() (T1, T2) {
	var once Once
	var v1 T1
	var v2 T2
	return func() (T1, T2) {
		once.Do(func() { v1, v2 = f() })
		return v1, v2
	}
}
