// Package vsync replaces "sync" inside the library under test (through a
// build overlay generated at check time). Outside exploration every type
// delegates to the real primitive, except Pool, which is always a
// deterministic LIFO free list so that runs are reproducible.
//
// Under exploration (Hooks.Active) exactly one goroutine runs at a time;
// every operation is a scheduling point and a happens-before edge, and a
// goroutine that cannot proceed waits inside the scheduler, which makes
// deadlock visible.
package vsync

import (
	"sync"
	"unsafe"
)

// Hooks is filled in by the harness.
type HookTable struct {
	Active bool
	// Point is called before every synchronisation operation.
	Point func(op string, addr unsafe.Pointer)
	// Block parks the calling goroutine until ready() is true.
	Block func(ready func() bool, what string)
	// Acquire / Release record happens-before edges on addr.
	Acquire func(addr unsafe.Pointer)
	Release func(addr unsafe.Pointer)
	// PoolGet chooses the answer of a Pool.Get with n pooled objects:
	// 0 = most recently Put object, 1 = a fresh New(), k>=2 = the k-th most recent.
	PoolGet func(n int) int
}

var Hooks HookTable

type Mutex struct {
	real   sync.Mutex
	locked bool
}

func (m *Mutex) Lock() {
	if !Hooks.Active {
		m.real.Lock()
		return
	}
	Hooks.Point("Lock", unsafe.Pointer(m))
	for m.locked {
		Hooks.Block(func() bool { return !m.locked }, "Mutex.Lock")
	}
	m.locked = true
	Hooks.Acquire(unsafe.Pointer(m))
}

func (m *Mutex) Unlock() {
	if !Hooks.Active {
		m.real.Unlock()
		return
	}
	Hooks.Point("Unlock", unsafe.Pointer(m))
	if !m.locked {
		panic("vsync: unlock of unlocked Mutex")
	}
	Hooks.Release(unsafe.Pointer(m))
	m.locked = false
}

type RWMutex struct {
	real    sync.RWMutex
	writer  bool
	readers int
}

func (m *RWMutex) Lock() {
	if !Hooks.Active {
		m.real.Lock()
		return
	}
	Hooks.Point("Lock", unsafe.Pointer(m))
	for m.writer || m.readers > 0 {
		Hooks.Block(func() bool { return !m.writer && m.readers == 0 }, "RWMutex.Lock")
	}
	m.writer = true
	Hooks.Acquire(unsafe.Pointer(m))
}

func (m *RWMutex) Unlock() {
	if !Hooks.Active {
		m.real.Unlock()
		return
	}
	Hooks.Point("Unlock", unsafe.Pointer(m))
	if !m.writer {
		panic("vsync: Unlock of RWMutex not locked for writing")
	}
	Hooks.Release(unsafe.Pointer(m))
	m.writer = false
}

func (m *RWMutex) RLock() {
	if !Hooks.Active {
		m.real.RLock()
		return
	}
	Hooks.Point("RLock", unsafe.Pointer(m))
	for m.writer {
		Hooks.Block(func() bool { return !m.writer }, "RWMutex.RLock")
	}
	m.readers++
	Hooks.Acquire(unsafe.Pointer(m))
}

func (m *RWMutex) RUnlock() {
	if !Hooks.Active {
		m.real.RUnlock()
		return
	}
	Hooks.Point("RUnlock", unsafe.Pointer(m))
	if m.readers <= 0 {
		panic("vsync: RUnlock of RWMutex not locked for reading")
	}
	// a reader's critical section happens before a later writer
	Hooks.Release(unsafe.Pointer(m))
	m.readers--
}

type Once struct {
	real    sync.Once
	done    bool
	running bool
}

func (o *Once) Do(f func()) {
	if !Hooks.Active {
		o.real.Do(func() {
			f()
			o.done = true
		})
		return
	}
	Hooks.Point("Once.Do", unsafe.Pointer(o))
	if o.done {
		Hooks.Acquire(unsafe.Pointer(o))
		return
	}
	for o.running {
		Hooks.Block(func() bool { return !o.running }, "Once.Do")
	}
	if o.done {
		Hooks.Acquire(unsafe.Pointer(o))
		return
	}
	o.running = true
	defer func() {
		o.running = false
		o.done = true
		Hooks.Release(unsafe.Pointer(o))
		// keep the real Once consistent for later free-running use
		o.real.Do(func() {})
	}()
	f()
}

// Pool is a deterministic LIFO free list. It is never emptied by the
// garbage collector.
type Pool struct {
	New func() interface{}

	mu    sync.Mutex
	items []interface{}
	reg   bool
}

var (
	poolsMu sync.Mutex
	pools   []*Pool
)

func (p *Pool) register() {
	if p.reg {
		return
	}
	p.reg = true
	poolsMu.Lock()
	pools = append(pools, p)
	poolsMu.Unlock()
}

func (p *Pool) Get() interface{} {
	if Hooks.Active {
		Hooks.Point("Pool.Get", unsafe.Pointer(p))
	}
	p.mu.Lock()
	p.register()
	n := len(p.items)
	ans := 0
	if Hooks.PoolGet != nil {
		ans = Hooks.PoolGet(n)
	}
	var v interface{}
	switch {
	case n == 0 || ans == 1:
		p.mu.Unlock()
		if Hooks.Active {
			Hooks.Acquire(unsafe.Pointer(p))
		}
		if p.New == nil {
			return nil
		}
		return p.New()
	case ans == 0:
		v = p.items[n-1]
		p.items = p.items[:n-1]
	default:
		k := n - ans // ans=2 -> second most recent
		if k < 0 {
			k = 0
		}
		v = p.items[k]
		p.items = append(p.items[:k], p.items[k+1:]...)
	}
	p.mu.Unlock()
	if Hooks.Active {
		Hooks.Acquire(unsafe.Pointer(p))
	}
	return v
}

func (p *Pool) Put(v interface{}) {
	if v == nil {
		return
	}
	if Hooks.Active {
		Hooks.Point("Pool.Put", unsafe.Pointer(p))
		Hooks.Release(unsafe.Pointer(p))
	}
	p.mu.Lock()
	p.register()
	p.items = append(p.items, v)
	p.mu.Unlock()
}

// ResetPools empties every pool seen so far.
func ResetPools() {
	poolsMu.Lock()
	for _, p := range pools {
		p.mu.Lock()
		p.items = nil
		p.mu.Unlock()
	}
	poolsMu.Unlock()
}

// PoolContents returns, per pool (in registration order), its objects from
// oldest to most recent.
func PoolContents() [][]interface{} {
	poolsMu.Lock()
	defer poolsMu.Unlock()
	out := make([][]interface{}, len(pools))
	for i, p := range pools {
		p.mu.Lock()
		out[i] = append([]interface{}(nil), p.items...)
		p.mu.Unlock()
	}
	return out
}
