//go:build verif && vshim
// +build verif,vshim

package json

import (
	"fmt"
	"strings"
	"unsafe"

	"github.com/goccy/go-json/internal/vsync"
)

// Harness access to the sync shim (present only through the build overlay).

type VerifShimHooks struct {
	Active  bool
	Point   func(op string, addr unsafe.Pointer)
	Block   func(ready func() bool, what string)
	Acquire func(addr unsafe.Pointer)
	Release func(addr unsafe.Pointer)
	PoolGet func(n int) int
}

func VerifShimSet(h VerifShimHooks) {
	vsync.Hooks = vsync.HookTable{Active: h.Active, Point: h.Point, Block: h.Block, Acquire: h.Acquire, Release: h.Release, PoolGet: h.PoolGet}
}

func VerifResetPools() { vsync.ResetPools() }

// VerifPoolDoublePuts: how often an object was put into a pool that already held it since the last reset.
func VerifPoolDoublePuts() int { return vsync.DoublePuts() }

// VerifDumpPools describes every pooled object in a canonical form.
func VerifDumpPools() string {
	var sb strings.Builder
	for i, items := range vsync.PoolContents() {
		fmt.Fprintf(&sb, "pool%d[", i)
		for j, it := range items {
			if j > 0 {
				sb.WriteByte(' ')
			}
			sb.WriteString(VerifDescribe(it))
		}
		sb.WriteString("] ")
	}
	return sb.String()
}
