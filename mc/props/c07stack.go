package props

import (
	"fmt"
	"strings"

	json "github.com/goccy/go-json"

	"verif/mc/props/util"
	"verif/mc/work"
)

// c07.stack — destinations that live on a goroutine STACK, which the runtime moves when it grows.
//
// UnmarshalNoEscape keeps its destination from escaping, so `var v [3]interface{}` in the caller's frame really is
// stack memory. Decoding a deeply nested element makes the decoder recurse, the stack is copied to a larger one and
// every pointer into it is adjusted — an address kept as an integer is not. The document's later elements (and the
// zeroing of a short array's tail) must still land in the destination. Each case runs in a fresh goroutine (small
// initial stack), for nesting depths from 1 to 20000, with the deep element first, in the middle and last.

func init() {
	work.Register("C07", "c07.stack", c07Stack)
}

type c07Rec struct {
	V    int     `json:"v"`
	Next *c07Rec `json:"next"`
}

func c07Stack(c *work.Ctx) {
	depths := []int{1, 50, 400, 3000, 20000}
	deepArr := func(d int) string { return strings.Repeat("[", d) + "1" + strings.Repeat("]", d) }
	deepRec := func(d int) string {
		return strings.Repeat(`{"v":1,"next":`, d) + "null" + strings.Repeat("}", d)
	}
	type cse struct {
		name string
		run  func(d, pos int) (got, want string)
	}
	// pos: where the deep element sits (0 first, 1 middle, 2 last)
	elems := func(pos int, deep string, others ...string) string {
		var parts []string
		k := 0
		for i := 0; i < 3; i++ {
			if i == pos {
				parts = append(parts, deep)
			} else {
				parts = append(parts, others[k])
				k++
			}
		}
		return "[" + strings.Join(parts, ",") + "]"
	}
	render := func(x interface{}) string {
		s := fmt.Sprint(x)
		if len(s) > 40 {
			s = fmt.Sprintf("%s...(%d)", s[:20], len(s))
		}
		return s
	}
	cases := []cse{
		{"[3]interface{} on the stack", func(d, pos int) (string, string) {
			doc := []byte(elems(pos, deepArr(d), `"tail"`, `42`))
			var v [3]interface{}
			v[0], v[1], v[2] = "old0", "old1", "old2"
			err := json.UnmarshalNoEscape(doc, &v)
			var out []string
			for i := 0; i < 3; i++ {
				if i != pos {
					out = append(out, render(v[i]))
				}
			}
			return fmt.Sprintf("%v err=%v", out, err != nil), "[tail 42] err=false"
		}},
		{"struct{A int; B [3]interface{}; C string} on the stack", func(d, pos int) (string, string) {
			doc := []byte(`{"A":7,"B":` + elems(pos, deepArr(d), `"tail"`, `42`) + `,"C":"end"}`)
			var v struct {
				A int
				B [3]interface{}
				C string
			}
			err := json.UnmarshalNoEscape(doc, &v)
			var out []string
			for i := 0; i < 3; i++ {
				if i != pos {
					out = append(out, render(v.B[i]))
				}
			}
			return fmt.Sprintf("%d %v %s err=%v", v.A, out, v.C, err != nil), "7 [tail 42] end err=false"
		}},
		{"[3]*Rec on the stack, a short document (the tail is cleared)", func(d, pos int) (string, string) {
			doc := []byte(`[` + deepRec(d) + `]`)
			var v [3]*c07Rec
			v[1], v[2] = &c07Rec{V: 5}, &c07Rec{V: 6}
			err := json.UnmarshalNoEscape(doc, &v)
			return fmt.Sprintf("%v %v %v err=%v", v[0] != nil && v[0].V == 1, v[1] == nil, v[2] == nil, err != nil), "true true true err=false"
		}},
		{"[2]struct{V int; I interface{}} on the stack", func(d, pos int) (string, string) {
			doc := []byte(`[{"V":1,"I":` + deepArr(d) + `},{"V":42,"I":"tail"}]`)
			var v [2]struct {
				V int
				I interface{}
			}
			err := json.UnmarshalNoEscape(doc, &v)
			return fmt.Sprintf("%d %d %s err=%v", v[0].V, v[1].V, render(v[1].I), err != nil), "1 42 tail err=false"
		}},
		{"[]interface{} header and a following int on the stack", func(d, pos int) (string, string) {
			doc := []byte(`{"S":` + elems(pos, deepArr(d), `"tail"`, `42`) + `,"N":9}`)
			var v struct {
				S []interface{}
				N int
			}
			err := json.UnmarshalNoEscape(doc, &v)
			return fmt.Sprintf("%d %d err=%v", len(v.S), v.N, err != nil), "3 9 err=false"
		}},
	}
	for _, cs := range cases {
		for _, d := range depths {
			for pos := 0; pos < 3; pos++ {
				id := fmt.Sprintf("%s, nesting %d, deep element at %d", cs.name, d, pos)
				if !c.BeginS(id) {
					continue
				}
				type res struct {
					got, want, pmsg string
					p               bool
				}
				ch := make(chan res, 1)
				go func() { // a fresh goroutine: a small stack that has to grow
					var r res
					r.p, r.pmsg = util.Safe(func() { r.got, r.want = cs.run(d, pos) })
					ch <- r
				}()
				r := <-ch
				c.Count("stack_decodes", 1)
				c.Outcome(r.got)
				db := "nesting <= 400"
				if d > 400 {
					db = "nesting > 400"
				}
				switch {
				case r.p:
					c.Violation(fmt.Sprintf("stack destination : %s : panic : %s", cs.name, db), id, r.pmsg)
				case d <= 9000 && r.got != r.want:
					c.Violation(fmt.Sprintf("stack destination : %s : the document did not arrive in the destination : %s", cs.name, db), id, fmt.Sprintf("got %s, want %s", r.got, r.want))
				}
				c.EndCase()
			}
		}
	}
}
