package props

import (
	"bytes"
	stdjson "encoding/json"
	"fmt"
	"io"
	"reflect"
	"strconv"
	"strings"
	"unicode/utf8"

	json "github.com/goccy/go-json"

	"verif/mc/oracle"
	"verif/mc/props/util"
	"verif/mc/work"
)

// C17 — string escaping and unescaping are faithful for every byte sequence.

func init() {
	work.Register("C17", "c17.encode", c17Encode)
	work.Register("C17", "c17.decode", c17Decode)
	work.Register("C17", "c17.utf8", c17EncodeUTF8)
	work.Register("C03", "c03.utf8", c03EncodeUTF8)
}

func c17ByteClass(b byte) string {
	switch {
	case b == 0:
		return "NUL"
	case b < 0x20:
		return "CTL"
	case b == '"':
		return "QUOTE"
	case b == '\\':
		return "BSL"
	case b == '<' || b == '>' || b == '&':
		return "HTML"
	case b == 0x7f:
		return "DEL"
	case b < 0x80:
		return "a"
	case b < 0xC0:
		return "CONT"
	case b < 0xC2:
		return "C0C1"
	case b < 0xE0:
		return "L2"
	case b == 0xE2:
		return "E2"
	case b == 0xED:
		return "ED"
	case b < 0xF0:
		return "L3"
	case b < 0xF5:
		return "L4"
	}
	return "F5FF"
}

func c17Classes(s []byte) string {
	var out []string
	for i, b := range s {
		k := c17ByteClass(b)
		// the line/paragraph separators are a class of their own
		if b == 0xE2 && i+2 < len(s) && s[i+1] == 0x80 && (s[i+2] == 0xA8 || s[i+2] == 0xA9) {
			k = "E2(LS)"
		}
		if len(out) > 0 && out[len(out)-1] == k && k == "a" {
			continue
		}
		out = append(out, k)
	}
	return strings.Join(out, " ")
}

type c17Flags struct {
	name      string
	html, nrm bool
	opts      []json.EncodeOptionFunc
}

var c17FlagSets = []c17Flags{
	{"html+normalize", true, true, nil},
	{"normalize", false, true, []json.EncodeOptionFunc{json.DisableHTMLEscape()}},
	{"html", true, false, []json.EncodeOptionFunc{json.DisableNormalizeUTF8()}},
	{"none", false, false, []json.EncodeOptionFunc{json.DisableHTMLEscape(), json.DisableNormalizeUTF8()}},
	// options that have nothing to do with string spelling leave it alone
	{"html+normalize, DebugDOT option", true, true, []json.EncodeOptionFunc{json.DebugDOT(nopWriteCloser{})}},
	{"html+normalize, Debug+DebugDOT+UnorderedMap options", true, true, []json.EncodeOptionFunc{json.DebugWith(io.Discard), json.DebugDOT(nopWriteCloser{}), json.UnorderedMap()}},
	{"normalize, UnorderedMap option last", false, true, []json.EncodeOptionFunc{json.DisableHTMLEscape(), json.UnorderedMap()}},
}

type nopWriteCloser struct{}

func (nopWriteCloser) Write(p []byte) (int, error) { return len(p), nil }
func (nopWriteCloser) Close() error                { return nil }

// c17CheckLiteral checks one emitted string literal against the input string.
func c17CheckLiteral(litb []byte, in string, fl *c17Flags) string {
	if len(litb) < 2 || litb[0] != '"' || litb[len(litb)-1] != '"' {
		return "not-a-string-literal"
	}
	for _, b := range litb[1 : len(litb)-1] {
		if b < 0x20 {
			return "raw-control-character"
		}
	}
	if fl.html && bytes.ContainsAny(litb, "<>&") {
		return "raw-html-character"
	}
	if fl.nrm && (bytes.Contains(litb, []byte("\u2028")) || bytes.Contains(litb, []byte("\u2029"))) {
		return "raw-line-separator"
	}
	if fl.nrm && !utf8.Valid(litb) {
		return "invalid-utf8-output"
	}
	var back string
	if err := stdjson.Unmarshal(litb, &back); err != nil {
		return "literal-rejected-by-conforming-parser"
	}
	if back != strings.ToValidUTF8(in, "\uFFFD") && back != toValidPerByte(in) {
		return "decodes-to-different-string"
	}
	return ""
}

// toValidPerByte replaces every invalid byte by U+FFFD (one per byte), which
// is what encoding/json produces.
func toValidPerByte(s string) string {
	var sb strings.Builder
	for i := 0; i < len(s); {
		r, n := utf8.DecodeRuneInString(s[i:])
		if r == utf8.RuneError && n == 1 {
			sb.WriteString("\uFFFD")
			i++
			continue
		}
		sb.WriteString(s[i : i+n])
		i += n
	}
	return sb.String()
}

func c17EncodeOne(c *work.Ctx, in []byte) {
	s := string(in)
	for i := range c17FlagSets {
		fl := &c17FlagSets[i]
		// as a value
		out, err := json.MarshalWithOption(s, fl.opts...)
		kind := ""
		if err != nil {
			kind = "error"
		} else {
			kind = c17CheckLiteral(out, s, fl)
		}
		c.Outcome("v" + fl.name + kind)
		if kind != "" {
			c.Violation(fmt.Sprintf("encode value [%s] : %s : %s", fl.name, kind, c17Classes(in)), s, fmt.Sprintf("Marshal(%q) with flags %s gives %q err=%v", s, fl.name, out, err))
		}
		// as a map key
		out, err = json.MarshalWithOption(map[string]int{s: 1}, fl.opts...)
		kind = ""
		if err != nil {
			kind = "error"
		} else if len(out) < 5 || !bytes.HasPrefix(out, []byte("{")) || !bytes.HasSuffix(out, []byte(":1}")) {
			kind = "not-an-object-with-one-member"
		} else {
			kind = c17CheckLiteral(out[1:len(out)-3], s, fl)
		}
		c.Outcome("k" + fl.name + kind)
		if kind != "" {
			c.Violation(fmt.Sprintf("encode map key [%s] : %s : %s", fl.name, kind, c17Classes(in)), s, fmt.Sprintf("Marshal(map[string]int{%q:1}) with flags %s gives %q err=%v", s, fl.name, out, err))
		}
	}
	// in a struct field next to other members, default flags, against encoding/json's bytes
	type row struct {
		A string
		S string `json:"s"`
		T string `json:",omitempty"`
	}
	v := row{"x", s, s}
	got, err := json.Marshal(v)
	want, _ := stdjson.Marshal(v)
	if err != nil || !bytes.Equal(c17Spelling(got), c17Spelling(want)) {
		c.Violation("encode struct field [html+normalize] : differs from encoding/json : "+c17Classes(in), s, fmt.Sprintf("go-json %q err=%v; encoding/json %q", got, err, want))
	}
	if c.WantSample() {
		c.Sample(fmt.Sprintf("encode %q", s))
	}
}

// c17Spelling maps the tolerated alternative spellings to one form.
func c17Spelling(b []byte) []byte {
	b = bytes.ReplaceAll(b, []byte(`\u0008`), []byte(`\b`))
	b = bytes.ReplaceAll(b, []byte(`\u000c`), []byte(`\f`))
	return b
}

var c17Interesting = [][]byte{
	{0x00}, {0x01}, {0x1f}, {'"'}, {'\\'}, {'<'}, {'>'}, {'&'}, {0x7f}, {0x80}, {0xBF}, {0xC0}, {0xC2}, {0xC3, 0xA9}, {0xE0}, {0xE1}, {0xE2}, {0xE2, 0x80}, {0xE2, 0x80, 0xA8}, {0xE2, 0x80, 0xA9}, {0xE2, 0x82, 0xAC},
	{0xED}, {0xED, 0xA0, 0x80}, {0xEF}, {0xEF, 0xBF, 0xBD}, {0xF0}, {0xF0, 0x9F, 0x98, 0x80}, {0xF0, 0x9F}, {0xF4}, {0xF4, 0x90, 0x80, 0x80}, {0xF5}, {0xFF}, {'\n'}, {'\t'}, {'/'}, {' '},
}

func c17Encode(c *work.Ctx) {
	max := 2
	if !c.Quick() {
		max = 3
	}
	// (1) every byte string up to max over all 256 byte values
	buf := make([]byte, 0, 4)
	var rec func(depth int)
	var ord int64
	rec = func(depth int) {
		if c.BeginS(string(buf)) {
			c17EncodeOne(c, buf)
			c.EndCase()
		}
		if depth == max {
			return
		}
		for b := 0; b < 256; b++ {
			buf = append(buf, byte(b))
			rec(depth + 1)
			buf = buf[:len(buf)-1]
		}
	}
	_ = ord
	rec(0)
	// (2) every interesting sequence at every offset of an ASCII filler (crosses every position of the 8-byte window)
	fill := []byte("abcdefghijklmnopqrstuvwxyz0123456789ABCDEFGHIJKLMNOP")
	for _, L := range []int{7, 8, 9, 15, 16, 17, 23, 24, 25, 40} {
		for _, seq := range c17Interesting {
			for off := 0; off <= L; off++ {
				in := append(append(append([]byte(nil), fill[:off]...), seq...), fill[off:L]...)
				if c.BeginS(string(in)) {
					c17EncodeOne(c, in)
					c.EndCase()
				}
				if c.Quick() && L > 17 {
					continue
				}
				// pairs: a second interesting sequence at every later offset
				if !c.Quick() || L <= 17 {
					for _, seq2 := range c17Interesting {
						for off2 := off; off2 <= L; off2++ {
							in2 := append(append(append(append(append([]byte(nil), fill[:off]...), seq...), fill[off:off2]...), seq2...), fill[off2:L]...)
							if c.BeginS(string(in2)) {
								c17EncodeOne(c, in2)
								c.EndCase()
							}
						}
					}
				}
			}
		}
	}
}

// c17UTF8Reps: one or two representatives of every byte class a UTF-8 decoder distinguishes (lead bytes with
// their special second-byte ranges, the borders of the continuation range, and on the ASCII side the bytes just
// below and above 0x40 — a masked comparison of two bytes at once confuses 0x00..0x3F with continuation bytes).
var c17UTF8Reps = []byte{0x00, 0x1F, '"', '/', 0x3F, 0x40, '\\', 0x7F, 0x80, 0x8F, 0x90, 0x9F, 0xA0, 0xBF, 0xC0, 0xC1, 0xC2, 0xDF,
	0xE0, 0xE1, 0xE2, 0xEC, 0xED, 0xEE, 0xEF, 0xF0, 0xF1, 0xF3, 0xF4, 0xF5, 0xFF}

// c17ForEachUTF8 enumerates the strings of c17.utf8 / c03.utf8.
func c17ForEachUTF8(quick bool, run func(b []byte)) {
	reps := c17UTF8Reps
	buf := make([]byte, 0, 16)
	for _, a := range reps {
		for _, b2 := range reps {
			for _, b3 := range reps {
				for _, b4 := range reps {
					buf = append(buf[:0], a, b2, b3, b4)
					run(buf)
					if a >= 0x80 {
						buf = append(append(buf[:0], "abcdefgh"...), a, b2, b3, b4)
						run(buf)
						if !quick {
							buf = append(buf, 'z')
							run(buf)
						}
					}
				}
			}
		}
	}
}

// c03EncodeUTF8 — the same strings under C03's oracle: whatever the flags and the entry point, a successful
// encode is one well-formed JSON text, valid UTF-8 while normalisation is on.
func c03EncodeUTF8(c *work.Ctx) {
	c17ForEachUTF8(c.Quick(), func(b []byte) {
		if !c.BeginS(string(b)) {
			return
		}
		s := string(b)
		vals := []interface{}{s, map[string]string{s: s}, struct {
			A int
			S string
		}{1, s}}
		for i := range c17FlagSets {
			fl := &c17FlagSets[i]
			for vi, v := range vals {
				for _, indent := range []bool{false, true} {
					var out []byte
					var err error
					if indent {
						out, err = json.MarshalIndentWithOption(v, "", " ", fl.opts...)
					} else {
						out, err = json.MarshalWithOption(v, fl.opts...)
					}
					if err != nil {
						continue
					}
					kind := ""
					switch {
					case !oracle.Valid(out):
						kind = "ill-formed-output"
					case fl.nrm && !utf8.Valid(out):
						kind = "invalid-utf8-output"
					}
					c.Outcome(kind)
					if kind != "" {
						c.Violation(fmt.Sprintf("string bytes [%s] : %s : position %d : %s", fl.name, kind, vi, c17Classes(b)), s, fmt.Sprintf("encode of %q (position %d, indent %v, flags %s) gives %q", s, vi, indent, fl.name, out))
					}
				}
			}
		}
		c.EndCase()
	})
}

// c17EncodeUTF8 — every string of FOUR class representatives (the longest UTF-8 sequence), alone and behind one
// full 8-byte chunk of plain bytes; thorough: also followed by a plain byte and five representatives behind a lead byte.
func c17EncodeUTF8(c *work.Ctx) {
	c17ForEachUTF8(c.Quick(), func(b []byte) {
		if c.BeginS(string(b)) {
			c17EncodeOne(c, b)
			c.EndCase()
		}
	})
}

// ---- decode ---------------------------------------------------------------------

var c17Atoms = []string{"a", "\u00e9", "\U0001F600", `\"`, `\\`, `\/`, `\b`, `\f`, `\n`, `\r`, `\t`, `\u0041`, `\u0000`, `\u00e9`, `\u00E9`, `\uD83D`, `\uDE00`, `\uFFFF`,
	// code points above U+00FF whose LOW byte is the letter a field name has (a = 0x61)
	`\u0161`, `\ud800\udc61`}
var c17AtomNames = []string{"a", "é", "😀", `\"`, `\\`, `\/`, `\b`, `\f`, `\n`, `\r`, `\t`, "uASCII", "uNUL", "ulower", "uUPPER", "uHI", "uLO", "uFFFF", "u0161", "pair10061"}

type c17TU struct{ S string }

func (t *c17TU) UnmarshalText(b []byte) error { t.S = string(b); return nil }

type c17DecPos struct {
	name string
	run  func(lit string, stream bool, std bool) (string, error)
}

func c17Dec(std, stream bool, doc []byte, dst interface{}) error {
	switch {
	case std && !stream:
		return stdjson.Unmarshal(doc, dst)
	case std && stream:
		return stdjson.NewDecoder(bytes.NewReader(doc)).Decode(dst)
	case !stream:
		return json.Unmarshal(doc, dst)
	}
	return json.NewDecoder(bytes.NewReader(doc)).Decode(dst)
}

var c17DecPositions = []c17DecPos{
	{"string value", func(lit string, stream, std bool) (string, error) {
		var s string
		err := c17Dec(std, stream, []byte(lit), &s)
		return s, err
	}},
	{"interface value", func(lit string, stream, std bool) (string, error) {
		var v interface{}
		err := c17Dec(std, stream, []byte(lit), &v)
		s, _ := v.(string)
		return s, err
	}},
	{"array element", func(lit string, stream, std bool) (string, error) {
		var v []string
		err := c17Dec(std, stream, []byte(`["x",`+lit+`]`), &v)
		if len(v) == 2 {
			return v[1], err
		}
		return "", err
	}},
	{"struct field value", func(lit string, stream, std bool) (string, error) {
		var v struct {
			A int
			S string
		}
		err := c17Dec(std, stream, []byte(`{"A":1,"S":`+lit+`}`), &v)
		return v.S, err
	}},
	{"map key", func(lit string, stream, std bool) (string, error) {
		var v map[string]int
		err := c17Dec(std, stream, []byte(`{`+lit+`:1}`), &v)
		for k := range v {
			return k, err
		}
		return "", err
	}},
	{"interface map key", func(lit string, stream, std bool) (string, error) {
		var v interface{}
		err := c17Dec(std, stream, []byte(`{`+lit+`:1}`), &v)
		if m, ok := v.(map[string]interface{}); ok {
			for k := range m {
				return k, err
			}
		}
		return "", err
	}},
	{",string payload", func(lit string, stream, std bool) (string, error) {
		var v struct {
			S string `json:",string"`
		}
		// the payload is the literal itself, quoted once more
		q, _ := stdjson.Marshal(lit)
		err := c17Dec(std, stream, []byte(`{"S":`+string(q)+`}`), &v)
		return v.S, err
	}},
	{"TextUnmarshaler", func(lit string, stream, std bool) (string, error) {
		var v struct{ T c17TU }
		err := c17Dec(std, stream, []byte(`{"T":`+lit+`}`), &v)
		return v.T.S, err
	}},
	{"Token", func(lit string, stream, std bool) (string, error) {
		if !stream {
			return "", io.EOF
		}
		if std {
			t, err := stdjson.NewDecoder(strings.NewReader(lit)).Token()
			s, _ := t.(string)
			return s, err
		}
		t, err := json.NewDecoder(strings.NewReader(lit)).Token()
		s, _ := t.(string)
		return s, err
	}},
	{"struct key match", func(lit string, stream, std bool) (string, error) {
		// which field does the key select? fields named by short atoms' decoded forms
		var v struct {
			A  int `json:"a"`
			AA int `json:"aa"`
			E  int `json:"é"`
			Q  int `json:"A"`
		}
		err := c17Dec(std, stream, []byte(`{`+lit+`:5}`), &v)
		return fmt.Sprintf("%d%d%d%d", v.A, v.AA, v.E, v.Q), err
	}},
	{"struct key match, 9..16 names", func(lit string, stream, std bool) (string, error) {
		var v struct {
			A                              int `json:"a"`
			AA                             int `json:"aa"`
			P1, P2, P3, P4, P5, P6, P7, P8 int
		}
		err := c17Dec(std, stream, []byte(`{`+lit+`:5}`), &v)
		return fmt.Sprintf("%d%d", v.A, v.AA), err
	}},
	// all-ASCII names without case twins: the key matchers specialised for up to 8 names
	{"struct key match, up to 8 plain names", func(lit string, stream, std bool) (string, error) {
		var v struct {
			A  int `json:"a"`
			AA int `json:"aa"`
			B  int `json:"b"`
		}
		err := c17Dec(std, stream, []byte(`{`+lit+`:5}`), &v)
		return fmt.Sprintf("%d%d%d", v.A, v.AA, v.B), err
	}},
	{"struct key match, more than 16 names", func(lit string, stream, std bool) (string, error) {
		var v struct {
			A                                                                int `json:"a"`
			AA                                                               int `json:"aa"`
			P1, P2, P3, P4, P5, P6, P7, P8, P9, P10, P11, P12, P13, P14, P15 int
		}
		err := c17Dec(std, stream, []byte(`{`+lit+`:5}`), &v)
		return fmt.Sprintf("%d%d", v.A, v.AA), err
	}},
}

func c17Decode(c *work.Ctx) {
	max := 4
	if !c.Quick() {
		max = 5
	}
	n := len(c17Atoms)
	idx := make([]int, max)
	for l := 0; l <= max; l++ {
		for i := range idx[:l] {
			idx[i] = 0
		}
		for {
			var sb, nm strings.Builder
			sb.WriteByte('"')
			for _, k := range idx[:l] {
				sb.WriteString(c17Atoms[k])
				nm.WriteString(c17AtomNames[k] + " ")
			}
			sb.WriteByte('"')
			lit := sb.String()
			if c.BeginS(lit) {
				for pi := range c17DecPositions {
					pos := &c17DecPositions[pi]
					for mode := 0; mode < 2; mode++ {
						stream := mode == 1
						want, werr := pos.run(lit, stream, true)
						if werr == io.EOF && pos.name == "Token" && !stream {
							continue
						}
						var got string
						var gerr error
						if p, msg := util.Safe(func() { got, gerr = pos.run(lit, stream, false) }); p {
							c.Violation(fmt.Sprintf("decode %s : panic : %s", pos.name, strings.TrimSpace(nm.String())), lit, msg)
							continue
						}
						kind := ""
						switch {
						case (werr == nil) != (gerr == nil):
							kind = "verdict-differs"
						case werr == nil && got != want:
							kind = "string-differs"
						}
						c.Outcome(pos.name + kind)
						if kind != "" {
							m := "Unmarshal"
							if stream {
								m = "Decoder"
							}
							c.Violation(fmt.Sprintf("decode %s %s : %s : %s", pos.name, m, kind, strings.TrimSpace(nm.String())), lit,
								fmt.Sprintf("literal %s as %s via %s: go-json %q err=%v; encoding/json %q err=%v", lit, pos.name, m, got, gerr, want, werr))
						}
					}
				}
				if c.WantSample() {
					c.Sample("decode " + lit)
				}
				c.EndCase()
			}
			k := l - 1
			for k >= 0 {
				idx[k]++
				if idx[k] < n {
					break
				}
				idx[k] = 0
				k--
			}
			if k < 0 {
				break
			}
		}
	}
}

// ---- member names ---------------------------------------------------------------------------------------
//
// c17.keys: the NAME of a struct member is a string literal of the output as well, written from a key text that
// is compiled once per way of reaching the struct type. Names made of every character class a tag may carry
// (HTML specials, quotes are not allowed in tags, non-ASCII, line separators) x every constructor around the
// struct (value, pointer, slice, array, map value, interface member, embedded, nested twice) x HTML escaping on /
// off x {Marshal, MarshalIndent, Encoder}: the bytes of encoding/json with the same setting (member names have no
// alternative spellings).

func init() {
	work.Register("C17", "c17.keys", c17Keys)
}

func c17Keys(c *work.Ctx) {
	names := []string{"a<b", "a>b", "a&b", "<", "&&", "a<b>c&d", "é<", "a b", " ", "plain", "a.b/c", "ü&1"}
	wrap := func(t reflect.Type) []reflect.Type {
		holder := reflect.StructOf([]reflect.StructField{{Name: "H", Type: t, Tag: `json:"h"`}, {Name: "I", Type: reflect.TypeOf((*interface{})(nil)).Elem(), Tag: `json:"i"`}})
		return []reflect.Type{t, reflect.PtrTo(t), reflect.SliceOf(t), reflect.ArrayOf(1, t), reflect.ArrayOf(2, t), reflect.MapOf(reflect.TypeOf(""), t),
			reflect.SliceOf(reflect.ArrayOf(2, t)), reflect.ArrayOf(2, reflect.PtrTo(t)), reflect.MapOf(reflect.TypeOf(""), reflect.ArrayOf(1, t)), holder, reflect.ArrayOf(1, holder)}
	}
	fill := func(v reflect.Value, t reflect.Type) {}
	var fillRec func(v reflect.Value, depth int)
	fillRec = func(v reflect.Value, depth int) {
		switch v.Kind() {
		case reflect.Ptr:
			v.Set(reflect.New(v.Type().Elem()))
			fillRec(v.Elem(), depth+1)
		case reflect.Slice:
			v.Set(reflect.MakeSlice(v.Type(), 1, 1))
			fillRec(v.Index(0), depth+1)
		case reflect.Array:
			for i := 0; i < v.Len(); i++ {
				fillRec(v.Index(i), depth+1)
			}
		case reflect.Map:
			m := reflect.MakeMap(v.Type())
			e := reflect.New(v.Type().Elem()).Elem()
			fillRec(e, depth+1)
			m.SetMapIndex(reflect.ValueOf("k"), e)
			v.Set(m)
		case reflect.Struct:
			for i := 0; i < v.NumField(); i++ {
				fillRec(v.Field(i), depth+1)
			}
		case reflect.Int:
			v.SetInt(1)
		case reflect.String:
			v.SetString("s")
		}
	}
	_ = fill
	for _, n := range names {
		st := reflect.StructOf([]reflect.StructField{{Name: "F", Type: reflect.TypeOf(0), Tag: reflect.StructTag(`json:` + strconv.Quote(n))}, {Name: "G", Type: reflect.TypeOf(""), Tag: reflect.StructTag(`json:` + strconv.Quote(n+"2,omitempty"))}})
		for _, t := range wrap(st) {
			id := fmt.Sprintf("member name %q in %s", n, strings.Replace(t.String(), st.String(), "S", -1))
			if !c.BeginS(id) {
				continue
			}
			v := reflect.New(t).Elem()
			fillRec(v, 0)
			// the interface member of the holder holds the struct itself
			if t.Kind() == reflect.Struct && t.NumField() == 2 && t.Field(1).Name == "I" {
				inner := reflect.New(st).Elem()
				fillRec(inner, 0)
				v.Field(1).Set(inner)
			}
			x := v.Interface()
			for _, html := range []bool{true, false} {
				for _, ep := range []string{"Marshal", "MarshalIndent", "Encoder"} {
					var got, want []byte
					var gerr, werr error
					p, msg := util.Safe(func() {
						switch ep {
						case "Marshal":
							if html {
								got, gerr = json.Marshal(x)
							} else {
								got, gerr = json.MarshalWithOption(x, json.DisableHTMLEscape())
							}
						case "MarshalIndent":
							if html {
								got, gerr = json.MarshalIndent(x, "", " ")
							} else {
								got, gerr = json.MarshalIndentWithOption(x, "", " ", json.DisableHTMLEscape())
							}
						default:
							var b bytes.Buffer
							e := json.NewEncoder(&b)
							e.SetEscapeHTML(html)
							gerr = e.Encode(x)
							got = b.Bytes()
						}
					})
					var wb bytes.Buffer
					we := stdjson.NewEncoder(&wb)
					we.SetEscapeHTML(html)
					if ep == "MarshalIndent" {
						we.SetIndent("", " ")
					}
					werr = we.Encode(x)
					want = wb.Bytes()
					if ep != "Encoder" {
						want = bytes.TrimSuffix(want, []byte("\n"))
					}
					c.Count("key_encodes", 1)
					kind := ""
					switch {
					case p:
						kind = "panic:" + util.ErrClass(msg)
					case (gerr == nil) != (werr == nil):
						kind = "error-mismatch"
					case gerr == nil && !bytes.Equal(got, want):
						kind = "bytes-differ"
						if html && bytes.ContainsAny(got, "<>&") {
							kind = "raw-html-character-in-member-name"
						}
					}
					c.Outcome(kind)
					if kind != "" {
						c.Violation(fmt.Sprintf("member name : %s : html escaping %v : %s : %s", kind, html, ep, c17Classes([]byte(n))), id, fmt.Sprintf("go-json %q err=%v ; encoding/json %q err=%v", clip(got), gerr, clip(want), werr))
					}
				}
			}
			c.EndCase()
		}
	}
}
