//go:build vshim
// +build vshim

package props

import (
	"bytes"
	"context"
	"fmt"
	"reflect"
	"strings"

	json "github.com/goccy/go-json"

	"verif/mc/explore"
	"verif/mc/sched"
	"verif/mc/work"
)

// C10 — all package functions are safe under concurrent use (and the
// concurrency clause of C20: one Path shared by goroutines).

func init() {
	work.Register("C10", "c10.sched", func(c *work.Ctx) { c10Run(c, false) })
	work.Register("C20", "c20.sched", func(c *work.Ctx) { c10Run(c, true) })
}

type c10T struct {
	A int               `json:"a"`
	B string            `json:"b,omitempty"`
	C []int             `json:"c"`
	D map[string]string `json:"d"`
	E *c10U             `json:"e"`
}
type c10U struct {
	X float64     `json:"x"`
	Y interface{} `json:"y"`
}

// yieldWriter hands control to the scheduler before it consumes the bytes, as
// a pipe or a contended writer would.
type yieldWriter struct {
	s   *sched.Sched
	buf bytes.Buffer
}

func (w *yieldWriter) Write(p []byte) (int, error) {
	w.s.Yield("Writer.Write")
	return w.buf.Write(p)
}

type yieldReader struct {
	s *sched.Sched
	r *strings.Reader
}

func (r *yieldReader) Read(p []byte) (int, error) {
	r.s.Yield("Reader.Read")
	return r.r.Read(p)
}

// c10Shared is the state a scenario's calls may share; fresh per execution.
type c10Shared struct {
	query *json.FieldQuery
	path  *json.Path
}

type c10Call struct {
	name string
	run  func(s *sched.Sched, sh *c10Shared) string
}

func res(b []byte, err error) string {
	if err != nil {
		return "error: " + err.Error()
	}
	return string(b)
}

func c10Calls() []c10Call {
	valT := c10T{A: 1, B: "b", C: []int{1, 2}, D: map[string]string{"k": "v", "j": "w"}, E: &c10U{X: 1.5, Y: []interface{}{1, "s"}}}
	valU := c10U{X: 2, Y: map[string]interface{}{"q": valT}}
	rt := reflect.StructOf([]reflect.StructField{{Name: "R", Type: reflect.TypeOf(0), Tag: `json:"r"`}, {Name: "S", Type: reflect.TypeOf([]string(nil)), Tag: `json:"s"`}})
	rv := reflect.New(rt).Elem()
	rv.Field(0).SetInt(7)
	rv.Field(1).Set(reflect.ValueOf([]string{"x"}))
	docT := `{"a":5,"b":"x","c":[3],"d":{"k":"v"},"e":{"x":2,"y":null}}`
	pathDocA := `{"a":{"b":[1,2]},"c":{"b":3}}`
	pathDocB := `{"a":{"b":7}}`
	return []c10Call{
		{"Marshal(T)", func(s *sched.Sched, sh *c10Shared) string { return res(json.Marshal(valT)) }},
		{"Marshal(U)", func(s *sched.Sched, sh *c10Shared) string { return res(json.Marshal(valU)) }},
		{"Marshal(reflect type)", func(s *sched.Sched, sh *c10Shared) string { return res(json.Marshal(rv.Interface())) }},
		{"MarshalIndent(T)", func(s *sched.Sched, sh *c10Shared) string { return res(json.MarshalIndent(&valT, "", " ")) }},
		{"MarshalContext(T, shared query)", func(s *sched.Sched, sh *c10Shared) string {
			return res(json.MarshalContext(json.SetFieldQueryToContext(context.Background(), sh.query), valT))
		}},
		{"Unmarshal(->T)", func(s *sched.Sched, sh *c10Shared) string {
			var v c10T
			err := json.Unmarshal([]byte(docT), &v)
			e := v.E
			v.E = nil
			return fmt.Sprintf("%+v %+v %v", v, e, err)
		}},
		{"Unmarshal(->U)", func(s *sched.Sched, sh *c10Shared) string {
			var v c10U
			err := json.Unmarshal([]byte(`{"x":3,"y":{"z":[1]}}`), &v)
			return fmt.Sprintf("%+v %v", v, err)
		}},
		{"Unmarshal(->reflect type)", func(s *sched.Sched, sh *c10Shared) string {
			p := reflect.New(rt)
			err := json.Unmarshal([]byte(`{"r":9,"s":["a","b"]}`), p.Interface())
			return fmt.Sprintf("%+v %v", p.Elem().Interface(), err)
		}},
		{"Unmarshal(->[]int)", func(s *sched.Sched, sh *c10Shared) string {
			var v []int
			err := json.Unmarshal([]byte(`[1,2,3]`), &v)
			return fmt.Sprintf("%v %v", v, err)
		}},
		{"Valid+Compact+Indent", func(s *sched.Sched, sh *c10Shared) string {
			var b1, b2 bytes.Buffer
			e1 := json.Compact(&b1, []byte(` { "a" : [ 1 , 2 ] } `))
			e2 := json.Indent(&b2, []byte(`{"a":[1,2]}`), "", " ")
			return fmt.Sprintf("%v %s %v %s %v", json.Valid([]byte(docT)), b1.String(), e1, b2.String(), e2)
		}},
		{"Encoder.Encode(T) to a slow writer", func(s *sched.Sched, sh *c10Shared) string {
			w := &yieldWriter{s: s}
			err := json.NewEncoder(w).Encode(valT)
			return fmt.Sprintf("%s %v", w.buf.String(), err)
		}},
		{"Encoder.Encode(U) to a slow writer", func(s *sched.Sched, sh *c10Shared) string {
			w := &yieldWriter{s: s}
			err := json.NewEncoder(w).Encode(valU)
			return fmt.Sprintf("%s %v", w.buf.String(), err)
		}},
		{"Decoder.Decode(->T) from a slow reader", func(s *sched.Sched, sh *c10Shared) string {
			var v c10T
			err := json.NewDecoder(&yieldReader{s: s, r: strings.NewReader(docT)}).Decode(&v)
			e := v.E
			v.E = nil
			return fmt.Sprintf("%+v %+v %v", v, e, err)
		}},
		{"Path.Extract(docA) on the shared Path", func(s *sched.Sched, sh *c10Shared) string {
			r, err := sh.path.Extract([]byte(pathDocA))
			return fmt.Sprintf("%q %v", r, err)
		}},
		{"Path.Extract(docB) on the shared Path", func(s *sched.Sched, sh *c10Shared) string {
			r, err := sh.path.Extract([]byte(pathDocB))
			return fmt.Sprintf("%q %v", r, err)
		}},
	}
}

func c10Fresh() *c10Shared {
	q, _ := json.BuildFieldQuery("a", json.BuildSubFieldQuery("e").Fields("x"))
	p, _ := json.CreatePath("$.a.b")
	return &c10Shared{query: q, path: p}
}

func c10Reset() {
	json.VerifResetCaches()
	json.VerifResetPools()
}

func c10Run(c *work.Ctx, pathOnly bool) {
	calls := c10Calls()
	bound := 2
	G := 2
	if !c.Quick() {
		bound = 3
	}
	// cold sequential results
	cold := make([]string, len(calls))
	for i, cl := range calls {
		c10Reset()
		sh := c10Fresh()
		func() {
			defer func() {
				if r := recover(); r != nil {
					cold[i] = fmt.Sprintf("PANIC %v", r)
				}
			}()
			cold[i] = cl.run(nil, sh)
		}()
	}
	// scenarios: every unordered pair of calls (with repetition), one call per goroutine;
	// thorough adds a third goroutine repeating the first call
	type scen struct{ idx []int }
	var scens []scen
	for a := 0; a < len(calls); a++ {
		for b := a; b < len(calls); b++ {
			isPath := strings.HasPrefix(calls[a].name, "Path.") && strings.HasPrefix(calls[b].name, "Path.")
			if pathOnly != isPath {
				continue
			}
			scens = append(scens, scen{[]int{a, b}})
			if !c.Quick() && G == 2 && a != b {
				scens = append(scens, scen{[]int{a, b, a}})
			}
		}
	}
	c.SelfSharded = true
	for si, sc := range scens {
		if si%c.NShards != c.Shard {
			continue
		}
		var names []string
		for _, i := range sc.idx {
			names = append(names, calls[i].name)
		}
		sname := strings.Join(names, " || ")
		for _, poolFresh := range []bool{false, true} {
			ex := &explore.Explorer{Bound: bound}
			stop := false
			ex.Stop = func() bool { return stop }
			ex.Run(func(ch *explore.Chooser) {
				id := fmt.Sprintf("%s poolFresh=%v", sname, poolFresh)
				if !c.BeginS(id) {
					return
				}
				defer c.EndCase()
				c10Reset()
				sh := c10Fresh()
				got := make([]string, len(sc.idx))
				var bodies []func(s *sched.Sched)
				for k, ci := range sc.idx {
					k, ci := k, ci
					bodies = append(bodies, func(s *sched.Sched) { got[k] = calls[ci].run(s, sh) })
				}
				r := sched.Run(ch, bodies, 4000, poolFresh)
				c.Count("schedules", 1)
				schedule := fmt.Sprint(ch.Choices())
				if r.Deadlock || r.Horizon {
					what := "deadlock"
					if r.Horizon {
						what = "no termination within 4000 steps"
					}
					c.Violation(fmt.Sprintf("%s : %s", what, sname), id+" schedule "+schedule, fmt.Sprintf("blocked: %v", r.BlockedOn))
					c.NotExhaustive("exploration stopped after a deadlock (library lock state is no longer clean)")
					stop = true
					return
				}
				for _, p := range r.Panics {
					c.Violation(fmt.Sprintf("panic under interleaving : %s", sname), id+" schedule "+schedule, p)
				}
				for k, ci := range sc.idx {
					c.Outcome(got[k])
					if got[k] != cold[ci] && len(r.Panics) == 0 {
						c.Violation(fmt.Sprintf("result differs from the call alone : %s : %s", sname, calls[ci].name), id+" schedule "+schedule,
							fmt.Sprintf("under schedule %s goroutine %d (%s) got %s ; alone it gives %s", schedule, k, calls[ci].name, clip([]byte(got[k])), clip([]byte(cold[ci]))))
					}
				}
				if work.RaceBuild {
					for _, rc := range r.Races {
						c.Violation(fmt.Sprintf("data race on the explored schedule : %s : %s", sname, rc), id+" schedule "+schedule, rc)
					}
				}
				if c.WantSample() {
					c.Sample(id + " schedule " + schedule)
				}
			})
			if stop {
				return
			}
		}
	}
}
