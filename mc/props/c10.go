//go:build vshim
// +build vshim

package props

import (
	"fmt"
	"strings"

	json "github.com/goccy/go-json"

	"verif/mc/explore"
	"verif/mc/sched"
	"verif/mc/work"
)

// C10 — all package functions are safe under concurrent use (and the
// concurrency clause of C20: one Path shared by goroutines).

func init() {
	work.Register("C10", "c10.sched", func(c *work.Ctx) { c10Run(c, false) })
	work.Register("C20", "c20.sched", func(c *work.Ctx) { c10Run(c, true) })
}

func c10Reset() {
	json.VerifResetCaches()
	json.VerifResetPools()
}

func c10Run(c *work.Ctx, pathOnly bool) {
	calls := c10Calls()
	bound := 2
	G := 2
	if !c.Quick() {
		bound = 3
	}
	// cold sequential results
	cold := make([]string, len(calls))
	for i, cl := range calls {
		c10Reset()
		sh := c10Fresh()
		func() {
			defer func() {
				if r := recover(); r != nil {
					cold[i] = fmt.Sprintf("PANIC %v", r)
				}
			}()
			cold[i] = cl.run(nil, sh)
		}()
	}
	// scenarios: every unordered pair of calls (with repetition), one call per goroutine;
	// thorough adds a third goroutine repeating the first call
	type scen struct{ idx []int }
	var scens []scen
	for a := 0; a < len(calls); a++ {
		for b := a; b < len(calls); b++ {
			isPath := strings.HasPrefix(calls[a].name, "Path.") && strings.HasPrefix(calls[b].name, "Path.")
			if pathOnly != isPath {
				continue
			}
			scens = append(scens, scen{[]int{a, b}})
			if !c.Quick() && G == 2 && a != b {
				scens = append(scens, scen{[]int{a, b, a}})
			}
		}
	}
	c.SelfSharded = true
	for si, sc := range scens {
		if si%c.NShards != c.Shard {
			continue
		}
		var names []string
		for _, i := range sc.idx {
			names = append(names, calls[i].name)
		}
		sname := strings.Join(names, " || ")
		if c.TimeUp() {
			c.NotExhaustive(fmt.Sprintf("deadline reached at scenario %d of %d (%s); the scenarios before it were explored completely", si, len(scens), sname))
			return
		}
		for _, variant := range []struct {
			poolFresh bool
			prologue  bool
			warm      bool
		}{{false, false, false}, {true, false, false}, {false, true, false}, {false, false, true}} {
			poolFresh := variant.poolFresh
			ex := &explore.Explorer{Bound: bound}
			if len(sc.idx) > 2 {
				// three goroutines: one preemption less (the cost grows with the cube of the execution length)
				ex.Bound = bound - 1
			}
			if variant.prologue || variant.warm {
				// a history of failed calls first (what they leave in the pools and caches is what the
				// goroutines start from); one preemption fewer keeps the cost of this variant low.
				// warm: every call of the scenario has run once, alone, before the goroutines start (caches,
				// memoised last-used entries and pools are in the state a long-running program has them in)
				ex.Bound = bound - 1
			}
			stop := false
			ex.Stop = func() bool { return stop }
			ex.Run(func(ch *explore.Chooser) {
				id := fmt.Sprintf("%s poolFresh=%v", sname, poolFresh)
				if variant.prologue {
					id += " after failed calls"
				}
				if variant.warm {
					id += " after each call ran once alone"
				}
				if !c.BeginS(id) {
					return
				}
				defer c.EndCase()
				c10Reset()
				if variant.prologue {
					c10Prologue()
				}
				sh := c10Fresh()
				if variant.warm {
					done := map[int]bool{}
					for _, ci := range sc.idx {
						if !done[ci] {
							done[ci] = true
							func() {
								defer func() { _ = recover() }()
								calls[ci].run(nil, sh)
							}()
						}
					}
				}
				got := make([]string, len(sc.idx))
				var bodies []func(s *sched.Sched)
				for k, ci := range sc.idx {
					k, ci := k, ci
					bodies = append(bodies, func(s *sched.Sched) { got[k] = calls[ci].run(s.Yield, sh) })
				}
				r := sched.Run(ch, bodies, 4000, poolFresh)
				c.Count("schedules", 1)
				schedule := fmt.Sprint(ch.Choices())
				if r.Deadlock || r.Horizon {
					what := "deadlock"
					if r.Horizon {
						what = "no termination within 4000 steps"
					}
					c.Violation(fmt.Sprintf("%s : %s", what, sname), id+" schedule "+schedule, fmt.Sprintf("blocked: %v", r.BlockedOn))
					c.NotExhaustive("exploration stopped after a deadlock (library lock state is no longer clean)")
					stop = true
					return
				}
				for _, p := range r.Panics {
					c.Violation(fmt.Sprintf("panic under interleaving : %s", sname), id+" schedule "+schedule, p)
				}
				for k, ci := range sc.idx {
					c.Outcome(got[k])
					if got[k] != cold[ci] && len(r.Panics) == 0 {
						c.Violation(fmt.Sprintf("result differs from the call alone : %s : %s", sname, calls[ci].name), id+" schedule "+schedule,
							fmt.Sprintf("under schedule %s goroutine %d (%s) got %s ; alone it gives %s", schedule, k, calls[ci].name, clip([]byte(got[k])), clip([]byte(cold[ci]))))
					}
				}
				// generic pool invariant: nothing may have been put into a pool that already held it (two goroutines
				// would be handed the same object); the failed calls of the prologue count as well
				if n := json.VerifPoolDoublePuts(); n > 0 {
					c.Violation(fmt.Sprintf("pool : an object was put into a pool twice : %s", map[bool]string{true: "during the failed calls before the goroutines or during " + sname, false: sname}[variant.prologue]), id+" schedule "+schedule, fmt.Sprintf("%d double puts", n))
					stop = true
					return
				}
				if work.RaceBuild {
					for _, rc := range r.Races {
						c.Violation(fmt.Sprintf("data race on the explored schedule : %s : %s", sname, rc), id+" schedule "+schedule, rc)
					}
				}
				if c.WantSample() {
					c.Sample(id + " schedule " + schedule)
				}
			})
			if stop {
				return
			}
		}
	}
}
