package props

import (
	"bytes"
	"fmt"
	"reflect"
	"strings"
	"unicode/utf8"

	stdjson "encoding/json"

	json "github.com/goccy/go-json"

	"verif/mc/props/util"
	"verif/mc/work"
)

// c05.ctrl / c18.ctrl / c03.ctrl — a raw control character inside a string is refused wherever it stands.
//
// The strict scanners step over string contents a machine word at a time where they can; what such a step sees of
// one byte depends on its neighbours. Every control character 0x00..0x1F directly behind a representative of every
// UTF-8 byte pattern (ASCII, 2-, 3-, 4-byte characters whose last byte is 0x80, 0x9F, 0xA0, 0xBF ...), at every
// offset 0..8 of an 8-byte window, in a value, a key and an array element: Valid is false, Compact and Indent fail
// and leave the destination alone, a RawMessage / Marshaler carrying the text makes Marshal fail. The same text
// with a plain letter in place of the control character passes all of them (so the family is not refused for
// another reason).

func init() {
	work.Register("C05", "c05.ctrl", c05Ctrl)
	work.Register("C18", "c18.ctrl", c05Ctrl)
	work.Register("C03", "c03.ctrl", c05Ctrl)
}

type c05Text struct{ t string }

func (m c05Text) MarshalJSON() ([]byte, error) { return []byte(m.t), nil }

func c05Ctrl(c *work.Ctx) {
	prevs := []string{"a", "\x7f", "\u0080", "\u009f", "\u00a0", "\u00bf", "\u00e9", "\u00fc", "\u07ff", "\u20ac", "\u672c", "\u2028", "\uffff", "\U0001f600", "\U0010ffff"}
	wrap := []struct{ name, pre, post string }{
		{"value", `{"k":"`, `"}`}, {"key", `{"`, `":1}`}, {"array element", `["`, `",2]`}, {"top level", `"`, `"`},
	}
	for _, prev := range prevs {
		for o := 0; o <= 8; o++ {
			id := fmt.Sprintf("control characters behind %q at offset %d of the string", prev, o)
			if !c.BeginS(id) {
				continue
			}
			for cc := 0; cc < 0x21; cc++ {
				// cc == 0x20: the control: a space, which is allowed
				for _, w := range wrap {
					text := []byte(w.pre + strings.Repeat("x", o) + prev + string(rune(cc)) + strings.Repeat("x", 9) + w.post)
					wantValid := cc == 0x20
					if stdjson.Valid(text) != wantValid {
						c.HarnessError("reference disagrees on " + string(text))
						continue
					}
					c.Count("control_texts", 1)
					report := func(fn, what string) {
						c.Violation(fmt.Sprintf("control character in a string : %s : %s : %s", fn, w.name, what), fmt.Sprintf("%q", text),
							fmt.Sprintf("control character %#02x behind %q at offset %d (%s)", cc, prev, o, w.name))
					}
					var v bool
					if p, _ := util.Safe(func() { v = json.Valid(text) }); p {
						report("Valid", "panic")
					} else if v != wantValid {
						report("Valid", map[bool]string{true: "accepted", false: "valid text refused"}[v])
					}
					for _, fn := range []string{"Compact", "Indent"} {
						dst := bytes.NewBufferString("keep")
						var err error
						p, _ := util.Safe(func() {
							if fn == "Compact" {
								err = json.Compact(dst, text)
							} else {
								err = json.Indent(dst, text, "", " ")
							}
						})
						switch {
						case p:
							report(fn, "panic")
						case (err == nil) != wantValid:
							report(fn, map[bool]string{true: "accepted", false: "valid text refused"}[err == nil])
						case err != nil && dst.String() != "keep":
							report(fn, "destination changed although the call failed")
						}
					}
					for _, fn := range []string{"Marshal(RawMessage)", "MarshalIndent(Marshaler)"} {
						var err error
						var out []byte
						p, _ := util.Safe(func() {
							if fn == "Marshal(RawMessage)" {
								out, err = json.Marshal([]interface{}{stdjson.RawMessage(text)})
							} else {
								out, err = json.MarshalIndent(map[string]interface{}{"m": c05Text{string(text)}}, "", " ")
							}
						})
						switch {
						case p:
							report(fn, "panic")
						case (err == nil) != wantValid:
							report(fn, map[bool]string{true: "ill-formed marshaler output encoded", false: "valid marshaler output refused"}[err == nil])
						case err == nil && !stdjson.Valid(out):
							report(fn, "ill-formed output")
						}
					}
				}
			}
			c.Outcome("done")
			c.EndCase()
		}
	}
}

// c03.passthrough / c01.passthrough — valid marshaler output stays the text it was.
//
// The text a Marshaler or a RawMessage returns is copied by a routine that may re-spell characters (HTML escaping of
// <, >, & and of U+2028 / U+2029). Every representative character at every offset 0..8 of a string literal inside a
// marshaler's text, HTML escaping on and off, compact and indented, RawMessage and Marshaler: the call succeeds, the
// output is one JSON value in valid UTF-8, and it decodes to the value the marshaler's own text decodes to.

func init() {
	work.Register("C03", "c03.passthrough", c03Pass)
	work.Register("C01", "c01.passthrough", c03Pass)
}

func c03Pass(c *work.Ctx) {
	chars := []string{"a", "\x7f", "\u0080", "\u00e9", "\u07ff", "\u0800", "\u20ac", "\u2027", "\u2028", "\u2029", "\u202a", "\u672c", "\uffff", "\U0001f600", "\U0010ffff", "<", ">", "&", "\\u2028", "\\u003c", "\\\"", "\\\\"}
	for _, ch := range chars {
		for _, ch2 := range []string{"", "\u2029", "<", "\u00e9"} {
			id := fmt.Sprintf("marshaler text with %q then %q", ch, ch2)
			if !c.BeginS(id) {
				continue
			}
			for o := 0; o <= 8; o++ {
				lit := `"` + strings.Repeat("x", o) + ch + ch2 + strings.Repeat("y", 3) + `"`
				for _, text := range []string{lit, `{"k` + ch + `":` + lit + `,"n":[` + lit + `]}`} {
					var want interface{}
					if stdjson.Unmarshal([]byte(text), &want) != nil {
						c.HarnessError("not a valid text: " + text)
						continue
					}
					for _, html := range []bool{true, false} {
						for _, indent := range []bool{false, true} {
							for _, carrier := range []string{"RawMessage", "Marshaler"} {
								var x interface{} = []interface{}{stdjson.RawMessage(text), 1}
								if carrier == "Marshaler" {
									x = map[string]interface{}{"m": c05Text{text}}
								}
								var out bytes.Buffer
								var err error
								p, msg := util.Safe(func() {
									en := json.NewEncoder(&out)
									en.SetEscapeHTML(html)
									if indent {
										en.SetIndent("", " ")
									}
									err = en.Encode(x)
								})
								c.Count("passthrough_encodes", 1)
								what := ""
								switch {
								case p:
									what = "panic: " + util.ErrClass(msg)
								case err != nil:
									what = "valid marshaler output refused"
								case !stdjson.Valid(out.Bytes()):
									what = "ill-formed output"
								case !utf8.Valid(out.Bytes()):
									what = "output is not valid UTF-8"
								case html && bytes.ContainsAny(out.Bytes(), "<>&"):
									what = "raw HTML character with HTML escaping on"
								default:
									var got interface{}
									_ = stdjson.Unmarshal(out.Bytes(), &got)
									var inner interface{}
									if carrier == "Marshaler" {
										if m, ok := got.(map[string]interface{}); ok {
											inner = m["m"]
										}
									} else if a, ok := got.([]interface{}); ok && len(a) == 2 {
										inner = a[0]
									}
									if !reflect.DeepEqual(inner, want) {
										what = "the output decodes to another value than the marshaler's text"
									}
								}
								if what != "" {
									c.Violation(fmt.Sprintf("marshaler text : %s : html=%v indent=%v : %s", carrier, html, indent, what), fmt.Sprintf("%q", text),
										fmt.Sprintf("%s carrying %q gives %q err=%v", carrier, text, clip(out.Bytes()), err))
								}
							}
						}
					}
				}
			}
			c.Outcome("done")
			c.EndCase()
		}
	}
}
