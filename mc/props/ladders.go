package props

import (
	"bytes"
	"fmt"
	"reflect"
	"strings"
	"testing/iotest"

	stdjson "encoding/json"

	json "github.com/goccy/go-json"

	"verif/mc/props/util"
	"verif/mc/work"
)

// Length ladders: one-parameter families of documents (N repetitions of a
// string-content atom, N digits, N elements, N members, N white-space bytes, an
// N-byte key) for N around the sizes at which the decoders change gear (8-byte
// words, the 512-byte initial stream buffer and its doublings). The nesting
// ladders of C06 cover depth; these cover length. Judged twice: C06 (every
// entry point returns) and C09 (the stream decoder gives what Unmarshal gives,
// also from a reader that delivers one byte at a time).

func init() {
	work.Register("C06", "c06.lengths", func(c *work.Ctx) { lengthLadders(c, false) })
	work.Register("C09", "c09.lengths", func(c *work.Ctx) { lengthLadders(c, true) })
}

func ladderNs(quick bool) []int {
	ns := []int{0, 1, 2, 3, 7, 8, 9, 15, 16, 17, 31, 32, 33, 63, 64, 65, 127, 128, 129}
	for _, c := range []int{256, 512, 1024, 2048} {
		for d := -4; d <= 4; d++ {
			ns = append(ns, c+d)
		}
	}
	for _, c := range []int{170, 171, 341, 342, 682, 683} { // a third of the buffer sizes (3-byte replacements)
		ns = append(ns, c)
	}
	if !quick {
		for _, c := range []int{4096, 8192, 16384} {
			for d := -3; d <= 3; d++ {
				ns = append(ns, c+d)
			}
		}
		for n := 500; n <= 530; n++ {
			ns = append(ns, n)
		}
	}
	return ns
}

type ladderFam struct {
	name string
	mk   func(n int) string
	dest string // name in c09Dests
}

func ladderFamilies() []ladderFam {
	var fams []ladderFam
	atoms := []struct{ name, a string }{
		{"byte", "a"}, {"ill-formed byte", "\xff"}, {"utf8x2", "é"}, {"utf8x3", "€"}, {"utf8x4", "😀"},
		{"escape", `\n`}, {"backslash escape", `\\`}, {`\u`, "\\u00e9"}, {`\u-pair`, "\\ud83d\\ude00"}, {"ill-formed then utf8x2", "\xffé"},
	}
	for _, at := range atoms {
		at := at
		fams = append(fams,
			ladderFam{"string of N x " + at.name, func(n int) string { return `"` + strings.Repeat(at.a, n) + `"` }, "string"},
			ladderFam{"[]string element of N x " + at.name, func(n int) string { return `["` + strings.Repeat(at.a, n) + `","z"]` }, "[]string"},
			ladderFam{"struct member of N x " + at.name, func(n int) string { return `{"a":1,"b":"` + strings.Repeat(at.a, n) + `"}` }, "struct{A int;B string}"},
			ladderFam{"map key of N x " + at.name, func(n int) string { return `{"` + strings.Repeat(at.a, n) + `":1}` }, "map[string]int"},
			ladderFam{"interface{} string of N x " + at.name, func(n int) string { return `["` + strings.Repeat(at.a, n) + `"]` }, "interface{}"},
			ladderFam{"unknown struct key of N x " + at.name, func(n int) string { return `{"` + strings.Repeat(at.a, n) + `":[1],"a":2}` }, "struct{A int;B string}"},
		)
	}
	fams = append(fams,
		ladderFam{"N digits into interface{}", func(n int) string { return "1" + strings.Repeat("0", n) }, "interface{}"},
		ladderFam{"N digits into Number", func(n int) string { return "1" + strings.Repeat("2", n) }, "Number"},
		ladderFam{"N fraction digits into *float64", func(n int) string { return "0." + strings.Repeat("3", n) + "1" }, "*float64"},
		ladderFam{"N leading spaces", func(n int) string { return strings.Repeat(" ", n) + `{"a":1}` }, "struct{A int;B string}"},
		ladderFam{"N trailing newlines", func(n int) string { return `[1]` + strings.Repeat("\n", n) }, "[]int"},
		ladderFam{"N spaces inside an array", func(n int) string { return `[1,` + strings.Repeat(" ", n) + `2]` }, "[]int"},
		ladderFam{"array of N numbers", func(n int) string { return `[0` + strings.Repeat(",1", n) + `]` }, "[]int"},
		ladderFam{"array of N strings into []interface{}", func(n int) string { return `[""` + strings.Repeat(`,"s"`, n) + `]` }, "[]interface{}"},
		ladderFam{"object of N members into map[string]interface{}", func(n int) string {
			var sb strings.Builder
			sb.WriteString(`{"k":0`)
			for i := 0; i < n; i++ {
				fmt.Fprintf(&sb, `,"k%d":%d`, i, i)
			}
			sb.WriteString("}")
			return sb.String()
		}, "map[string]interface{}"},
		ladderFam{"object of N unknown members into a struct", func(n int) string {
			var sb strings.Builder
			sb.WriteString(`{"a":1`)
			for i := 0; i < n; i++ {
				fmt.Fprintf(&sb, `,"x%d":[%d]`, i, i)
			}
			sb.WriteString(`,"b":"end"}`)
			return sb.String()
		}, "struct{A int;B string}"},
		ladderFam{"RawMessage of N bytes", func(n int) string { return `[` + strings.Repeat(" ", n) + `"r"]` }, "RawMessage"},
		ladderFam{"base64 of N groups", func(n int) string { return `"` + strings.Repeat("QUJD", n) + `"` }, "[]byte"},
		ladderFam{"N bytes then a truncated literal", func(n int) string { return `["` + strings.Repeat("a", n) + `",tru` }, "[]interface{}"},
		ladderFam{"N bytes then an unterminated escape", func(n int) string { return `"` + strings.Repeat("a", n) + `\` }, "string"},
		ladderFam{"N bytes then a truncated \\u", func(n int) string { return `"` + strings.Repeat("a", n) + `\u12` }, "string"},
		ladderFam{"N bytes then a lone high surrogate", func(n int) string { return `"` + strings.Repeat("a", n) + `\ud83d"` }, "string"},
	)
	return fams
}

func lengthLadders(c *work.Ctx, judgeEq bool) {
	find := func(name string) int {
		for i := range c09Dests {
			if c09Dests[i].name == name {
				return i
			}
		}
		panic("no destination " + name)
	}
	ns := ladderNs(c.Quick())
	for _, f := range ladderFamilies() {
		d := &c09Dests[find(f.dest)]
		for _, n := range ns {
			doc := f.mk(n)
			b := []byte(doc)
			if !c.BeginS(fmt.Sprintf("%s, N=%d", f.name, n)) {
				continue
			}
			buf := bufferOutcome(b, d.t, d.num)
			whole := streamOutcome(bytes.NewReader(b), d.t, d.num)
			one := streamOutcome(iotest.OneByteReader(bytes.NewReader(b)), d.t, d.num)
			seven := streamOutcome(&chunkReader{data: b, pieceSize: 7, zeroAt: -1, failAt: -1}, d.t, d.num)
			c.Outcome(c09Verdicts(whole))
			nb := ladderBucket(n)
			if !judgeEq {
				for _, r := range []struct{ what, out string }{{"Unmarshal", buf}, {"Decoder", whole}, {"Decoder, one byte per Read", one}, {"Decoder, 7 bytes per Read", seven}} {
					if strings.HasPrefix(r.out, "PANIC") {
						c.Violation(fmt.Sprintf("panic : %s : %s : %s : %s", r.what, f.name, nb, util.ErrClass(strings.TrimPrefix(r.out, "PANIC:"))), fmt.Sprintf("%s, N=%d", f.name, n), r.out)
					}
				}
				// the utilities on the same text
				for _, u := range []struct {
					what string
					run  func()
				}{
					{"Valid", func() { json.Valid(b) }},
					{"Compact", func() { var o bytes.Buffer; _ = json.Compact(&o, b) }},
					{"Indent", func() { var o bytes.Buffer; _ = json.Indent(&o, b, "", " ") }},
					{"HTMLEscape", func() { var o bytes.Buffer; json.HTMLEscape(&o, b) }},
					{"Decoder.Token", func() {
						dec := json.NewDecoder(bytes.NewReader(b))
						for i := 0; i < 1<<20; i++ {
							if _, err := dec.Token(); err != nil {
								break
							}
						}
					}},
				} {
					if p, msg := util.Safe(u.run); p {
						c.Violation(fmt.Sprintf("panic : %s : %s : %s : %s", u.what, f.name, nb, util.ErrClass(msg)), fmt.Sprintf("%s, N=%d", f.name, n), msg)
					}
				}
			} else {
				if strings.HasPrefix(buf, "PANIC") || strings.HasPrefix(whole, "PANIC") || strings.HasPrefix(one, "PANIC") || strings.HasPrefix(seven, "PANIC") {
					// C06's business; nothing to compare
				} else {
					if buf != whole && !(buf == "x" && !strings.HasSuffix(whole, ")E")) {
						cause := ""
						if strings.Contains(doc, "\xff") && c09Verdicts(buf) == c09Verdicts(whole) {
							cause = " (the text contains an ill-formed UTF-8 byte)"
						}
						c.Violation(fmt.Sprintf("length ladder : stream-vs-buffer : %s : %s%s", f.name, c09Verdicts(buf)+" vs "+c09Verdicts(whole), cause), fmt.Sprintf("%s, N=%d", f.name, n),
							fmt.Sprintf("Unmarshal %s ; Decoder %s", clipTail([]byte(buf)), clipTail([]byte(whole))))
					}
					if one != whole {
						c.Violation(fmt.Sprintf("length ladder : chunking-dependent : %s : one byte per Read : %s", f.name, nb), fmt.Sprintf("%s, N=%d", f.name, n),
							fmt.Sprintf("whole %s ; one byte per Read %s", clipTail([]byte(whole)), clipTail([]byte(one))))
					}
					if seven != whole {
						c.Violation(fmt.Sprintf("length ladder : chunking-dependent : %s : 7 bytes per Read : %s", f.name, nb), fmt.Sprintf("%s, N=%d", f.name, n),
							fmt.Sprintf("whole %s ; 7 bytes per Read %s", clipTail([]byte(whole)), clipTail([]byte(seven))))
					}
					// encoding/json as a second opinion on the verdict of valid UTF-8 texts
					if stdjson.Valid(b) && !strings.Contains(doc, "\xff") {
						pw := reflect.New(d.t)
						werr := stdjson.Unmarshal(b, pw.Interface())
						c.RefCheck(1)
						if (werr == nil) != (buf != "x") && !d.num {
							c.Violation(fmt.Sprintf("length ladder : verdict differs from encoding/json : %s : %s", f.name, nb), fmt.Sprintf("%s, N=%d", f.name, n), fmt.Sprintf("Unmarshal %s ; encoding/json err=%v", clipTail([]byte(buf)), werr))
						}
					}
				}
			}
			if c.WantSample() {
				c.Sample(fmt.Sprintf("%s, N=%d", f.name, n))
			}
			c.EndCase()
		}
	}
}

func ladderBucket(n int) string {
	switch {
	case n < 256:
		return "N below 256"
	case n < 509:
		return "N 256..508"
	case n < 1020:
		return "N 509..1019"
	case n < 2040:
		return "N 1020..2039"
	}
	return "N from 2040"
}
