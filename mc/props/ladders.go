package props

import (
	"bytes"
	"fmt"
	"reflect"
	"runtime"
	"strings"
	"testing/iotest"
	"time"
	"unicode/utf8"

	stdjson "encoding/json"

	json "github.com/goccy/go-json"

	"verif/mc/oracle"
	"verif/mc/props/util"
	"verif/mc/universe"
	"verif/mc/work"
)

// Length ladders: one-parameter families of documents (N repetitions of a
// string-content atom, N digits, N elements, N members, N white-space bytes, an
// N-byte key) for N around the sizes at which the decoders change gear (8-byte
// words, the 512-byte initial stream buffer and its doublings). The nesting
// ladders of C06 cover depth; these cover length. Judged twice: C06 (every
// entry point returns) and C09 (the stream decoder gives what Unmarshal gives,
// also from a reader that delivers one byte at a time).

func init() {
	work.Register("C06", "c06.lengths", func(c *work.Ctx) { lengthLadders(c, 0) })
	work.Register("C09", "c09.lengths", func(c *work.Ctx) { lengthLadders(c, 1) })
	work.Register("C02", "c02.lengths", func(c *work.Ctx) { lengthLadders(c, 2) })
}

func ladderNs(quick bool) []int {
	ns := []int{0, 1, 2, 3, 7, 8, 9, 15, 16, 17, 31, 32, 33, 63, 64, 65, 127, 128, 129}
	for _, c := range []int{256, 512, 1024, 2048} {
		for d := -4; d <= 4; d++ {
			ns = append(ns, c+d)
		}
	}
	for _, c := range []int{170, 171, 341, 342, 682, 683} { // a third of the buffer sizes (3-byte replacements)
		ns = append(ns, c)
	}
	if !quick {
		for _, c := range []int{4096, 8192, 16384} {
			for d := -3; d <= 3; d++ {
				ns = append(ns, c+d)
			}
		}
		for n := 500; n <= 530; n++ {
			ns = append(ns, n)
		}
	}
	return ns
}

type ladderFam struct {
	name string
	mk   func(n int) string
	dest string // name in c09Dests
}

func ladderFamilies() []ladderFam {
	var fams []ladderFam
	atoms := []struct{ name, a string }{
		{"byte", "a"}, {"ill-formed byte", "\xff"}, {"utf8x2", "é"}, {"utf8x3", "€"}, {"utf8x4", "😀"},
		{"escape", `\n`}, {"backslash escape", `\\`}, {`\u`, "\\u00e9"}, {`\u-pair`, "\\ud83d\\ude00"}, {"ill-formed then utf8x2", "\xffé"},
	}
	for _, at := range atoms {
		at := at
		fams = append(fams,
			ladderFam{"string of N x " + at.name, func(n int) string { return `"` + strings.Repeat(at.a, n) + `"` }, "string"},
			ladderFam{"[]string element of N x " + at.name, func(n int) string { return `["` + strings.Repeat(at.a, n) + `","z"]` }, "[]string"},
			ladderFam{"struct member of N x " + at.name, func(n int) string { return `{"a":1,"b":"` + strings.Repeat(at.a, n) + `"}` }, "struct{A int;B string}"},
			ladderFam{"map key of N x " + at.name, func(n int) string { return `{"` + strings.Repeat(at.a, n) + `":1}` }, "map[string]int"},
			ladderFam{"interface{} string of N x " + at.name, func(n int) string { return `["` + strings.Repeat(at.a, n) + `"]` }, "interface{}"},
			ladderFam{"unknown struct key of N x " + at.name, func(n int) string { return `{"` + strings.Repeat(at.a, n) + `":[1],"a":2}` }, "struct{A int;B string}"},
		)
	}
	for _, at := range atoms {
		at := at
		fams = append(fams,
			ladderFam{"TextUnmarshaler of N x " + at.name, func(n int) string { return `"` + strings.Repeat(at.a, n) + `"` }, "TextUnmarshaler"},
			ladderFam{"TextUnmarshaler member of N x " + at.name, func(n int) string { return `{"F":"` + strings.Repeat(at.a, n) + `"}` }, "struct{F TextUnmarshaler}"},
			ladderFam{"TextUnmarshaler map key of N x " + at.name, func(n int) string { return `{"` + strings.Repeat(at.a, n) + `":1}` }, "map[TextUnmarshaler key]int"},
			ladderFam{"Unmarshaler given a string of N x " + at.name, func(n int) string { return `"` + strings.Repeat(at.a, n) + `"` }, "Unmarshaler"},
			ladderFam{"[]byte given N x " + at.name, func(n int) string { return `"` + strings.Repeat(at.a, n) + `"` }, "[]byte"},
			ladderFam{"time.Time given N x " + at.name, func(n int) string { return `"` + strings.Repeat(at.a, n) + `"` }, "time.Time"},
			ladderFam{",string member given N x " + at.name, func(n int) string { return `{"f":"\"` + strings.Repeat(at.a, n) + `\""}` }, "struct{F string ,string}"},
		)
		// two-part contents: the atom N times before and after eight plain bytes (a decision taken for
		// the first part is paid for in the second)
		for _, pos := range []struct{ name, dest, pre, suf string }{
			{"string", "string", `"`, `"`},
			{"TextUnmarshaler", "TextUnmarshaler", `"`, `"`},
			{"struct member", "struct{A int;B string}", `{"a":1,"b":"`, `"}`},
			{"map key", "map[string]int", `{"`, `":1}`},
			{"interface{}", "interface{}", `["`, `"]`},
		} {
			pos := pos
			fams = append(fams,
				ladderFam{pos.name + " of N x " + at.name + " then 8 plain bytes", func(n int) string { return pos.pre + strings.Repeat(at.a, n) + "abcdefgh" + pos.suf }, pos.dest},
				ladderFam{pos.name + " of 8 plain bytes then N x " + at.name, func(n int) string { return pos.pre + "abcdefgh" + strings.Repeat(at.a, n) + pos.suf }, pos.dest},
			)
		}
	}
	fams = append(fams,
		ladderFam{"N digits into interface{}", func(n int) string { return "1" + strings.Repeat("0", n) }, "interface{}"},
		ladderFam{"N digits into Number", func(n int) string { return "1" + strings.Repeat("2", n) }, "Number"},
		ladderFam{"N fraction digits into *float64", func(n int) string { return "0." + strings.Repeat("3", n) + "1" }, "*float64"},
		ladderFam{"N leading spaces", func(n int) string { return strings.Repeat(" ", n) + `{"a":1}` }, "struct{A int;B string}"},
		ladderFam{"N trailing newlines", func(n int) string { return `[1]` + strings.Repeat("\n", n) }, "[]int"},
		ladderFam{"N spaces inside an array", func(n int) string { return `[1,` + strings.Repeat(" ", n) + `2]` }, "[]int"},
		ladderFam{"array of N numbers", func(n int) string { return `[0` + strings.Repeat(",1", n) + `]` }, "[]int"},
		ladderFam{"array of N strings into []interface{}", func(n int) string { return `[""` + strings.Repeat(`,"s"`, n) + `]` }, "[]interface{}"},
		ladderFam{"object of N members into map[string]interface{}", func(n int) string {
			var sb strings.Builder
			sb.WriteString(`{"k":0`)
			for i := 0; i < n; i++ {
				fmt.Fprintf(&sb, `,"k%d":%d`, i, i)
			}
			sb.WriteString("}")
			return sb.String()
		}, "map[string]interface{}"},
		ladderFam{"object of N unknown members into a struct", func(n int) string {
			var sb strings.Builder
			sb.WriteString(`{"a":1`)
			for i := 0; i < n; i++ {
				fmt.Fprintf(&sb, `,"x%d":[%d]`, i, i)
			}
			sb.WriteString(`,"b":"end"}`)
			return sb.String()
		}, "struct{A int;B string}"},
		ladderFam{"RawMessage of N bytes", func(n int) string { return `[` + strings.Repeat(" ", n) + `"r"]` }, "RawMessage"},
		ladderFam{"base64 of N groups", func(n int) string { return `"` + strings.Repeat("QUJD", n) + `"` }, "[]byte"},
		ladderFam{"N bytes then a truncated literal", func(n int) string { return `["` + strings.Repeat("a", n) + `",tru` }, "[]interface{}"},
		ladderFam{"N bytes then an unterminated escape", func(n int) string { return `"` + strings.Repeat("a", n) + `\` }, "string"},
		ladderFam{"N bytes then a truncated \\u", func(n int) string { return `"` + strings.Repeat("a", n) + `\u12` }, "string"},
		ladderFam{"N bytes then a lone high surrogate", func(n int) string { return `"` + strings.Repeat("a", n) + `\ud83d"` }, "string"},
	)
	// texts of EXACTLY N bytes that end in the middle of a token: a scanner that compares or slices ahead of the
	// cursor meets the end of its working copy, whose capacity is what earlier calls left in a pool ("fresh:"
	// families are run on freshly collected pools, where that capacity is the initial one)
	for _, tail := range []string{"t", "tr", "tru", "f", "fa", "fals", "n", "nu", "nul", `"ab`, `"a\\`, `"\\u00`, "-", "1e", "1.", "[1,", `{"a":`, `{"a"`} {
		tail := tail
		fams = append(fams, ladderFam{"fresh: array text of exactly N bytes ending in " + tail, func(n int) string {
			if n < len(tail)+1 {
				return "[" + tail
			}
			return "[" + strings.Repeat(" ", n-len(tail)-1) + tail
		}, "[]interface{}"})
	}
	// N sibling containers (closed one after the other, never nested): a depth counter that drifts by one per
	// sibling reaches the nesting limit of 10000 on a flat document. These families have their own ladder.
	sib := func(open, inner, close string) func(n int) string {
		return func(n int) string {
			var sb strings.Builder
			sb.WriteString(open)
			for i := 0; i < n; i++ {
				if i > 0 {
					sb.WriteByte(',')
				}
				sb.WriteString(strings.Replace(inner, "#", fmt.Sprint(i), -1))
			}
			sb.WriteString(close)
			return sb.String()
		}
	}
	fams = append(fams,
		ladderFam{"siblings: unknown member holding N objects", sib(`{"x":[`, `{"id":#}`, `],"a":1,"b":"end"}`), "struct{A int;B string}"},
		ladderFam{"siblings: unknown member holding N arrays in an object", sib(`{"x":{`, `"k#":[#]`, `},"a":1,"b":"end"}`), "struct{A int;B string}"},
		ladderFam{"siblings: N objects into []interface{}", sib(`[`, `{"id":#}`, `]`), "[]interface{}"},
		ladderFam{"siblings: N arrays into map[string]interface{}", sib(`{`, `"k#":[#]`, `}`), "map[string]interface{}"},
		ladderFam{"siblings: RawMessage of N objects", sib(`[`, `{"id":[#]}`, `]`), "RawMessage"},
		ladderFam{"siblings: N objects then N arrays into interface{}", func(n int) string {
			return `{"a":` + sib(`[`, `{}`, `]`)(n) + `,"b":` + sib(`{`, `"k#":[]`, `}`)(n) + `}`
		}, "interface{}"},
	)
	return fams
}

// siblingNs: the ladder of the "siblings:" families (the nesting limit of the library is 10000).
func siblingNs(quick bool) []int {
	ns := []int{0, 1, 2, 100, 4999, 5000, 5001, 9998, 9999, 10000, 10001, 10002, 12000}
	if !quick {
		ns = append(ns, 19999, 20000, 20001, 30001, 100000)
	}
	return ns
}

// mode 0: C06 (every entry point returns); 1: C09 (stream = buffer, chunking-independent);
// 2: C02 (Unmarshal and Decoder agree with encoding/json on valid, UTF-8-valid texts).
func lengthLadders(c *work.Ctx, mode int) {
	judgeEq := mode == 1
	type ldest struct {
		name string
		t    reflect.Type
		num  bool
	}
	extra := []ldest{
		{"TextUnmarshaler", reflect.TypeOf(universe.UT{}), false},
		{"struct{F TextUnmarshaler}", reflect.TypeOf(struct{ F universe.UT }{}), false},
		{"map[TextUnmarshaler key]int", reflect.TypeOf(map[universe.UTS]int(nil)), false},
		{"Unmarshaler", reflect.TypeOf(universe.UJ{}), false},
		{"struct{F string ,string}", reflect.TypeOf(struct {
			F string `json:"f,string"`
		}{}), false},
		{"time.Time", reflect.TypeOf(time.Time{}), false},
	}
	find := func(name string) *ldest {
		for i := range c09Dests {
			if c09Dests[i].name == name {
				return &ldest{c09Dests[i].name, c09Dests[i].t, c09Dests[i].num}
			}
		}
		for i := range extra {
			if extra[i].name == name {
				return &extra[i]
			}
		}
		panic("no destination " + name)
	}
	ns0 := ladderNs(c.Quick())
	for _, f := range ladderFamilies() {
		d := find(f.dest)
		ns := ns0
		if strings.HasPrefix(f.name, "siblings:") {
			ns = siblingNs(c.Quick())
		}
		for _, n := range ns {
			doc := f.mk(n)
			b := []byte(doc)
			if !c.BeginS(fmt.Sprintf("%s, N=%d", f.name, n)) {
				continue
			}
			if strings.HasPrefix(f.name, "fresh:") {
				ladderFreshPools()
			}
			buf := bufferOutcome(b, d.t, d.num)
			whole := streamOutcome(bytes.NewReader(b), d.t, d.num)
			one := streamOutcome(iotest.OneByteReader(bytes.NewReader(b)), d.t, d.num)
			seven := streamOutcome(&chunkReader{data: b, pieceSize: 7, zeroAt: -1, failAt: -1}, d.t, d.num)
			c.Outcome(c09Verdicts(whole))
			nb := ladderBucket(n)
			if mode == 2 {
				if stdjson.Valid(b) && utf8.Valid(b) && !strings.HasPrefix(buf, "PANIC") && !strings.HasPrefix(whole, "PANIC") {
					pw := reflect.New(d.t)
					var werr error
					if d.num {
						sd := stdjson.NewDecoder(bytes.NewReader(b))
						sd.UseNumber()
						werr = sd.Decode(pw.Interface())
					} else {
						werr = stdjson.Unmarshal(b, pw.Interface())
					}
					want := "x"
					if werr == nil {
						want = "v(" + oracle.Canon(pw.Elem()) + ")E"
					}
					c.RefCheck(1)
					for _, r := range []struct{ what, out string }{{"Unmarshal", buf}, {"Decoder", whole}} {
						got := r.out
						if r.what == "Decoder" && !strings.HasSuffix(got, ")E") {
							got = "x"
						}
						if got != want {
							kind := "value-differs"
							if got == "x" {
								kind = "rejects"
							} else if want == "x" {
								kind = "accepts"
							}
							c.Violation(fmt.Sprintf("length ladder : %s %s : %s", r.what, kind, f.name), fmt.Sprintf("%s, N=%d", f.name, n),
								fmt.Sprintf("go-json %s ; encoding/json %s", clipTail([]byte(got)), clipTail([]byte(want))))
						}
					}
				}
				if c.WantSample() {
					c.Sample(fmt.Sprintf("%s, N=%d", f.name, n))
				}
				c.EndCase()
				continue
			}
			if !judgeEq {
				for _, r := range []struct{ what, out string }{{"Unmarshal", buf}, {"Decoder", whole}, {"Decoder, one byte per Read", one}, {"Decoder, 7 bytes per Read", seven}} {
					if strings.HasPrefix(r.out, "PANIC") {
						c.Violation(fmt.Sprintf("panic : %s : %s : %s : %s", r.what, f.name, nb, util.ErrClass(strings.TrimPrefix(r.out, "PANIC:"))), fmt.Sprintf("%s, N=%d", f.name, n), r.out)
					}
				}
				// the utilities on the same text
				for _, u := range []struct {
					what string
					run  func()
				}{
					{"Valid", func() { json.Valid(b) }},
					{"Compact", func() { var o bytes.Buffer; _ = json.Compact(&o, b) }},
					{"Indent", func() { var o bytes.Buffer; _ = json.Indent(&o, b, "", " ") }},
					{"HTMLEscape", func() { var o bytes.Buffer; json.HTMLEscape(&o, b) }},
					{"Decoder.Token", func() {
						dec := json.NewDecoder(bytes.NewReader(b))
						for i := 0; i < 1<<20; i++ {
							if _, err := dec.Token(); err != nil {
								break
							}
						}
					}},
				} {
					if p, msg := util.Safe(u.run); p {
						c.Violation(fmt.Sprintf("panic : %s : %s : %s : %s", u.what, f.name, nb, util.ErrClass(msg)), fmt.Sprintf("%s, N=%d", f.name, n), msg)
					}
				}
			} else {
				if strings.HasPrefix(buf, "PANIC") || strings.HasPrefix(whole, "PANIC") || strings.HasPrefix(one, "PANIC") || strings.HasPrefix(seven, "PANIC") {
					// C06's business; nothing to compare
				} else {
					if buf != whole && !(buf == "x" && !strings.HasSuffix(whole, ")E")) {
						class := fmt.Sprintf("length ladder : stream-vs-buffer : %s : %s", f.name, c09Verdicts(buf)+" vs "+c09Verdicts(whole))
						if strings.Contains(doc, "\xff") && c09Verdicts(buf) == c09Verdicts(whole) {
							// one cause whatever the family: Unmarshal keeps an ill-formed byte, the typed stream path replaces it
							class = fmt.Sprintf("length ladder : stream-vs-buffer : into %s : value differs, the text contains an ill-formed UTF-8 byte", d.name)
						}
						c.Violation(class, fmt.Sprintf("%s, N=%d", f.name, n),
							fmt.Sprintf("Unmarshal %s ; Decoder %s", clipTail([]byte(buf)), clipTail([]byte(whole))))
					}
					if one != whole {
						c.Violation(fmt.Sprintf("length ladder : chunking-dependent : %s : one byte per Read : %s", f.name, nb), fmt.Sprintf("%s, N=%d", f.name, n),
							fmt.Sprintf("whole %s ; one byte per Read %s", clipTail([]byte(whole)), clipTail([]byte(one))))
					}
					if seven != whole {
						c.Violation(fmt.Sprintf("length ladder : chunking-dependent : %s : 7 bytes per Read : %s", f.name, nb), fmt.Sprintf("%s, N=%d", f.name, n),
							fmt.Sprintf("whole %s ; 7 bytes per Read %s", clipTail([]byte(whole)), clipTail([]byte(seven))))
					}
				}
			}
			if c.WantSample() {
				c.Sample(fmt.Sprintf("%s, N=%d", f.name, n))
			}
			c.EndCase()
		}
	}
}

func ladderBucket(n int) string {
	switch {
	case n < 256:
		return "N below 256"
	case n < 509:
		return "N 256..508"
	case n < 1020:
		return "N 509..1019"
	case n < 2040:
		return "N 1020..2039"
	}
	return "N from 2040"
}

// ladderFreshPools empties every sync.Pool of the process (two collections: the victim cache survives one).
func ladderFreshPools() {
	runtime.GC()
	runtime.GC()
}
