package props

import (
	"bytes"
	"context"
	stdjson "encoding/json"
	"fmt"
	"runtime"
	"strings"

	json "github.com/goccy/go-json"

	"verif/mc/oracle"
	"verif/mc/props/util"
	"verif/mc/work"
)

// C08, liveness clause: "user MarshalJSON/MarshalText callbacks that allocate,
// trigger garbage collection or grow the stack do not invalidate the
// traversal". The encoder walks the value through uintptr-typed slots, which
// the collector does not see; it must itself keep the root (and whatever it
// reaches through converted pointers) alive. Here the value handed to the
// entry point is referenced by nobody else: it is built inside the call
// expression. A callback half-way through collects twice and then sprays the
// heap with objects of the root's size classes filled with 0xFF, so that
// members read after the callback from freed memory come out as -1 (or crash).
//
// Enumerated: 4 member orders x 5 ways of handing the value over x 9 entry points.

func init() {
	work.Register("C08", "c08.liveness", c08Liveness)
}

var c08Spray []interface{}

// pointerful objects of 16..512 bytes (the span class of an object depends on its size and on
// whether it holds pointers; the values under test hold pointers), every word -1 but the pointer
type (
	c08Sp2 struct {
		p *int
		a [1]int64
	}
	c08Sp4 struct {
		p *int
		a [3]int64
	}
	c08Sp6 struct {
		p *int
		a [5]int64
	}
	c08Sp8 struct {
		p *int
		a [7]int64
	}
	c08Sp10 struct {
		p *int
		a [9]int64
	}
	c08Sp12 struct {
		p *int
		a [11]int64
	}
	c08Sp14 struct {
		p *int
		a [13]int64
	}
	c08Sp16 struct {
		p *int
		a [15]int64
	}
	c08Sp20 struct {
		p *int
		a [19]int64
	}
	c08Sp24 struct {
		p *int
		a [23]int64
	}
	c08Sp32 struct {
		p *int
		a [31]int64
	}
	c08Sp48 struct {
		p *int
		a [47]int64
	}
	c08Sp64 struct {
		p *int
		a [63]int64
	}
)

func c08Fill64(a []int64) {
	for i := range a {
		a[i] = -1
	}
}

type c08Sweeper struct{ N int }

func (s *c08Sweeper) MarshalJSON() ([]byte, error) {
	runtime.GC()
	runtime.GC()
	c08Spray = c08Spray[:0]
	for i := 0; i < 6000; i++ {
		o2, o4, o6, o8, o10, o12, o14, o16 := &c08Sp2{}, &c08Sp4{}, &c08Sp6{}, &c08Sp8{}, &c08Sp10{}, &c08Sp12{}, &c08Sp14{}, &c08Sp16{}
		o20, o24, o32, o48, o64 := &c08Sp20{}, &c08Sp24{}, &c08Sp32{}, &c08Sp48{}, &c08Sp64{}
		c08Fill64(o2.a[:])
		c08Fill64(o4.a[:])
		c08Fill64(o6.a[:])
		c08Fill64(o8.a[:])
		c08Fill64(o10.a[:])
		c08Fill64(o12.a[:])
		c08Fill64(o14.a[:])
		c08Fill64(o16.a[:])
		c08Fill64(o20.a[:])
		c08Fill64(o24.a[:])
		c08Fill64(o32.a[:])
		c08Fill64(o48.a[:])
		c08Fill64(o64.a[:])
		c08Spray = append(c08Spray, o2, o4, o6, o8, o10, o12, o14, o16, o20, o24, o32, o48, o64)
		if i%4 == 0 {
			// pointer-free objects too (strings, numbers)
			b := make([]int64, 2+i%30)
			c08Fill64(b)
			c08Spray = append(c08Spray, b)
		}
	}
	return []byte(fmt.Sprintf(`"swept-%d"`, s.N)), nil
}

type c08SweeperText struct{ N int }

func (s *c08SweeperText) MarshalText() ([]byte, error) {
	(&c08Sweeper{s.N}).MarshalJSON()
	return []byte(fmt.Sprintf("swept-text-%d", s.N)), nil
}

// four member orders: what precedes the callback decides which references the interpreter itself has taken so far
type c08LiveA struct {
	M              map[string]int
	P              *c08Sweeper
	T0, T1, T2, T3 int
	S              string
	L              []int
	Q              *int
}

type c08LiveB struct {
	P              *c08Sweeper
	T0, T1, T2, T3 int
	S              string
	M              map[string]int
	Q              *int
}

type c08LiveC struct {
	I              interface{}
	T0             int
	P              *c08SweeperText
	T1, T2, T3     int
	N              *c08LiveC
	L              []string
	M              map[string]interface{}
	After0, After1 int
}

type c08LiveD struct {
	T0   int
	Kids []*c08LiveD
	P    *c08Sweeper
	T1   int
	S    string
	Q    *int
}

func c08LiveBuilders() []struct {
	name  string
	build func() interface{}
} {
	q := func() *int { v := 77; return &v }
	return []struct {
		name  string
		build func() interface{}
	}{
		{"map, callback, ints, string, slice, pointer", func() interface{} {
			return &c08LiveA{M: map[string]int{"k1": 1, "k2": 2}, P: &c08Sweeper{1}, T0: 10, T1: 11, T2: 12, T3: 13, S: "str-A", L: []int{5, 6, 7}, Q: q()}
		}},
		{"callback first, then ints, string, map, pointer", func() interface{} {
			return &c08LiveB{P: &c08Sweeper{2}, T0: 20, T1: 21, T2: 22, T3: 23, S: "str-B", M: map[string]int{"z": 26}, Q: q()}
		}},
		{"interface, int, text callback, ints, nested pointer, slice, map", func() interface{} {
			return &c08LiveC{I: map[string]interface{}{"i": 1}, T0: 30, P: &c08SweeperText{3}, T1: 31, T2: 32, T3: 33,
				N: &c08LiveC{T0: 34, T1: 35, L: []string{"n"}}, L: []string{"l1", "l2"}, M: map[string]interface{}{"m": "v"}, After0: 38, After1: 39}
		}},
		{"recursive slice of pointers, callback in the second level", func() interface{} {
			return &c08LiveD{T0: 40, Kids: []*c08LiveD{{T0: 41, P: &c08Sweeper{4}, T1: 42, S: "kid", Q: q()}, {T0: 43, T1: 44, S: "kid2"}}, T1: 45, S: "str-D", Q: q()}
		}},
	}
}

func c08Liveness(c *work.Ctx) {
	type handover struct {
		name string
		wrap func(p interface{}) interface{}
	}
	deref := func(p interface{}) interface{} {
		switch v := p.(type) {
		case *c08LiveA:
			return *v
		case *c08LiveB:
			return *v
		case *c08LiveC:
			return *v
		case *c08LiveD:
			return *v
		}
		return p
	}
	hands := []handover{
		{"pointer", func(p interface{}) interface{} { return p }},
		{"value (boxed)", deref},
		{"[]interface{}{pointer}", func(p interface{}) interface{} { return []interface{}{p, 1} }},
		{"map[string]interface{}{value}", func(p interface{}) interface{} { return map[string]interface{}{"a": 0, "v": deref(p)} }},
		{"pointer to pointer", func(p interface{}) interface{} { return &p }},
	}
	type entry struct {
		name   string
		indent bool
		run    func(x interface{}) ([]byte, error)
	}
	entries := []entry{
		{"Marshal", false, func(x interface{}) ([]byte, error) { return json.Marshal(x) }},
		{"MarshalNoEscape", false, func(x interface{}) ([]byte, error) { return json.MarshalNoEscape(x) }},
		{"MarshalContext", false, func(x interface{}) ([]byte, error) { return json.MarshalContext(context.Background(), x) }},
		{"MarshalWithOption(UnorderedMap)", false, func(x interface{}) ([]byte, error) { return json.MarshalWithOption(x, json.UnorderedMap()) }},
		{"MarshalIndent", true, func(x interface{}) ([]byte, error) { return json.MarshalIndent(x, "", " ") }},
		{"Encoder.Encode", false, func(x interface{}) ([]byte, error) {
			var b bytes.Buffer
			err := json.NewEncoder(&b).Encode(x)
			return bytes.TrimSuffix(b.Bytes(), []byte("\n")), err
		}},
		{"Encoder.Encode+SetIndent", true, func(x interface{}) ([]byte, error) {
			var b bytes.Buffer
			e := json.NewEncoder(&b)
			e.SetIndent("", " ")
			err := e.Encode(x)
			return bytes.TrimSuffix(b.Bytes(), []byte("\n")), err
		}},
		{"Encoder.EncodeContext", false, func(x interface{}) ([]byte, error) {
			var b bytes.Buffer
			err := json.NewEncoder(&b).EncodeContext(context.Background(), x)
			return bytes.TrimSuffix(b.Bytes(), []byte("\n")), err
		}},
		{"Marshal+Colorize", false, func(x interface{}) ([]byte, error) {
			return json.MarshalWithOption(x, json.Colorize(&json.ColorScheme{}))
		}},
	}
	for _, b := range c08LiveBuilders() {
		for _, h := range hands {
			for _, e := range entries {
				id := fmt.Sprintf("liveness: %s : handed over as %s : %s", b.name, h.name, e.name)
				if !c.BeginS(id) {
					continue
				}
				var want []byte
				var werr error
				if e.indent {
					want, werr = stdjson.MarshalIndent(h.wrap(b.build()), "", " ")
				} else {
					want, werr = stdjson.Marshal(h.wrap(b.build()))
				}
				var got []byte
				var gerr error
				b, h, e := b, h, e
				// the value exists only as the argument of the call
				p, msg := util.Safe(func() { got, gerr = e.run(h.wrap(b.build())) })
				c.Outcome(fmt.Sprint(p, gerr != nil))
				switch {
				case p:
					c.Violation(fmt.Sprintf("value referenced only by the call, GC in a callback : %s : panic", e.name), id, msg)
				case (gerr == nil) != (werr == nil):
					c.Violation(fmt.Sprintf("value referenced only by the call, GC in a callback : %s : error-mismatch", e.name), id, fmt.Sprintf("go-json err=%v, encoding/json err=%v", gerr, werr))
				case gerr == nil && oracleTokens(got, want) != "" && !(strings.Contains(e.name, "UnorderedMap") && oracle.SameUnordered(got, want)):
					c.Violation(fmt.Sprintf("value referenced only by the call, GC in a callback : %s : members read after the callback differ", e.name), id,
						fmt.Sprintf("go-json %s ; encoding/json %s", clip(got), clip(want)))
				}
				if c.WantSample() {
					c.Sample(id)
				}
				c.EndCase()
			}
		}
	}
	c08Spray = nil
}
