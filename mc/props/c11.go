//go:build vshim
// +build vshim

package props

import (
	"bytes"
	"context"
	"errors"
	"fmt"
	"io"
	"runtime"
	"strings"

	json "github.com/goccy/go-json"

	"verif/mc/explore"
	"verif/mc/oracle"
	"verif/mc/props/util"
	"verif/mc/work"

	"reflect"
)

// C11 — results depend only on the arguments, never on earlier calls.

func init() {
	work.Register("C11", "c11.histories", c11Histories)
	work.Register("C11", "c11.bfs", c11BFS)
}

type c11Err struct{ N int }

func (c11Err) MarshalJSON() ([]byte, error) { return nil, errors.New("marshaler failed") }

type c11Panic struct{ N int }

func (c11Panic) MarshalJSON() ([]byte, error) { panic("marshaler panicked") }

// c11Reentrant's marshaler calls back into the library.
type c11Reentrant struct{ P0, P1, P2, P3 int }

func (r c11Reentrant) MarshalJSON() ([]byte, error) {
	return json.Marshal(map[string]int{"P0": r.P0, "P1": r.P1, "P2": r.P2, "P3": r.P3})
}

type c11Holder struct {
	A int
	R c11Reentrant
	B int
	C int
}

type c11Mixed struct {
	A int               `json:"a"`
	S string            `json:"s"`
	M map[string]int    `json:"m"`
	P *c11Mixed         `json:"p,omitempty"`
	I interface{}       `json:"i"`
	E []c11Err          `json:"e,omitempty"`
	X map[string]string `json:"x,omitempty"`
}

// c11Ctx reports what the context handed to its context-aware callbacks carries: the caller's context is an
// argument of MarshalContext / UnmarshalContext only, never of a later call.
type c11Ctx struct{ Seen string }

type c11Key struct{}

type c11QC struct {
	A int     `json:"a"`
	B int     `json:"b"`
	C c11Ctx  `json:"c"`
	P *c11Ctx `json:"p"`
}

func c11See(ctx context.Context) string {
	if ctx == nil {
		return "nil context"
	}
	if v, ok := ctx.Value(c11Key{}).(string); ok {
		return "context value " + v
	}
	return "context without value"
}

func (c c11Ctx) MarshalJSON(ctx context.Context) ([]byte, error) {
	return []byte(`"` + c11See(ctx) + `"`), nil
}

func (c *c11Ctx) UnmarshalJSON(ctx context.Context, b []byte) error {
	c.Seen = c11See(ctx) + " " + string(b)
	return nil
}

// c11Rec: a slice decoder that is re-entered while it is running (its pooled scratch arrays nest).
type c11Rec struct {
	V    int      `json:"v"`
	Kids []c11Rec `json:"kids,omitempty"`
}

type c11Dst struct {
	A int    `json:"a"`
	B string `json:"b"`
	N int    `json:"n,string"`
}

// c11Env holds the reusable handles of one history.
type c11Env struct {
	q1, q2 *json.FieldQuery
	q3     *json.FieldQuery // the names of q2 in the same order, but flat
	q4     *json.FieldQuery // members of c11QC
	path   *json.Path
	slot   []interface{} // one interface slot that several calls of a history encode (its address is what matters)
	encBuf bytes.Buffer
	enc    *json.Encoder
	decIn  bytes.Buffer
	dec    *json.Decoder
	// writers handed to calls of this history (DebugWith / DebugDOT); a call that has returned must not be
	// written to any more
	writers []*c11Writer
}

// c11Writer records what is written to it and whether it was closed.
type c11Writer struct {
	n      int
	closed bool
}

func (w *c11Writer) Write(p []byte) (int, error) { w.n += len(p); return len(p), nil }
func (w *c11Writer) Close() error                { w.closed = true; return nil }

func (e *c11Env) writer() *c11Writer {
	w := &c11Writer{}
	e.writers = append(e.writers, w)
	return w
}

func (e *c11Env) writerState() string {
	var sb strings.Builder
	for _, w := range e.writers {
		fmt.Fprintf(&sb, "%d/%v ", w.n, w.closed)
	}
	return sb.String()
}

func newC11Env() *c11Env {
	e := &c11Env{}
	e.q1, _ = json.BuildFieldQuery("a", "s")
	e.q2, _ = json.BuildFieldQuery("m", json.BuildSubFieldQuery("p").Fields("a"))
	e.q3, _ = json.BuildFieldQuery("m", "p", "a")
	e.q4, _ = json.BuildFieldQuery("a", "c", "p")
	e.path, _ = json.CreatePath("$.a.b")
	e.slot = make([]interface{}, 1)
	e.enc = json.NewEncoder(&e.encBuf)
	e.dec = json.NewDecoder(&e.decIn)
	return e
}

type c11Call struct {
	name string
	run  func(e *c11Env) string
}

// c11Scheme: markers no other call uses.
var c11Scheme = func() *json.ColorScheme {
	f := func(h string) json.ColorFormat {
		return json.ColorFormat{Header: "<" + h + ">", Footer: "</" + h + ">"}
	}
	return &json.ColorScheme{Int: f("i"), Uint: f("u"), Float: f("f"), Bool: f("b"), String: f("s"), Binary: f("y"), ObjectKey: f("k"), Null: f("n")}
}()

func r2(b []byte, err error) string {
	if err != nil {
		return "error:" + util.ErrClass(err.Error())
	}
	if len(b) > 4096 {
		return fmt.Sprintf("%d bytes, fnv %x, head %s", len(b), fnvHash(b), b[:64])
	}
	return string(b)
}

func fnvHash(b []byte) uint64 {
	h := uint64(14695981039346656037)
	for _, c := range b {
		h ^= uint64(c)
		h *= 1099511628211
	}
	return h
}

func c11Calls() []c11Call {
	val := c11Mixed{A: 1, S: "a<b>\xff", M: map[string]int{"z": 1, "a": 2, "m": 3}, P: &c11Mixed{A: 2, I: []interface{}{1, "x"}}, I: map[string]interface{}{"k": 1.5, "b": nil}}
	cyc := &c11Mixed{A: 1}
	cyc.P = cyc
	big := make([]string, 12000)
	for i := range big {
		big[i] = "0123456789abcdefghij"
	}
	mid := make([]int, 400)
	dup := `{"a":1,"b":"x","a":2,"b":"y"}`
	discard := json.DebugWith(io.Discard)
	dec := func(doc string, f func(b []byte, v interface{}) error) string {
		var v c11Dst
		v.A, v.B, v.N = 7, "pre", 7
		err := f([]byte(doc), &v)
		if err != nil {
			return fmt.Sprintf("%+v error:%s", v, util.ErrClass(err.Error()))
		}
		return fmt.Sprintf("%+v", v)
	}
	return []c11Call{
		{"Marshal", func(e *c11Env) string { return r2(json.Marshal(val)) }},
		{"Marshal(marshaler error)", func(e *c11Env) string { return r2(json.Marshal(c11Mixed{A: 1, E: []c11Err{{1}}})) }},
		{"Marshal(marshaler panic, recovered)", func(e *c11Env) string {
			var out string
			if p, msg := util.Safe(func() { out = r2(json.Marshal(map[string]interface{}{"a": 1, "p": c11Panic{}})) }); p {
				return "panic:" + msg
			}
			return out
		}},
		{"Marshal(member whose marshaler re-enters the library)", func(e *c11Env) string {
			return r2(json.Marshal(c11Holder{A: 1, R: c11Reentrant{100, 101, 102, 103}, B: 2, C: 3}))
		}},
		{"Marshal(unsupported type)", func(e *c11Env) string { return r2(json.Marshal(map[string]interface{}{"c": make(chan int)})) }},
		{"Marshal(cyclic value)", func(e *c11Env) string { return r2(json.Marshal(cyc)) }},
		{"MarshalIndent", func(e *c11Env) string { return r2(json.MarshalIndent(val, ">", "\t")) }},
		{"Marshal+Colorize", func(e *c11Env) string { return r2(json.MarshalWithOption(val, json.Colorize(json.DefaultColorScheme))) }},
		{"Marshal+Colorize(another scheme)", func(e *c11Env) string { return r2(json.MarshalWithOption(val, json.Colorize(c11Scheme))) }},
		{"Marshal+Colorize(nil), recovered", func(e *c11Env) string {
			var out string
			if p, msg := util.Safe(func() { out = r2(json.MarshalWithOption(val, json.Colorize(nil))) }); p {
				return "panic:" + util.ErrClass(msg)
			}
			return out
		}},
		{"Marshal+Debug", func(e *c11Env) string { return r2(json.MarshalWithOption(val, discard)) }},
		{"Marshal+Debug (no writer named)", func(e *c11Env) string { return r2(json.MarshalWithOption(val, json.Debug())) }},
		{"Marshal+Debug (no writer named) of a value whose marshaler panics, recovered", func(e *c11Env) string {
			var out string
			if p, msg := util.Safe(func() {
				out = r2(json.MarshalWithOption(map[string]interface{}{"a": 1, "p": c11Panic{}}, json.Debug()))
			}); p {
				out = "panic:" + util.ErrClass(msg)
			}
			return out
		}},
		{"Marshal+DebugWith(writer)", func(e *c11Env) string {
			w := e.writer()
			return r2(json.MarshalWithOption(val, json.Debug(), json.DebugWith(w))) + fmt.Sprintf(" dump:%v", w.n > 0)
		}},
		{"Marshal+DebugDOT(writer), without Debug", func(e *c11Env) string {
			w := e.writer()
			return r2(json.MarshalWithOption(val, json.DebugDOT(w))) + fmt.Sprintf(" dot:%d closed:%v", w.n, w.closed)
		}},
		{"Marshal+Debug+DebugDOT(writer)", func(e *c11Env) string {
			w := e.writer()
			return r2(json.MarshalWithOption(val, json.Debug(), json.DebugDOT(w))) + fmt.Sprintf(" dot:%v closed:%v", w.n > 0, w.closed)
		}},
		{"Marshal+DebugWith(writer) of a value whose marshaler panics, recovered", func(e *c11Env) string {
			w := e.writer()
			var out string
			if p, msg := util.Safe(func() {
				out = r2(json.MarshalWithOption(map[string]interface{}{"a": 1, "p": c11Panic{}}, json.Debug(), json.DebugWith(w)))
			}); p {
				out = "panic:" + util.ErrClass(msg)
			}
			return out + fmt.Sprintf(" dump:%v", w.n > 0)
		}},
		{"Marshal+UnorderedMap", func(e *c11Env) string {
			return r2(json.MarshalWithOption(map[string]int{"only": 1}, json.UnorderedMap()))
		}},
		{"Marshal+DisableHTMLEscape+DisableNormalizeUTF8", func(e *c11Env) string {
			return r2(json.MarshalWithOption(val, json.DisableHTMLEscape(), json.DisableNormalizeUTF8()))
		}},
		{"MarshalNoEscape", func(e *c11Env) string { return r2(json.MarshalNoEscape(val)) }},
		{"MarshalContext(query 1)", func(e *c11Env) string {
			return r2(json.MarshalContext(json.SetFieldQueryToContext(context.Background(), e.q1), val))
		}},
		{"MarshalContext(query 2)", func(e *c11Env) string {
			return r2(json.MarshalContext(json.SetFieldQueryToContext(context.Background(), e.q2), val))
		}},
		{"MarshalContext(query 2 flattened: same names, no nesting)", func(e *c11Env) string {
			return r2(json.MarshalContext(json.SetFieldQueryToContext(context.Background(), e.q3), val))
		}},
		{"MarshalContext(no query)", func(e *c11Env) string { return r2(json.MarshalContext(context.Background(), val)) }},
		{"MarshalContext / MarshalIndent / MarshalNoEscape / Encoder+indent (marshaler error, unsupported type)", func(e *c11Env) string {
			// every entry point has its own error path on which the pooled context is released
			bad := []interface{}{c11Mixed{A: 1, E: []c11Err{{1}}}, map[string]interface{}{"c": make(chan int)}}
			var sb strings.Builder
			for _, x := range bad {
				sb.WriteString(r2(json.MarshalContext(context.Background(), x)) + " | ")
				sb.WriteString(r2(json.MarshalIndent(x, "", " ")) + " | ")
				sb.WriteString(r2(json.MarshalNoEscape(x)) + " | ")
				sb.WriteString(r2(json.MarshalWithOption(x, json.Colorize(json.DefaultColorScheme))) + " | ")
				var w bytes.Buffer
				en := json.NewEncoder(&w)
				en.SetIndent("", " ")
				sb.WriteString(r2(nil, en.EncodeContext(context.Background(), x)) + " | ")
			}
			return sb.String()
		}},
		{"MarshalContext(context with a value, context-aware marshaler)", func(e *c11Env) string {
			return r2(json.MarshalContext(context.WithValue(context.Background(), c11Key{}, "secret"), []interface{}{c11Ctx{}, &c11Ctx{}}))
		}},
		{"fresh Decoder.DecodeContext(context with a value, context-aware unmarshalers)", func(e *c11Env) string {
			v := struct {
				A c11Ctx
				I interface{}
			}{I: &c11Ctx{}}
			err := json.NewDecoder(strings.NewReader(`{"A":1,"I":2}`)).DecodeContext(context.WithValue(context.Background(), c11Key{}, "secret"), &v)
			return fmt.Sprintf("%+v %+v %v", v.A, v.I, err)
		}},
		// one field query, several parent contexts: what a context-aware marshaler is handed is derived from THIS
		// call's context every time (the sequence is inside one call of the alphabet because the histories are short;
		// a wrong element is marked, and a marked cold result is reported)
		{"MarshalContext x5 with one field query object and five parent contexts", func(e *c11Env) string {
			var sb strings.Builder
			for i := 0; i < 5; i++ {
				want := fmt.Sprintf("t%d", i)
				ctx := json.SetFieldQueryToContext(context.WithValue(context.Background(), c11Key{}, want), e.q4)
				out := r2(json.MarshalContext(ctx, c11QC{A: i, C: c11Ctx{}, P: &c11Ctx{}}))
				sb.WriteString(out + " ")
				if strings.Count(out, "context value "+want) != 2 {
					sb.WriteString(fmt.Sprintf(" !! call %d was not handed its own context ", i))
				}
			}
			return sb.String()
		}},
		{"MarshalContext x6 with equal field queries built afresh and six parent contexts, indented", func(e *c11Env) string {
			var sb strings.Builder
			for i := 0; i < 6; i++ {
				want := fmt.Sprintf("u%d", i)
				q, _ := json.BuildFieldQuery("a", "c", "p")
				ctx := json.SetFieldQueryToContext(context.WithValue(context.Background(), c11Key{}, want), q)
				var w bytes.Buffer
				en := json.NewEncoder(&w)
				en.SetIndent("", " ")
				err := en.EncodeContext(ctx, c11QC{A: i, C: c11Ctx{}, P: &c11Ctx{}})
				out := fmt.Sprintf("%s %v", w.String(), err)
				sb.WriteString(out + " ")
				if strings.Count(out, "context value "+want) != 2 {
					sb.WriteString(fmt.Sprintf(" !! call %d was not handed its own context ", i))
				}
			}
			return sb.String()
		}},
		{"Marshal(context-aware marshaler)", func(e *c11Env) string {
			return r2(json.Marshal([]interface{}{c11Ctx{}, &c11Ctx{}}))
		}},
		{"UnmarshalContext(context with a value, context-aware unmarshalers)", func(e *c11Env) string {
			v := struct {
				A c11Ctx
				I interface{}
			}{I: &c11Ctx{}}
			err := json.UnmarshalContext(context.WithValue(context.Background(), c11Key{}, "secret"), []byte(`{"A":1,"I":2}`), &v)
			return fmt.Sprintf("%+v %+v %v", v.A, v.I, err)
		}},
		{"Unmarshal(context-aware unmarshalers)", func(e *c11Env) string {
			v := struct {
				A c11Ctx
				I interface{}
			}{I: &c11Ctx{}}
			err := json.Unmarshal([]byte(`{"A":1,"I":2}`), &v)
			return fmt.Sprintf("%+v %+v %v", v.A, v.I, err)
		}},
		{"Decoder.Decode(context-aware unmarshalers)", func(e *c11Env) string {
			v := struct {
				A c11Ctx
				I interface{}
			}{I: &c11Ctx{}}
			err := json.NewDecoder(strings.NewReader(`{"A":1,"I":2}`)).Decode(&v)
			return fmt.Sprintf("%+v %+v %v", v.A, v.I, err)
		}},
		{"Marshal(shared interface slot holding a failing marshaler)", func(e *c11Env) string {
			e.slot[0] = c11Err{}
			defer func() { e.slot[0] = nil }()
			return r2(json.Marshal(e.slot))
		}},
		{"Marshal(shared interface slot holding a value whose encoding is unsupported)", func(e *c11Env) string {
			e.slot[0] = make(chan int)
			defer func() { e.slot[0] = nil }()
			return r2(json.MarshalIndent(e.slot, "", " "))
		}},
		{"Marshal(1100-deep acyclic value that ends in the shared interface slot)", func(e *c11Env) string {
			// beyond 1000 nested frames the encoder compares addresses with the ones it remembers: what an
			// earlier call remembered must be forgotten
			e.slot[0] = 1
			defer func() { e.slot[0] = nil }()
			var v interface{} = e.slot
			for i := 0; i < 1100; i++ {
				v = []interface{}{v}
			}
			b, err := json.Marshal(v)
			if err != nil {
				return "error:" + util.ErrClass(err.Error())
			}
			return fmt.Sprintf("%d bytes, fnv %x", len(b), fnvHash(b))
		}},
		{"Encoder.Encode", func(e *c11Env) string {
			e.encBuf.Reset()
			err := e.enc.Encode(val)
			return r2(append([]byte(nil), e.encBuf.Bytes()...), err)
		}},
		{"Encoder.Encode(cyclic value)", func(e *c11Env) string {
			e.encBuf.Reset()
			err := e.enc.Encode(cyc)
			return r2(append([]byte(nil), e.encBuf.Bytes()...), err)
		}},
		{"Marshal(256 KiB output)", func(e *c11Env) string { return r2(json.Marshal(big)) }},
		{"Marshal(2 KiB output)", func(e *c11Env) string { return r2(json.Marshal(mid)) }},
		{"MarshalIndent(2 KiB output)", func(e *c11Env) string { return r2(json.MarshalIndent(mid, "", "  ")) }},
		{"Unmarshal", func(e *c11Env) string {
			return dec(`{"a":5,"b":"x","n":"9"}`, func(b []byte, v interface{}) error { return json.Unmarshal(b, v) })
		}},
		{"Unmarshal(syntax error)", func(e *c11Env) string {
			return dec(`{"a":5,"b":"x",`, func(b []byte, v interface{}) error { return json.Unmarshal(b, v) })
		}},
		{"Unmarshal(deep syntax error)", func(e *c11Env) string {
			var v interface{}
			err := json.Unmarshal([]byte(`{"a":[{"b":[1,2,{"c":tru}]}]}`), &v)
			return fmt.Sprintf("%v %v", v, err != nil)
		}},
		{"Unmarshal(type error)", func(e *c11Env) string {
			return dec(`{"a":"str","b":"x"}`, func(b []byte, v interface{}) error { return json.Unmarshal(b, v) })
		}},
		{"Unmarshal(,string error)", func(e *c11Env) string {
			return dec(`{"a":1,"n":"zz"}`, func(b []byte, v interface{}) error { return json.Unmarshal(b, v) })
		}},
		{"Unmarshal(duplicate keys)", func(e *c11Env) string {
			return dec(dup, func(b []byte, v interface{}) error { return json.Unmarshal(b, v) })
		}},
		{"UnmarshalWithOption(first-win, duplicate keys)", func(e *c11Env) string {
			return dec(dup, func(b []byte, v interface{}) error {
				return json.UnmarshalWithOption(b, v, json.DecodeFieldPriorityFirstWin())
			})
		}},
		{"UnmarshalContext(duplicate keys)", func(e *c11Env) string {
			return dec(dup, func(b []byte, v interface{}) error { return json.UnmarshalContext(context.Background(), b, v) })
		}},
		{"UnmarshalNoEscape(duplicate keys)", func(e *c11Env) string {
			return dec(dup, func(b []byte, v interface{}) error { return json.UnmarshalNoEscape(b, v) })
		}},
		{"Unmarshal(2 KiB string)", func(e *c11Env) string {
			var s string
			err := json.Unmarshal([]byte(`"`+strings.Repeat("ab\\n", 512)+`"`), &s)
			return fmt.Sprintf("%d %x %v", len(s), fnvHash([]byte(s)), err)
		}},
		{"Decoder.Decode(type error, then next document)", func(e *c11Env) string {
			e.decIn.WriteString(`{"a":"str"} {"a":3,"b":"ok"} `)
			var v1, v2 c11Dst
			e1 := e.dec.Decode(&v1)
			e2 := e.dec.Decode(&v2)
			return fmt.Sprintf("%+v %v %+v %v", v1, e1 != nil, v2, e2 != nil)
		}},
		{"Decoder.Decode(array of a recursive type, input ends after an element of the inner array)", func(e *c11Env) string {
			var v []c11Rec
			err := json.NewDecoder(strings.NewReader(`[{"v":1,"kids":[{"v":7}`)).Decode(&v)
			return fmt.Sprintf("%+v %v", v, err != nil)
		}},
		{"Unmarshal(array of a recursive type, nested)", func(e *c11Env) string {
			var v []c11Rec
			err := json.Unmarshal([]byte(`[{"v":1,"kids":[{"v":2},{"v":3,"kids":[{"v":5}]}]},{"v":4}]`), &v)
			return fmt.Sprintf("%+v %v", v, err)
		}},
		{"Decoder.Decode(array of a recursive type, nested)", func(e *c11Env) string {
			var v []c11Rec
			err := json.NewDecoder(strings.NewReader(`[{"v":1,"kids":[{"v":2},{"v":3,"kids":[{"v":5}]}]},{"v":4}]`)).Decode(&v)
			return fmt.Sprintf("%+v %v", v, err)
		}},
		{"Unmarshal([]struct, syntax error after two complete elements)", func(e *c11Env) string {
			var v []c11Dst
			err := json.Unmarshal([]byte(`[{"a":1,"b":"w","n":"5"},{"a":2,"b":"x","n":"6"} {}]`), &v)
			return fmt.Sprintf("%+v %v", v, err != nil)
		}},
		{"Decoder.Decode([]struct, input ends after two complete elements)", func(e *c11Env) string {
			var v []c11Dst
			err := json.NewDecoder(strings.NewReader(`[{"a":1,"b":"w","n":"5"},{"a":2,"b":"x","n":"6"}`)).Decode(&v)
			return fmt.Sprintf("%+v %v", v, err != nil)
		}},
		{"Unmarshal([]struct, elements omit members)", func(e *c11Env) string {
			var v []c11Dst
			err := json.Unmarshal([]byte(`[{},{"a":7},{"b":"only"}]`), &v)
			return fmt.Sprintf("%+v %v", v, err)
		}},
		{"Decoder.Decode([]struct, elements omit members)", func(e *c11Env) string {
			var v []c11Dst
			err := json.NewDecoder(strings.NewReader(`[{},{"a":7},{"b":"only"}]`)).Decode(&v)
			return fmt.Sprintf("%+v %v", v, err)
		}},
		{"Decoder.DecodeContext then Decode", func(e *c11Env) string {
			e.decIn.WriteString(dup + " " + dup + " ")
			var v1, v2 c11Dst
			e1 := e.dec.DecodeWithOption(&v1, json.DecodeFieldPriorityFirstWin())
			e2 := e.dec.Decode(&v2)
			return fmt.Sprintf("%+v %v %+v %v", v1, e1 != nil, v2, e2 != nil)
		}},
		{"Path.Extract", func(e *c11Env) string {
			r, err := e.path.Extract([]byte(`{"a":{"b":[1,2]},"c":{"b":3}}`))
			return fmt.Sprintf("%q %v", r, err != nil)
		}},
		{"Path.Extract(failing document)", func(e *c11Env) string {
			r, err := e.path.Extract([]byte(`{"a":{"b":[1,`))
			return fmt.Sprintf("%q %v", r, err != nil)
		}},
		{"Path.Unmarshal", func(e *c11Env) string {
			var v []interface{}
			err := e.path.Unmarshal([]byte(`{"a":{"b":{"x":1}}}`), &v)
			return fmt.Sprintf("%v %v", v, err != nil)
		}},
		{"Path.Get", func(e *c11Env) string {
			var v interface{}
			var err error
			if p, msg := util.Safe(func() { err = e.path.Get(map[string]interface{}{"a": map[string]interface{}{"b": 5}}, &v) }); p {
				return "panic:" + util.ErrClass(msg)
			}
			return fmt.Sprintf("%v %v", v, err != nil)
		}},
		{"Compact/Indent", func(e *c11Env) string {
			var b1, b2 bytes.Buffer
			e1 := json.Compact(&b1, []byte(` { "a" : [ 1 , "<" ] } `))
			e2 := json.Indent(&b2, []byte(`{"a":[1,2]}`), "p", "i")
			return fmt.Sprintf("%s %v %s %v", b1.String(), e1 != nil, b2.String(), e2 != nil)
		}},
		{"Compact/Indent(invalid text)", func(e *c11Env) string {
			var b1, b2 bytes.Buffer
			e1 := json.Compact(&b1, []byte(`{"a":[1,}`))
			e2 := json.Indent(&b2, []byte(`{"a" 1}`), "p", "i")
			return fmt.Sprintf("%s %v %s %v", b1.String(), e1 != nil, b2.String(), e2 != nil)
		}},
		{"Valid", func(e *c11Env) string {
			return fmt.Sprint(json.Valid([]byte(`{"a":[1,2,{"b":null}]}`)), json.Valid([]byte(`{"a":`)))
		}},
	}
}

func c11Reset() {
	json.VerifResetCaches()
	json.VerifResetPools()
}

func c11State() string {
	return json.VerifDumpState() + " || " + json.VerifDumpPools()
}

func c11SetPool(f func(n int) int) {
	json.VerifShimSet(json.VerifShimHooks{PoolGet: f})
}

const c11DoublePut = " !! an object was put into a pool that already held it"

func c11RunCall(cl *c11Call, e *c11Env) (out string) {
	earlier := len(e.writers)
	before := e.writerState()
	if p, msg := util.Safe(func() { out = cl.run(e) }); p {
		out = "PANIC:" + util.ErrClass(msg)
	}
	// the writers of EARLIER calls of the history have received nothing and have not been closed by this call
	now := e.writerState()
	if cut := len(before); len(now) < cut || now[:cut] != before {
		out += fmt.Sprintf(" !! this call wrote to / closed a writer that was handed to an earlier call (%d earlier writers: %s-> %s)", earlier, before, now[:len(before)])
	}
	// generic pool invariant (the pool shim counts violations): two later Gets would hand the object to two users
	if json.VerifPoolDoublePuts() > 0 {
		out += c11DoublePut
	}
	return out
}

// c11Cold computes the cold result of every call, and validates the reset
// hook against real cold state: the shard's first call of a fresh process
// (before any reset) must equal the result after a reset.
func c11Cold(c *work.Ctx, calls []c11Call) []string {
	k := c.Shard % len(calls)
	c11SetPool(nil)
	fresh := c11RunCall(&calls[k], newC11Env())
	cold := make([]string, len(calls))
	for i := range calls {
		c11Reset()
		cold[i] = c11RunCall(&calls[i], newC11Env())
		if c.Shard == 0 && strings.Contains(cold[i], " !! call ") {
			c.Violation("self-checking call : "+calls[i].name+" : wrong alone, on cold caches", calls[i].name, clipS(cold[i], 400))
		}
		if c.Shard == 0 && strings.HasSuffix(cold[i], c11DoublePut) {
			c.Violation("pool : "+calls[i].name+" alone puts an object into a pool twice", calls[i].name, cold[i])
		}
	}
	c.RefCheck(1)
	if fresh != cold[k] {
		c.HarnessError(fmt.Sprintf("reset hook does not reproduce fresh-process state for %s: fresh %s, after reset %s", calls[k].name, clip([]byte(fresh)), clip([]byte(cold[k]))))
	}
	return cold
}

func c11Histories(c *work.Ctx) {
	calls := c11Calls()
	cold := c11Cold(c, calls)
	depth := 2
	if !c.Quick() {
		depth = 3
	}
	c.SelfSharded = true
	n := len(calls)
	idx := make([]int, depth)
	var ord int
	for l := 2; l <= depth; l++ {
		for i := range idx[:l] {
			idx[i] = 0
		}
		for {
			// histories of length 3: a fixed thirty-second of them (the alphabet has grown to 75 calls; all 420 000 take
			// more than an hour on 16 cores). The subset is a function of the history, so every run explores the same one.
			if ord%c.NShards == c.Shard && (l < 3 || (idx[0]*7+idx[1]*3+idx[2])%32 == 0) {
				hist := append([]int(nil), idx[:l]...)
				// pool answers: the default (most recent object) and every single deviation
				ex := &explore.Explorer{Bound: 1}
				ex.Run(func(ch *explore.Chooser) {
					var names []string
					for _, k := range hist {
						names = append(names, calls[k].name)
					}
					id := strings.Join(names, " ; ")
					// the body always runs (it discovers the pool choice points); it is judged only when owned
					judge := c.BeginS(id)
					c11Reset()
					c11SetPool(func(np int) int {
						if np == 0 {
							return 1
						}
						ar := 2
						if np >= 2 {
							ar = 3
						}
						return ch.Deviate(ar)
					})
					env := newC11Env()
					for step, k := range hist {
						got := c11RunCall(&calls[k], env)
						if !judge {
							continue
						}
						c.Outcome(got)
						if got != cold[k] {
							// canonical minimal history: the earliest single earlier call that alone causes it
							cause := "several earlier calls"
							for _, pj := range hist[:step] {
								c11Reset()
								c11SetPool(nil)
								e2 := newC11Env()
								c11RunCall(&calls[pj], e2)
								if c11RunCall(&calls[k], e2) != cold[k] {
									cause = calls[pj].name
									break
								}
							}
							c.Violation(fmt.Sprintf("history : [%s] then [%s] differs from its cold result", cause, calls[k].name), id+fmt.Sprintf(" pool choices %v", ch.Choices()),
								fmt.Sprintf("step %d (%s) gives %s ; as the first call after a reset it gives %s", step, calls[k].name, clip([]byte(got)), clip([]byte(cold[k]))))
							break
						}
					}
					c11SetPool(nil)
					if judge {
						if c.WantSample() {
							c.Sample(id)
						}
						c.EndCase()
					}
				})
			}
			ord++
			k := l - 1
			for k >= 0 {
				idx[k]++
				if idx[k] < n {
					break
				}
				idx[k] = 0
				k--
			}
			if k < 0 {
				break
			}
		}
	}
}

// c11BFS: explicit-state search. A state is the shortest call history reaching
// it; states are deduplicated on the canonical dump of the library's global
// state (type caches, query caches, pooled objects); the invariant (every call
// gives its cold result) is evaluated on every transition.
func c11BFS(c *work.Ctx) {
	calls := c11Calls()
	cold := c11Cold(c, calls)
	maxDepth := 3
	if !c.Quick() {
		maxDepth = 4
	}
	maxStates := 6000
	if !c.Quick() {
		maxStates = 9000
	}
	c11SetPool(nil)
	c.SelfSharded = true
	build := func(hist []int) (*c11Env, string) {
		c11Reset()
		env := newC11Env()
		for _, k := range hist {
			c11RunCall(&calls[k], env)
		}
		return env, c11State() + " || handles " + env.path.PathString()
	}
	// the search is partitioned by the first call of the history: shard k explores the
	// histories that begin with call k (deduplication is per partition)
	transitions := 0
	seenAll := 0
	for first := range calls {
		if first%c.NShards != c.Shard {
			continue
		}
		seen := map[string]bool{}
		frontier := [][]int{}
		{
			_, st := build([]int{first})
			seen[st] = true
			frontier = append(frontier, []int{first})
		}
		for depth := 1; depth < maxDepth && len(frontier) > 0; depth++ {
			var next [][]int
			for _, hist := range frontier {
				if c.TimeUp() {
					c.NotExhaustive(fmt.Sprintf("c11.bfs: deadline reached at depth %d of partition %s (%d states so far); the shallower depths were explored completely", depth+1, calls[first].name, len(seen)))
					next = nil
					break
				}
				for k := range calls {
					h2 := append(append([]int(nil), hist...), k)
					env, _ := build(hist)
					var names []string
					for _, x := range h2 {
						names = append(names, calls[x].name)
					}
					id := "bfs: " + strings.Join(names, " ; ")
					judged := c.BeginS(id)
					got := c11RunCall(&calls[k], env)
					transitions++
					st := c11State() + " || handles " + env.path.PathString()
					if judged {
						c.Outcome(got)
						if got != cold[k] {
							c.Violation(fmt.Sprintf("history : [%s] then [%s] differs from its cold result", c11Cause(calls, cold, hist, k), calls[k].name), id,
								fmt.Sprintf("%s gives %s ; as the first call after a reset it gives %s", calls[k].name, clip([]byte(got)), clip([]byte(cold[k]))))
						}
						c.EndCase()
					}
					if !seen[st] && len(seen) < maxStates {
						seen[st] = true
						next = append(next, h2)
					}
				}
			}
			frontier = next
			if len(seen) >= maxStates {
				c.NotExhaustive(fmt.Sprintf("c11.bfs: state cap %d per partition reached at depth %d (partition %s)", maxStates, depth+1, calls[first].name))
				break
			}
		}
		seenAll += len(seen)
		if c.WantSample() {
			for k := range seen {
				c.Sample("library state: " + clip([]byte(k)))
				break
			}
		}
	}
	c.Count("bfs_states", int64(seenAll))
	c.Count("bfs_transitions", int64(transitions))
}

func c11Cause(calls []c11Call, cold []string, hist []int, k int) string {
	for _, pj := range hist {
		c11Reset()
		e2 := newC11Env()
		c11RunCall(&calls[pj], e2)
		if c11RunCall(&calls[k], e2) != cold[k] {
			return calls[pj].name
		}
	}
	return "several earlier calls"
}

var _ = oracle.Canon
var _ = reflect.TypeOf

// c11.gcprobe: which single call leaves the heap in a state the collector rejects?
func init() {
	work.Register("C11", "c11.gcprobe", func(c *work.Ctx) {
		calls := c11Calls()
		c11SetPool(nil)
		for i := range calls {
			for j := range calls {
				if !c.BeginS(calls[i].name + " ; " + calls[j].name + " ; GC") {
					continue
				}
				c11Reset()
				e := newC11Env()
				c11RunCall(&calls[i], e)
				c11RunCall(&calls[j], e)
				runtime.GC()
				runtime.GC()
				c.Outcome("ok")
				c.EndCase()
			}
		}
	})
}
