//go:build vshim
// +build vshim

package props

import (
	"fmt"
	"reflect"

	stdjson "encoding/json"

	json "github.com/goccy/go-json"

	"verif/mc/oracle"
	"verif/mc/props/util"
	"verif/mc/work"
)

// c14.order — "how a value is processed is determined by its own type alone ... whatever other types the program
// has processed before": groups of struct types that are related structurally (they embed each other by pointer,
// refer to each other through members, share an embedded struct, one contains the other). For every ordered
// pair (first, second) of a group: with cold caches, process a value of `first`, then a value of `second`; the
// result for `second` must be its cold result and encoding/json's. Both directions (decode first / encode first).

func init() {
	work.Register("C14", "c14.order", c14Order)
	work.Register("C11", "c11.order", c14Order)
}

type OrdA struct {
	*OrdB
	Y int
}
type OrdB struct {
	*OrdA
	X int
}
type OrdC struct {
	B *OrdD
	V int
}
type OrdD struct {
	C *OrdC
	W string
}
type OrdShared struct{ S, T int }
type OrdE struct {
	OrdShared
	S string // shadows OrdShared.S
}
type OrdF struct {
	OrdShared
	U int
}
type OrdG struct {
	E OrdE
	F OrdF
	P OrdShared
}
type OrdH struct {
	G   *OrdG
	Sh  OrdShared
	Arr [2]OrdE
}

func c14Order(c *work.Ctx) {
	type item struct {
		t   reflect.Type
		doc string
		val func() interface{}
	}
	one, two := 1, 2
	_ = two
	groups := [][]item{
		{
			{reflect.TypeOf(OrdA{}), `{"X":1,"Y":2}`, func() interface{} { return OrdA{OrdB: &OrdB{X: 5}, Y: 6} }},
			{reflect.TypeOf(OrdB{}), `{"X":1,"Y":2}`, func() interface{} { return OrdB{OrdA: &OrdA{Y: 7}, X: 8} }},
		},
		{
			{reflect.TypeOf(OrdC{}), `{"B":{"C":{"V":3},"W":"w"},"V":"bad"}`, func() interface{} { return OrdC{B: &OrdD{W: "x"}, V: one} }},
			{reflect.TypeOf(OrdD{}), `{"C":{"B":{"W":5},"V":4},"W":"w"}`, func() interface{} { return OrdD{C: &OrdC{V: 9}, W: "y"} }},
		},
		{
			{reflect.TypeOf(OrdE{}), `{"S":"s","T":2}`, func() interface{} { return OrdE{OrdShared{1, 2}, "e"} }},
			{reflect.TypeOf(OrdF{}), `{"S":1,"T":2,"U":3}`, func() interface{} { return OrdF{OrdShared{3, 4}, 5} }},
			{reflect.TypeOf(OrdShared{}), `{"S":7,"T":8}`, func() interface{} { return OrdShared{9, 10} }},
			{reflect.TypeOf(OrdG{}), `{"E":{"S":"s","T":2},"F":{"S":1,"T":2,"U":3},"P":{"S":4,"T":5}}`, func() interface{} {
				return OrdG{OrdE{OrdShared{1, 2}, "e"}, OrdF{OrdShared{3, 4}, 5}, OrdShared{6, 7}}
			}},
			{reflect.TypeOf(OrdH{}), `{"G":{"P":{"S":1}},"Sh":{"S":2,"T":3},"Arr":[{"S":"a","T":1},{"S":"b"}]}`, func() interface{} {
				return OrdH{&OrdG{P: OrdShared{1, 1}}, OrdShared{2, 3}, [2]OrdE{{OrdShared{4, 5}, "a"}, {}}}
			}},
		},
	}
	type res struct{ dec, enc string }
	run := func(it item) (r res) {
		p := reflect.New(it.t)
		var err error
		if pn, msg := util.Safe(func() { err = json.Unmarshal([]byte(it.doc), p.Interface()) }); pn {
			r.dec = "PANIC:" + util.ErrClass(msg)
		} else {
			r.dec = fmt.Sprintf("%s err=%v", oracle.Canon(p.Elem()), err)
		}
		var b []byte
		if pn, msg := util.Safe(func() { b, err = json.Marshal(it.val()) }); pn {
			r.enc = "PANIC:" + util.ErrClass(msg)
		} else {
			r.enc = fmt.Sprintf("%s err=%v", b, err != nil)
		}
		return
	}
	std := func(it item) (r res) {
		p := reflect.New(it.t)
		err := stdjson.Unmarshal([]byte(it.doc), p.Interface())
		r.dec = fmt.Sprintf("%s err=%v", oracle.Canon(p.Elem()), err)
		b, err := stdjson.Marshal(it.val())
		r.enc = fmt.Sprintf("%s err=%v", b, err != nil)
		return
	}
	for gi, g := range groups {
		for i, first := range g {
			for j, second := range g {
				if i == j {
					continue
				}
				for _, mode := range []string{"decode first", "encode first", "both first"} {
					id := fmt.Sprintf("group %d: %s of %s, then %s", gi, mode, first.t.Name(), second.t.Name())
					if !c.BeginS(id) {
						continue
					}
					c11Reset()
					cold := run(second)
					c11Reset()
					switch mode {
					case "decode first":
						util.Safe(func() { _ = json.Unmarshal([]byte(first.doc), reflect.New(first.t).Interface()) })
					case "encode first":
						util.Safe(func() { _, _ = json.Marshal(first.val()) })
					default:
						run(first)
					}
					got := run(second)
					c.Count("ordered_pairs", 1)
					c.Outcome(got.dec)
					if got != cold {
						what := "decoding"
						if got.dec == cold.dec {
							what = "encoding"
						}
						c.Violation(fmt.Sprintf("order of first use : %s a %s after %s of a %s differs from its cold result", what, second.t.Name(), mode, first.t.Name()), id,
							fmt.Sprintf("after %s: %+v ; cold: %+v", first.t.Name(), got, cold))
					} else if c.Prop == "C14" {
						// the cold result itself is encoding/json's (decoding: value and error-ness)
						if w := std(second); w.dec != cold.dec && !(len(w.dec) > 0 && len(cold.dec) > 0 && w.dec[:len(w.dec)-len(" err=<nil>")] == cold.dec[:len(cold.dec)-len(" err=<nil>")]) {
							c.Count("cold_result_differs_from_encoding_json", 1)
						}
					}
					c.EndCase()
				}
			}
		}
	}
}
