//go:build vshim
// +build vshim

package props

import (
	"context"
	"fmt"
	"reflect"

	stdjson "encoding/json"

	json "github.com/goccy/go-json"

	"verif/mc/oracle"
	"verif/mc/props/util"
	"verif/mc/work"
)

// c14.order — "how a value is processed is determined by its own type alone ... whatever other types the program
// has processed before": groups of struct types that are related structurally (they embed each other by pointer,
// refer to each other through members, share an embedded struct, one contains the other). For every ordered
// pair (first, second) of a group: with cold caches, process a value of `first`, then a value of `second`; the
// result for `second` must be its cold result and encoding/json's. Both directions (decode first / encode first).

func init() {
	work.Register("C14", "c14.order", c14Order)
	work.Register("C11", "c11.order", c14Order)
}

type OrdA struct {
	*OrdB
	Y int
}
type OrdB struct {
	*OrdA
	X int
}
type OrdC struct {
	B *OrdD
	V int
}
type OrdD struct {
	C *OrdC
	W string
}
type OrdShared struct{ S, T int }
type OrdE struct {
	OrdShared
	S string // shadows OrdShared.S
}
type OrdF struct {
	OrdShared
	U int
}
type OrdG struct {
	E OrdE
	F OrdF
	P OrdShared
}
type OrdH struct {
	G   *OrdG
	Sh  OrdShared
	Arr [2]OrdE
}

// value form and pointer form of one type are two types for the library: structs that are held directly in an
// interface word (a single pointer or map member), and types whose marshaling methods have pointer receivers
type OrdPS struct{ P *int }
type OrdMS struct{ M map[string]int }
type OrdNest struct{ In OrdPS }
type OrdPM struct{ A int }

func (m *OrdPM) MarshalJSON() ([]byte, error) { return []byte(fmt.Sprintf(`"pm%d"`, m.A)), nil }

type OrdPT struct{ A int }

func (m *OrdPT) MarshalText() ([]byte, error) { return []byte(fmt.Sprintf("pt%d", m.A)), nil }

func c14Order(c *work.Ctx) {
	type item struct {
		t   reflect.Type
		doc string
		val func() interface{}
	}
	one, two := 1, 2
	_ = two
	groups := [][]item{
		{
			{reflect.TypeOf(OrdA{}), `{"X":1,"Y":2}`, func() interface{} { return OrdA{OrdB: &OrdB{X: 5}, Y: 6} }},
			{reflect.TypeOf(OrdB{}), `{"X":1,"Y":2}`, func() interface{} { return OrdB{OrdA: &OrdA{Y: 7}, X: 8} }},
		},
		{
			{reflect.TypeOf(OrdC{}), `{"B":{"C":{"V":3},"W":"w"},"V":"bad"}`, func() interface{} { return OrdC{B: &OrdD{W: "x"}, V: one} }},
			{reflect.TypeOf(OrdD{}), `{"C":{"B":{"W":5},"V":4},"W":"w"}`, func() interface{} { return OrdD{C: &OrdC{V: 9}, W: "y"} }},
		},
		{
			{reflect.TypeOf(OrdE{}), `{"S":"s","T":2}`, func() interface{} { return OrdE{OrdShared{1, 2}, "e"} }},
			{reflect.TypeOf(OrdF{}), `{"S":1,"T":2,"U":3}`, func() interface{} { return OrdF{OrdShared{3, 4}, 5} }},
			{reflect.TypeOf(OrdShared{}), `{"S":7,"T":8}`, func() interface{} { return OrdShared{9, 10} }},
			{reflect.TypeOf(OrdG{}), `{"E":{"S":"s","T":2},"F":{"S":1,"T":2,"U":3},"P":{"S":4,"T":5}}`, func() interface{} {
				return OrdG{OrdE{OrdShared{1, 2}, "e"}, OrdF{OrdShared{3, 4}, 5}, OrdShared{6, 7}}
			}},
			{reflect.TypeOf(OrdH{}), `{"G":{"P":{"S":1}},"Sh":{"S":2,"T":3},"Arr":[{"S":"a","T":1},{"S":"b"}]}`, func() interface{} {
				return OrdH{&OrdG{P: OrdShared{1, 1}}, OrdShared{2, 3}, [2]OrdE{{OrdShared{4, 5}, "a"}, {}}}
			}},
		},
		{
			{reflect.TypeOf(OrdPS{}), `{"P":1}`, func() interface{} { return OrdPS{&one} }},
			{reflect.TypeOf(OrdPS{}), `{"P":2}`, func() interface{} { return &OrdPS{&two} }},
			{reflect.TypeOf([]OrdPS{}), `[{"P":3}]`, func() interface{} { return []interface{}{OrdPS{&one}, &OrdPS{&two}} }},
			{reflect.TypeOf(OrdNest{}), `{"In":{"P":4}}`, func() interface{} { return OrdNest{OrdPS{&one}} }},
			{reflect.TypeOf(OrdNest{}), `{"In":{"P":5}}`, func() interface{} { return &OrdNest{OrdPS{&two}} }},
		},
		{
			{reflect.TypeOf(OrdMS{}), `{"M":{"a":1}}`, func() interface{} { return OrdMS{map[string]int{"k": 1}} }},
			{reflect.TypeOf(OrdMS{}), `{"M":{"b":2}}`, func() interface{} { return &OrdMS{map[string]int{"k": 2}} }},
			{reflect.TypeOf(OrdPM{}), `{"A":1}`, func() interface{} { return OrdPM{1} }},
			{reflect.TypeOf(OrdPM{}), `{"A":2}`, func() interface{} { return &OrdPM{2} }},
			{reflect.TypeOf(OrdPT{}), `{"A":3}`, func() interface{} { return OrdPT{3} }},
			{reflect.TypeOf(OrdPT{}), `{"A":4}`, func() interface{} { return &OrdPT{4} }},
			{reflect.TypeOf([]OrdPM{}), `[{"A":5}]`, func() interface{} { return []interface{}{OrdPM{5}, &OrdPM{6}, OrdPT{7}, &OrdPT{8}} }},
		},
	}
	// a query that selects every member a struct of the groups can have: MarshalContext with it gives Marshal's
	// document, through the separately cached filtered programs
	allQ, _ := json.BuildFieldQuery("X", "Y", "B", "V", "C", "W", "S", "T", "U", "E", "F", "P", "G", "Sh", "Arr", "M", "In", "A", "OrdShared", "OrdA", "OrdB")
	type res struct{ dec, enc, qenc string }
	run := func(it item) (r res) {
		p := reflect.New(it.t)
		var err error
		if pn, msg := util.Safe(func() { err = json.Unmarshal([]byte(it.doc), p.Interface()) }); pn {
			r.dec = "PANIC:" + util.ErrClass(msg)
		} else {
			r.dec = fmt.Sprintf("%s err=%v", oracle.Canon(p.Elem()), err)
		}
		var b []byte
		if pn, msg := util.Safe(func() { b, err = json.Marshal(it.val()) }); pn {
			r.enc = "PANIC:" + util.ErrClass(msg)
		} else {
			r.enc = fmt.Sprintf("%s err=%v", b, err != nil)
		}
		if pn, msg := util.Safe(func() {
			b, err = json.MarshalContext(json.SetFieldQueryToContext(context.Background(), allQ), it.val())
		}); pn {
			r.qenc = "PANIC:" + util.ErrClass(msg)
		} else {
			r.qenc = fmt.Sprintf("%s err=%v", b, err != nil)
		}
		return
	}
	std := func(it item) (r res) {
		p := reflect.New(it.t)
		err := stdjson.Unmarshal([]byte(it.doc), p.Interface())
		r.dec = fmt.Sprintf("%s err=%v", oracle.Canon(p.Elem()), err)
		b, err := stdjson.Marshal(it.val())
		r.enc = fmt.Sprintf("%s err=%v", b, err != nil)
		return
	}
	for gi, g := range groups {
		for i, first := range g {
			for j, second := range g {
				if i == j {
					continue
				}
				for _, mode := range []string{"decode first", "encode first", "encode with a query first", "both first"} {
					id := fmt.Sprintf("group %d: %s of %s (#%d), then %s (#%d)", gi, mode, ordName(first.t), i, ordName(second.t), j)
					if !c.BeginS(id) {
						continue
					}
					c11Reset()
					cold := run(second)
					c11Reset()
					switch mode {
					case "decode first":
						util.Safe(func() { _ = json.Unmarshal([]byte(first.doc), reflect.New(first.t).Interface()) })
					case "encode first":
						util.Safe(func() { _, _ = json.Marshal(first.val()) })
					case "encode with a query first":
						util.Safe(func() {
							_, _ = json.MarshalContext(json.SetFieldQueryToContext(context.Background(), allQ), first.val())
						})
					default:
						run(first)
					}
					got := run(second)
					c.Count("ordered_pairs", 1)
					c.Outcome(got.dec)
					if got != cold {
						what := "decoding"
						if got.dec == cold.dec {
							what = "encoding"
							if got.enc == cold.enc {
								what = "encoding with a query"
							}
						}
						c.Violation(fmt.Sprintf("order of first use : %s a %s after %s of a %s differs from its cold result", what, ordName(second.t), mode, ordName(first.t)), id,
							fmt.Sprintf("after %s: %+v ; cold: %+v", ordName(first.t), got, cold))
					} else if c.Prop == "C14" {
						// the cold result itself is encoding/json's (decoding: value and error-ness)
						if w := std(second); w.dec != cold.dec && !(len(w.dec) > 0 && len(cold.dec) > 0 && w.dec[:len(w.dec)-len(" err=<nil>")] == cold.dec[:len(cold.dec)-len(" err=<nil>")]) {
							c.Count("cold_result_differs_from_encoding_json", 1)
						}
					}
					c.EndCase()
				}
			}
		}
	}
}

func ordName(t reflect.Type) string {
	if t.Name() != "" {
		return t.Name()
	}
	return t.String()
}
