package props

import (
	"bytes"
	"context"
	stdjson "encoding/json"
	"fmt"
	"reflect"
	"sort"
	"strings"

	json "github.com/goccy/go-json"

	"verif/mc/explore"
	"verif/mc/oracle"
	"verif/mc/props/util"
	"verif/mc/universe"
	"verif/mc/work"
)

// C19 — field queries project exactly the selected fields.

func init() {
	work.Register("C19", "c19.queries", c19Queries)
	work.Register("C19", "c19.histories", c19Histories)
}

type Q3 struct {
	A int
	B string `json:"b"`
	C []int
}

// QZ is a context-aware marshaler in the idiom of query_test.go.
type QZ struct {
	ZA string
	ZB bool
	ZC int
}

func (z *QZ) MarshalJSON(ctx context.Context) ([]byte, error) {
	type alias QZ
	return json.MarshalContext(ctx, (*alias)(z))
}

type Q2 struct {
	A int
	B *Q3
	C Q3
	D []Q3
	E map[string]Q3
	F interface{}
	G *QZ
	// member names that spell a path through other members: a query cache keyed by a flattened form of the
	// query must not confuse the member "B.A" with the member A of B
	BdotA  int `json:"B.A"`
	BslshA int `json:"B/A"`
}

// QBase is embedded below: go-json selects an embedded struct by the NAME OF ITS TYPE, and the sub-query of that
// name applies to the members it promotes (one of them a context-aware marshaler with a sub-query of its own).
type QBase struct {
	A int
	Z *QZ
	W int `json:"w"`
}

type QE struct {
	QBase
	C int
	N QBase
}

type QEP struct {
	X int
	*QBase
	C int
}

// structs that are held directly in an interface word (one pointer or map member): reached through a pointer
// they are compiled "indirect", a property the filtered program has to keep
type QPS struct{ N *int64 }
type QMS struct{ M map[string]int }
type QW struct {
	P *QPS
	V QPS
	I interface{}
	M *QMS
	W QMS
}

type Q1 struct {
	A int
	B Q2
	C *Q2
	D []Q2
	E map[string]*Q2
	F interface{}
	G string `json:"g"`
}

func c19Values() []interface{} {
	q3 := Q3{A: 1, B: "b", C: []int{1, 2}}
	q2 := Q2{A: 2, B: &q3, C: q3, D: []Q3{q3, {A: 9}}, E: map[string]Q3{"k": q3, "j": {B: "x"}}, F: q3, G: &QZ{"za", true, 3}, BdotA: 7, BslshA: 8}
	q2b := Q2{A: 3, F: map[string]interface{}{"A": 1, "z": []interface{}{1}}}
	full := Q1{A: 1, B: q2, C: &q2, D: []Q2{q2, q2b}, E: map[string]*Q2{"k": &q2, "n": nil}, F: &q2, G: "g"}
	sparse := Q1{A: 0, B: q2b, C: nil, D: nil, E: nil, F: []interface{}{q3, &q2b, 1}, G: ""}
	n7 := int64(7)
	qb := QBase{A: 1, Z: &QZ{"za", true, 3}, W: 5}
	qe := QE{QBase: qb, C: 9, N: QBase{A: 2, Z: &QZ{"n", false, 4}, W: 6}}
	qep := QEP{X: 1, QBase: &qb, C: 9}
	return []interface{}{full, &full, sparse, &sparse, q2, &q2, []Q1{full, sparse}, map[string]Q1{"m": full},
		qe, &qe, qep, &QEP{X: 2, C: 3}, []QE{qe, {C: 1}},
		QPS{&n7}, &QPS{&n7}, &QMS{map[string]int{"k": 1}}, QW{P: &QPS{&n7}, V: QPS{&n7}, I: &QPS{&n7}, M: &QMS{map[string]int{"k": 2}}, W: QMS{map[string]int{"j": 3}}},
		&QW{P: &QPS{&n7}, I: QPS{&n7}}, []*QPS{{&n7}, nil}}
}

// ---- query generation ----------------------------------------------------------------------------

// fieldNames returns the JSON member names of a struct type and the type of each.
func c19Fields(t reflect.Type) (names []string, types []reflect.Type) {
	for t.Kind() == reflect.Ptr {
		t = t.Elem()
	}
	if t.Kind() != reflect.Struct {
		return nil, nil
	}
	for i := 0; i < t.NumField(); i++ {
		n, ok, _ := universe.JSONName(t.Field(i))
		if ok {
			names = append(names, n)
			types = append(types, t.Field(i).Type)
		}
	}
	return
}

// structBelow: the struct type a sub-query on a member of type t would apply to, if any.
func structBelow(t reflect.Type) reflect.Type {
	for {
		switch t.Kind() {
		case reflect.Ptr, reflect.Slice, reflect.Array, reflect.Map:
			t = t.Elem()
			continue
		case reflect.Struct:
			return t
		}
		return nil
	}
}

// genQuery builds a query over the field tree of t: per field a Deviate among
// {not selected, selected, selected with a sub-query}; one extra choice adds a name that does not exist.
func genQuery(t reflect.Type, ch *explore.Chooser, depth int) *json.FieldQuery {
	q := &json.FieldQuery{}
	names, types := c19Fields(t)
	for i, n := range names {
		sb := structBelow(types[i])
		arity := 2
		if (sb != nil || types[i].Kind() == reflect.Interface) && depth < 3 {
			arity = 3
		}
		switch ch.Deviate(arity) {
		case 1:
			q.Fields = append(q.Fields, &json.FieldQuery{Name: n})
		case 2:
			st := sb
			if st == nil {
				st = reflect.TypeOf(Q3{}) // interface members hold Q3 / Q2 values in the value pool
			}
			sub := genQuery(st, ch, depth+1)
			sub.Name = n
			q.Fields = append(q.Fields, sub)
		}
	}
	if ch.Deviate(2) == 1 {
		q.Fields = append(q.Fields, &json.FieldQuery{Name: "nope"})
	}
	return q
}

func queryText(q *json.FieldQuery) string {
	var sb strings.Builder
	var rec func(q *json.FieldQuery)
	rec = func(q *json.FieldQuery) {
		sb.WriteString(q.Name)
		if len(q.Fields) > 0 || q.Name == "" {
			sb.WriteByte('[')
			for i, f := range q.Fields {
				if i > 0 {
					sb.WriteByte(',')
				}
				rec(f)
			}
			sb.WriteByte(']')
		}
	}
	rec(q)
	return sb.String()
}

func cloneQuery(q *json.FieldQuery) *json.FieldQuery {
	if q == nil {
		return nil
	}
	c := &json.FieldQuery{Name: q.Name}
	for _, f := range q.Fields {
		c.Fields = append(c.Fields, cloneQuery(f))
	}
	return c
}

// ---- reference projection --------------------------------------------------------------------------

type onode struct {
	kind byte // 'o','a','l'
	lit  string
	keys []string
	kids []*onode
}

func parseOrdered(dec *stdjson.Decoder) (*onode, error) {
	tok, err := dec.Token()
	if err != nil {
		return nil, err
	}
	switch t := tok.(type) {
	case stdjson.Delim:
		if t == '{' {
			n := &onode{kind: 'o'}
			for dec.More() {
				k, err := dec.Token()
				if err != nil {
					return nil, err
				}
				v, err := parseOrdered(dec)
				if err != nil {
					return nil, err
				}
				n.keys = append(n.keys, k.(string))
				n.kids = append(n.kids, v)
			}
			dec.Token()
			return n, nil
		}
		n := &onode{kind: 'a'}
		for dec.More() {
			v, err := parseOrdered(dec)
			if err != nil {
				return nil, err
			}
			n.kids = append(n.kids, v)
		}
		dec.Token()
		return n, nil
	default:
		b, _ := stdjson.Marshal(tok)
		return &onode{kind: 'l', lit: string(b)}, nil
	}
}

func (n *onode) render(sb *strings.Builder) {
	switch n.kind {
	case 'l':
		sb.WriteString(n.lit)
	case 'a':
		sb.WriteByte('[')
		for i, k := range n.kids {
			if i > 0 {
				sb.WriteByte(',')
			}
			k.render(sb)
		}
		sb.WriteByte(']')
	default:
		sb.WriteByte('{')
		for i, k := range n.kids {
			if i > 0 {
				sb.WriteByte(',')
			}
			kb, _ := stdjson.Marshal(n.keys[i])
			sb.Write(kb)
			sb.WriteByte(':')
			k.render(sb)
		}
		sb.WriteByte('}')
	}
}

// fieldValueByKey finds the struct field that produced member key.
func fieldValueByKey(v reflect.Value, key string) (reflect.Value, bool) {
	t := v.Type()
	for i := 0; i < t.NumField(); i++ {
		f := t.Field(i)
		if f.Anonymous && f.Type.Kind() == reflect.Struct {
			if fv, ok := fieldValueByKey(v.Field(i), key); ok {
				return fv, true
			}
			continue
		}
		if f.Anonymous && f.Type.Kind() == reflect.Ptr && f.Type.Elem().Kind() == reflect.Struct {
			if !v.Field(i).IsNil() {
				if fv, ok := fieldValueByKey(v.Field(i).Elem(), key); ok {
					return fv, true
				}
			}
			continue
		}
		if n, ok, _ := universe.JSONName(f); ok && n == key {
			return v.Field(i), true
		}
	}
	return reflect.Value{}, false
}

// project restricts the ordered JSON tree n, produced from Go value v, to query q.
// Only struct objects are restricted; maps keep all keys and pass the query to their
// values; pointers and interfaces are transparent; slices apply it to every element.
func project(n *onode, v reflect.Value, q *json.FieldQuery) *onode {
	// a member selected by name only (no sub-fields) is kept whole; the top-level
	// query (Name == "") restricts even when it selects nothing
	if q == nil || (len(q.Fields) == 0 && q.Name != "") {
		return n
	}
	for v.IsValid() && (v.Kind() == reflect.Ptr || v.Kind() == reflect.Interface) {
		if v.IsNil() {
			return n
		}
		v = v.Elem()
	}
	if !v.IsValid() {
		return n
	}
	switch v.Kind() {
	case reflect.Struct:
		if n.kind != 'o' {
			return n
		}
		want := map[string]*json.FieldQuery{}
		for _, f := range q.Fields {
			want[f.Name] = f
		}
		// members promoted from an embedded struct are selected through the embedded struct's name and restricted by
		// the sub-query of that name
		promoted := map[string]string{}
		own := map[string]bool{}
		for i := 0; i < v.NumField(); i++ {
			f := v.Type().Field(i)
			et := f.Type
			if et.Kind() == reflect.Ptr {
				et = et.Elem()
			}
			if f.Anonymous && et.Kind() == reflect.Struct && f.Tag.Get("json") == "" {
				for j := 0; j < et.NumField(); j++ {
					if nm, ok, _ := universe.JSONName(et.Field(j)); ok {
						promoted[nm] = f.Name
					}
				}
			} else if nm, ok, _ := universe.JSONName(f); ok {
				own[nm] = true
			}
		}
		out := &onode{kind: 'o'}
		for i, k := range n.keys {
			sub, ok := want[k]
			if emb, isProm := promoted[k]; isProm && !own[k] {
				eq := want[emb]
				if eq == nil {
					continue
				}
				sub, ok = &json.FieldQuery{Name: k}, true // the embedded struct selected as a whole
				if len(eq.Fields) > 0 {
					sub, ok = nil, false
					for _, f := range eq.Fields {
						if f.Name == k {
							sub, ok = f, true
						}
					}
				}
			}
			if !ok {
				continue
			}
			kid := n.kids[i]
			if len(sub.Fields) > 0 {
				if fv, ok := fieldValueByKey(v, k); ok {
					kid = project(kid, fv, sub)
				}
			}
			out.keys = append(out.keys, k)
			out.kids = append(out.kids, kid)
		}
		return out
	case reflect.Map:
		if n.kind != 'o' {
			return n
		}
		out := &onode{kind: 'o'}
		for i, k := range n.keys {
			mv := v.MapIndex(reflect.ValueOf(k))
			kid := n.kids[i]
			if mv.IsValid() {
				kid = project(kid, mv, q)
			}
			out.keys = append(out.keys, k)
			out.kids = append(out.kids, kid)
		}
		return out
	case reflect.Slice, reflect.Array:
		if n.kind != 'a' || len(n.kids) != v.Len() {
			return n
		}
		out := &onode{kind: 'a'}
		for i, k := range n.kids {
			out.kids = append(out.kids, project(k, v.Index(i), q))
		}
		return out
	}
	return n
}

func kindName(v reflect.Value) string {
	for v.IsValid() && v.Kind() == reflect.Ptr {
		if v.IsNil() {
			return "nil"
		}
		v = v.Elem()
	}
	if !v.IsValid() {
		return "?"
	}
	switch v.Kind() {
	case reflect.Struct:
		if v.Type() == reflect.TypeOf(QZ{}) {
			return "ctx-marshaler"
		}
		return "struct"
	case reflect.Slice, reflect.Array:
		return "slice"
	case reflect.Map:
		return "map"
	case reflect.Interface:
		return "interface"
	}
	return "scalar"
}

// diffTrees finds the first difference between the produced tree a and the
// expected tree b, walking the Go value alongside; it returns the kinds of the
// Go values on the way down and what differs there.
func diffTrees(a, b *onode, v reflect.Value, path string) (string, string, bool) {
	here := path
	k := kindName(v)
	if here == "" {
		here = k
	} else {
		here += ">" + k
	}
	for v.IsValid() && (v.Kind() == reflect.Ptr || v.Kind() == reflect.Interface) {
		if v.IsNil() {
			break
		}
		if v.Kind() == reflect.Interface {
			v = v.Elem()
			here += ">" + kindName(v)
			continue
		}
		v = v.Elem()
	}
	if a.kind != b.kind {
		return here, "kind-differs", true
	}
	switch a.kind {
	case 'l':
		if a.lit != b.lit {
			return here, "value-differs", true
		}
	case 'a':
		if len(a.kids) != len(b.kids) {
			return here, "length-differs", true
		}
		for i := range a.kids {
			var ev reflect.Value
			if v.IsValid() && (v.Kind() == reflect.Slice || v.Kind() == reflect.Array) && i < v.Len() {
				ev = v.Index(i)
			}
			if p, w, d := diffTrees(a.kids[i], b.kids[i], ev, here); d {
				return p, w, true
			}
		}
	case 'o':
		// member sets first
		as, bs := map[string]int{}, map[string]int{}
		for i, k := range a.keys {
			as[k] = i
		}
		for i, k := range b.keys {
			bs[k] = i
		}
		for _, k := range b.keys {
			if _, ok := as[k]; !ok {
				return here, "selected-member-missing", true
			}
		}
		for _, k := range a.keys {
			if _, ok := bs[k]; !ok {
				return here, "unselected-member-present", true
			}
		}
		for i, k := range a.keys {
			if b.keys[i] != k {
				return here, "member-order-differs", true
			}
		}
		for i, k := range a.keys {
			var ev reflect.Value
			if v.IsValid() {
				switch v.Kind() {
				case reflect.Struct:
					ev, _ = fieldValueByKey(v, k)
				case reflect.Map:
					if v.Type().Key().Kind() == reflect.String {
						ev = v.MapIndex(reflect.ValueOf(k))
					}
				}
			}
			if p, w, d := diffTrees(a.kids[i], b.kids[i], ev, here); d {
				return p, w, true
			}
		}
	}
	return "", "", false
}

// c19Expected: Marshal(v) restricted to q, as compact text.
func c19Expected(v interface{}, q *json.FieldQuery) (string, error) {
	plain, err := stdjson.Marshal(c19Plain(v))
	if err != nil {
		return "", err
	}
	dec := stdjson.NewDecoder(strings.NewReader(string(plain)))
	dec.UseNumber()
	tree, err := parseOrdered(dec)
	if err != nil {
		return "", err
	}
	var sb strings.Builder
	project(tree, reflect.ValueOf(v), q).render(&sb)
	return sb.String(), nil
}

// c19Plain: encoding/json does not know context-aware marshalers; *QZ encodes
// as a plain struct there, which is what the idiom's alias produces without a query.
func c19Plain(v interface{}) interface{} { return v }

func c19Marshal(v interface{}, q *json.FieldQuery) (string, error, bool, string) {
	var out []byte
	var err error
	p, msg := util.Safe(func() {
		ctx := context.Background()
		if q != nil {
			ctx = json.SetFieldQueryToContext(ctx, q)
		}
		out, err = json.MarshalContext(ctx, v)
	})
	return string(out), err, p, msg
}

// queryShape abstracts a query for class signatures.
func queryShape(q *json.FieldQuery, t reflect.Type) string {
	var parts []string
	names, types := c19Fields(t)
	kindOf := map[string]string{}
	for i, n := range names {
		k := "scalar"
		ft := types[i]
		for ft.Kind() == reflect.Ptr {
			ft = ft.Elem()
		}
		switch ft.Kind() {
		case reflect.Struct:
			k = "struct"
			if ft == reflect.TypeOf(QZ{}) {
				k = "ctx-marshaler"
			}
		case reflect.Slice, reflect.Array:
			k = "slice"
		case reflect.Map:
			k = "map"
		case reflect.Interface:
			k = "interface"
		}
		kindOf[n] = k
	}
	for _, f := range q.Fields {
		k, ok := kindOf[f.Name]
		if !ok {
			k = "missing"
		}
		if len(f.Fields) > 0 {
			k += "+sub"
		}
		parts = append(parts, k)
	}
	sort.Strings(parts)
	// collapse repeats
	var out []string
	for i, p := range parts {
		if i == 0 || parts[i-1] != p {
			out = append(out, p)
		}
	}
	return strings.Join(out, ",")
}

func c19Queries(c *work.Ctx) {
	D := 3
	if !c.Quick() {
		D = 4
	}
	vals := c19Values()
	c.SelfSharded = true
	for vi, v := range vals {
		t := reflect.TypeOf(v)
		root := structBelow(t)
		ex := &explore.Explorer{Bound: D, Shard: c.Shard, NShards: c.NShards}
		ex.Run(func(ch *explore.Chooser) {
			q := genQuery(root, ch, 0)
			if !ch.Owned {
				return
			}
			id := fmt.Sprintf("value#%d %s query %s", vi, t.String(), queryText(q))
			if !c.BeginS(id) {
				return
			}
			defer c.EndCase()
			json.VerifResetCaches()
			want, werr := c19Expected(v, q)
			if werr != nil {
				c.HarnessError("reference projection failed: " + werr.Error())
				return
			}
			got, gerr, p, msg := c19Marshal(v, cloneQuery(q))
			kind := ""
			switch {
			case p:
				kind = "panic:" + util.ErrClass(msg)
			case gerr != nil:
				kind = "error"
			default:
				if d := oracle.TokensEqual([]byte(got), []byte(want)); d != "" {
					kind = "projection-differs"
					da := stdjson.NewDecoder(strings.NewReader(got))
					da.UseNumber()
					db := stdjson.NewDecoder(strings.NewReader(want))
					db.UseNumber()
					ta, ea := parseOrdered(da)
					tb, eb := parseOrdered(db)
					if ea == nil && eb == nil {
						if p, w, dd := diffTrees(ta, tb, reflect.ValueOf(v), ""); dd {
							kind = w + " at " + p
						}
					} else {
						kind = "output-not-json"
					}
				}
			}
			c.Outcome(kind)
			if kind != "" {
				c.Violation(fmt.Sprintf("projection : %s", kind), id, fmt.Sprintf("MarshalContext gives %s err=%v; Marshal restricted to the query gives %s", clip([]byte(got)), gerr, clip([]byte(want))))
			}
			// the other entry points that take a context project the same document: Encoder.EncodeContext, plain
			// and indenting (the indenting interpreters have their own marshaler call)
			if kind == "" && !p && gerr == nil {
				for _, indent := range []bool{false, true} {
					var w bytes.Buffer
					var eerr error
					pe, _ := util.Safe(func() {
						en := json.NewEncoder(&w)
						if indent {
							en.SetIndent("", " ")
						}
						eerr = en.EncodeContext(json.SetFieldQueryToContext(context.Background(), cloneQuery(q)), v)
					})
					wantE := got + "\n"
					if indent {
						var ib bytes.Buffer
						if stdjson.Indent(&ib, []byte(got), "", " ") != nil {
							continue
						}
						wantE = ib.String() + "\n"
					}
					if pe || eerr != nil || w.String() != wantE {
						c.Violation(fmt.Sprintf("projection : Encoder.EncodeContext (indent %v) differs from MarshalContext with the same query : %s", indent, queryShape(q, root)), id,
							fmt.Sprintf("EncodeContext gives %q err=%v panic=%v ; MarshalContext (re-indented) gives %q", clip(w.Bytes()), eerr, pe, clip([]byte(wantE))))
					}
				}
			}
			// the query rebuilt from its own QueryString is equivalent
			if qs, err := cloneQuery(q).QueryString(); err == nil && len(q.Fields) > 0 {
				q2, err2 := qs.Build()
				if err2 != nil {
					c.Violation("QueryString : Build fails : "+queryShape(q, root), id, fmt.Sprintf("%s: %v", qs, err2))
				} else {
					json.VerifResetCaches()
					got2, gerr2, p2, _ := c19Marshal(v, q2)
					json.VerifResetCaches()
					got1, gerr1, p1, _ := c19Marshal(v, cloneQuery(q))
					if p1 != p2 || (gerr1 == nil) != (gerr2 == nil) || got1 != got2 {
						c.Violation("QueryString : rebuilt query projects differently : "+queryShape(q, root), id, fmt.Sprintf("query string %s: rebuilt gives %s, original gives %s", qs, clip([]byte(got2)), clip([]byte(got1))))
					}
				}
			}
			if c.WantSample() {
				c.Sample(id)
			}
		})
	}
}

// ---- histories: orders in which different queries and the unfiltered encoding are used -----------

func c19Histories(c *work.Ctx) {
	vals := c19Values()[:6]
	mk := func(fs ...*json.FieldQuery) *json.FieldQuery { return &json.FieldQuery{Fields: fs} }
	n := func(name string, fs ...*json.FieldQuery) *json.FieldQuery {
		return &json.FieldQuery{Name: name, Fields: fs}
	}
	queriesFor := func(t reflect.Type) []*json.FieldQuery {
		if structBelow(t) == reflect.TypeOf(Q1{}) {
			return []*json.FieldQuery{
				mk(n("A")), mk(n("g")), mk(n("A"), n("g")), mk(n("g"), n("A")), mk(n("B", n("A"))), mk(n("B", n("C", n("b")))), mk(n("C", n("A"), n("B", n("A")))), mk(n("B")), mk(n("D", n("A"))), mk(n("E", n("F"))), mk(n("F", n("A"))), mk(n("A"), n("B", n("G", n("ZA")))), mk(n("nope")), mk(n("C", n("C", n("A"))), n("B", n("C", n("b")))),
			}
		}
		return []*json.FieldQuery{
			mk(n("A")), mk(n("F")), mk(n("B", n("A"))), mk(n("C", n("b"))), mk(n("C", n("A")), n("A")), mk(n("G", n("ZA"))), mk(n("G", n("ZB"), n("ZC"))), mk(n("D", n("C"))), mk(n("E", n("b"))), mk(n("nope")), mk(n("F"), n("A")),
			// queries whose flattened or re-ordered forms coincide: a member named like a path, a name selected twice
			// with different sub-queries, the same selections in another order and nesting
			mk(n("B.A")), mk(n("B/A")), mk(n("B"), n("A")), mk(n("C", n("A")), n("C", n("b"))), mk(n("C", n("A"), n("b"))), mk(n("C", n("b"), n("A"))), mk(n("C", n("b")), n("C", n("A"))), mk(n("A"), n("C", n("A"))),
		}
	}
	depth := 3
	for vi, v := range vals {
		t := reflect.TypeOf(v)
		qs := queriesFor(t)
		// cold results
		cold := make([]string, len(qs)+1)
		for i := 0; i <= len(qs); i++ {
			json.VerifResetCaches()
			var q *json.FieldQuery
			if i < len(qs) {
				q = cloneQuery(qs[i])
			}
			out, err, p, msg := c19Marshal(v, q)
			cold[i] = fmt.Sprintf("%s|%v|%v%s", out, err, p, msg)
		}
		for a := 0; a < len(qs); a++ {
			for b := 0; b < len(qs); b++ {
				if a == b {
					continue
				}
				// alphabet of this history family: query a, query b, no query
				alpha := []int{a, b, len(qs)}
				idx := make([]int, depth)
				for l := 2; l <= depth; l++ {
					for i := range idx[:l] {
						idx[i] = 0
					}
					for {
						id := fmt.Sprintf("value#%d queries %s / %s history %v", vi, queryText(qs[a]), queryText(qs[b]), idx[:l])
						if c.BeginS(id) {
							json.VerifResetCaches()
							// fresh query objects per history: a FieldQuery caches its hash
							qa, qb := cloneQuery(qs[a]), cloneQuery(qs[b])
							for step, k := range idx[:l] {
								var q *json.FieldQuery
								switch k {
								case 0:
									q = qa
								case 1:
									q = qb
								}
								out, err, p, msg := c19Marshal(v, q)
								got := fmt.Sprintf("%s|%v|%v%s", out, err, p, msg)
								c.Outcome(got)
								if got != cold[alpha[k]] {
									role := []string{"query", "other query", "no query"}
									var earlier []string
									for _, e := range idx[:step] {
										earlier = append(earlier, role[e])
									}
									sort.Strings(earlier)
									c.Violation(fmt.Sprintf("history : %s : a call with %s after calls with {%s} differs from its cold result", universe.Desc(t, 1), role[k], strings.Join(uniq(earlier), ",")), id,
										fmt.Sprintf("step %d gives %s; cold %s", step, clip([]byte(got)), clip([]byte(cold[alpha[k]]))))
									break
								}
							}
							if c.WantSample() {
								c.Sample(id)
							}
							c.EndCase()
						}
						k := l - 1
						for k >= 0 {
							idx[k]++
							if idx[k] < 3 {
								break
							}
							idx[k] = 0
							k--
						}
						if k < 0 {
							break
						}
					}
				}
			}
		}
	}
}

func uniq(s []string) []string {
	var out []string
	for i, x := range s {
		if i == 0 || s[i-1] != x {
			out = append(out, x)
		}
	}
	return out
}
