package props

import (
	"bytes"
	stdjson "encoding/json"
	"errors"
	"fmt"
	"io"
	"reflect"
	"strings"
	"time"

	json "github.com/goccy/go-json"

	"verif/mc/oracle"
	"verif/mc/props/util"
	"verif/mc/universe"
	"verif/mc/work"
)

// C09 — stream decoding equals buffer decoding for every chunking of the input.

func init() {
	work.Register("C09", "c09.chunks", c09Chunks)
	work.Register("C09", "c09.long", c09Long)
	work.Register("C09", "c09.longtyped", c09LongTyped)
	work.Register("C09", "c09.faults", c09Faults)
	work.Register("C09", "c09.multi", c09Multi)
	work.Register("C09", "c09.strings", c09Strings)
	work.Register("C09", "c09.retain", c09Retain)
	work.Register("C09", "c09.members", c09Members)
	// the same executions decide a clause of C07: a Decode writes only inside the graph of its own
	// destination, so values an earlier Decode of the same stream produced keep their contents
	work.Register("C07", "c07.retain", c09Retain)
}

var errInjected = errors.New("injected reader failure")

// chunkReader delivers data cut at the given offsets.
type chunkReader struct {
	data      []byte
	pos       int
	cuts      []int // ascending offsets at which a Read stops
	eofWith   bool  // the last piece is returned together with io.EOF
	zeroAt    int   // return (0,nil) once when pos reaches this offset (-1: never)
	zeroDone  bool
	failAt    int  // fail with errInjected once pos reaches this offset (-1: never)
	failWith  bool // the failure is returned together with the last bytes before failAt (n > 0 and an error in one Read)
	failOnce  bool // the failure is reported by one Read only; afterwards the reader answers io.EOF
	failed    bool
	scribble  bool // the reader uses all of p as scratch space (io.Reader allows it): bytes beyond n are overwritten
	pieceSize int  // >0: fixed piece size instead of cuts
	reads     int
}

func (r *chunkReader) Read(p []byte) (int, error) {
	r.reads++
	if r.failAt >= 0 && r.pos >= r.failAt {
		if r.failOnce && r.failed {
			return 0, io.EOF
		}
		r.failed = true
		return 0, errInjected
	}
	if r.zeroAt >= 0 && !r.zeroDone && r.pos >= r.zeroAt {
		r.zeroDone = true
		return 0, nil
	}
	if r.pos >= len(r.data) {
		return 0, io.EOF
	}
	end := len(r.data)
	if r.pieceSize > 0 {
		if r.pos+r.pieceSize < end {
			end = r.pos + r.pieceSize
		}
	} else {
		for _, c := range r.cuts {
			if c > r.pos {
				if c < end {
					end = c
				}
				break
			}
		}
	}
	if r.failAt >= 0 && r.failAt < end && r.failAt > r.pos {
		end = r.failAt
	}
	if r.zeroAt >= 0 && !r.zeroDone && r.zeroAt < end && r.zeroAt > r.pos {
		end = r.zeroAt // the empty Read happens AT this offset: the data before it is delivered first
	}
	if end-r.pos > len(p) {
		end = r.pos + len(p)
	}
	n := copy(p, r.data[r.pos:end])
	r.pos += n
	if r.scribble {
		for i := n; i < len(p); i++ {
			p[i] = "\"x]}9"[i%5]
		}
	}
	if r.failWith && r.failAt >= 0 && r.pos >= r.failAt && n > 0 {
		r.failed = true
		return n, errInjected
	}
	if r.eofWith && r.pos >= len(r.data) {
		return n, io.EOF
	}
	return n, nil
}

// c09Dests: one destination per decoder kind.
var c09Dests = []struct {
	name string
	t    reflect.Type
	num  bool
}{
	{"interface{}", reflect.TypeOf((*interface{})(nil)).Elem(), false},
	{"interface{}+UseNumber", reflect.TypeOf((*interface{})(nil)).Elem(), true},
	{"[]interface{}", reflect.TypeOf([]interface{}(nil)), false},
	{"map[string]interface{}", reflect.TypeOf(map[string]interface{}(nil)), false},
	{"struct{A,B}", reflect.TypeOf(struct {
		A interface{} `json:"a"`
		B interface{} `json:"b"`
	}{}), false},
	{"[]int", reflect.TypeOf([]int(nil)), false},
	{"[]string", reflect.TypeOf([]string(nil)), false},
	{"map[string]int", reflect.TypeOf(map[string]int(nil)), false},
	{"struct{A int;B string}", reflect.TypeOf(struct {
		A int    `json:"a"`
		B string `json:"b"`
	}{}), false},
	{"*float64", reflect.TypeOf((*float64)(nil)), false},
	{"Number", reflect.TypeOf(stdjson.Number("")), false},
	{"RawMessage", reflect.TypeOf(stdjson.RawMessage(nil)), false},
	{"string", reflect.TypeOf(""), false},
	{"bool", reflect.TypeOf(false), false},
	{"[]byte", reflect.TypeOf([]byte(nil)), false},
	{"[2]bool", reflect.TypeOf([2]bool{}), false},
	{"uint8", reflect.TypeOf(uint8(0)), false},
	{"[]struct{A int;B string}", reflect.TypeOf([]struct {
		A int    `json:"a"`
		B string `json:"b"`
	}(nil)), false},
	{"struct{A int;F func();B string}", reflect.TypeOf(struct {
		A int    `json:"a"`
		F func() `json:"f"`
		B string `json:"b"`
	}{}), false},
	{"int", reflect.TypeOf(int(0)), false},
	{"int8", reflect.TypeOf(int8(0)), false},
	{"uint", reflect.TypeOf(uint(0)), false},
}

// c09Poison: per slice destination, a document whose eight elements are all non-zero.
var c09Poison = map[string]string{
	"[]interface{}":            `[9,"p",[9],{"p":9},9,9,9,9]`,
	"[]int":                    `[9,9,9,9,9,9,9,9]`,
	"[]string":                 `["p","p","p","p","p","p","p","p"]`,
	"[]struct{A int;B string}": `[{"a":9,"b":"p"},{"a":9,"b":"p"},{"a":9,"b":"p"},{"a":9,"b":"p"},{"a":9,"b":"p"},{"a":9,"b":"p"},{"a":9,"b":"p"},{"a":9,"b":"p"}]`,
	"[]byte":                   `"cHBwcHBwcHBwcHBwcHBw"`,
}

// streamOutcome decodes up to three values from r and renders verdicts and values.
func streamOutcome(r io.Reader, t reflect.Type, useNumber bool) (out string) {
	var sb strings.Builder
	p, msg := util.Safe(func() {
		d := json.NewDecoder(r)
		if useNumber {
			d.UseNumber()
		}
		for i := 0; i < 3; i++ {
			dst := reflect.New(t)
			err := d.Decode(dst.Interface())
			if err == nil {
				sb.WriteString("v(" + oracle.Canon(dst.Elem()) + ")")
				continue
			}
			if err == io.EOF {
				sb.WriteString("E")
			} else if errors.Is(err, errInjected) || strings.Contains(err.Error(), errInjected.Error()) {
				sb.WriteString("R")
			} else {
				sb.WriteString("x")
			}
			break
		}
	})
	if p {
		return "PANIC:" + util.ErrClass(msg)
	}
	return sb.String()
}

// bufferOutcome is the same judgement made by Unmarshal on the whole text.
func bufferOutcome(b []byte, t reflect.Type, useNumber bool) string {
	dst := reflect.New(t)
	var err error
	p, msg := util.Safe(func() {
		if useNumber {
			// UseNumber exists on the Decoder only: the buffer-mode reference is a Decoder
			// reading the whole text at once followed by the end-of-input test
			d := json.NewDecoder(bytes.NewReader(b))
			d.UseNumber()
			err = d.Decode(dst.Interface())
			if err == nil {
				var x interface{}
				if e2 := d.Decode(&x); e2 != io.EOF {
					err = fmt.Errorf("trailing data")
				}
			}
			return
		}
		err = json.Unmarshal(append([]byte(nil), b...), dst.Interface())
	})
	if p {
		return "PANIC:" + util.ErrClass(msg)
	}
	if err != nil {
		return "x"
	}
	return "v(" + oracle.Canon(dst.Elem()) + ")E"
}

// tokenAt describes where offset p falls: token kind and offset inside it.
func tokenAt(b []byte, p int) string {
	i := 0
	for i < len(b) {
		c := b[i]
		j := i + 1
		kind := "punct"
		switch {
		case c == ' ' || c == '\n' || c == '\t' || c == '\r':
			kind = "space"
		case c == '"':
			kind = "string"
			for j < len(b) && b[j] != '"' {
				if b[j] == '\\' {
					j++
				}
				j++
			}
			j++
		case strings.IndexByte("[]{},:", c) >= 0:
		default:
			kind = "number"
			if c == 't' || c == 'f' || c == 'n' {
				kind = "literal"
			}
			for j < len(b) && strings.IndexByte("[]{},: \n\t\r\"", b[j]) < 0 {
				j++
			}
		}
		if j > len(b) {
			j = len(b)
		}
		if p > i && p < j {
			off := p - i
			inside := ""
			if kind == "string" {
				// what precedes the cut inside the string
				seg := string(b[i:p])
				switch {
				case strings.HasSuffix(seg, `\`):
					inside = " after-backslash"
				case len(seg) >= 2 && seg[len(seg)-2] == '\\' && seg[len(seg)-1] == 'u':
					inside = " after-\\u"
				default:
					if k := strings.LastIndex(seg, `\u`); k >= 0 && len(seg)-k <= 5 {
						inside = fmt.Sprintf(" inside-\\u+%d", len(seg)-k-2)
					} else if p < len(b) && b[p] >= 0x80 && b[p] < 0xC0 {
						inside = " inside-utf8-sequence"
					}
				}
				return "inside string" + inside
			}
			if off > 6 {
				off = 6
			}
			return fmt.Sprintf("inside %s +%d", kind, off)
		}
		if p == i {
			return "before " + kind
		}
		i = j
	}
	return "at end"
}

func c09Docs(c *work.Ctx) []string {
	depth := 2
	docs := universe.Docs(depth)
	// numbers and strings that exercise the scanners
	docs = append(docs, `-12.5e+3`, `"ab\u00e9\ud83d\ude00\n"`, `["\\","\"",""]`, `{"k\u0041":"v"}`, ` [ 1 , 2 ] `, "\n{\n\"a\"\n:\n1\n}\n", `"\ud83d"`, `"\ud83dx"`, `123456789`, `1.0`, `[1.5,-0,1e2]`, `"QUJD"`, `[true,false]`)
	// number literals that are not integers (a type error for integer destinations wherever the reader stops)
	docs = append(docs, `0.5`, `-0.5`, `0e1`, `0`, `-0`, `10.5`, `[0.5]`, `{"a":0.5}`, `100`, `-128`)
	// arrays whose later elements are null or partial objects (what a scratch array holds from an earlier decode shows there)
	docs = append(docs, `[1,2,3,4,5]`, `[1,2,null,4,null]`, `[{"a":1,"b":"x"},{"a":2,"b":"y"},{"a":3,"b":"z"},{"a":4,"b":"w"}]`, `[{},{"a":7},{},{"b":"q"}]`, `[null,null,null,{"a":1}]`, `["a","b","c","d"]`, `["a",null,null,null]`)
	// a member no document can fill except with null
	docs = append(docs, `{"a":1,"f":null,"b":"x"}`, `{"f":true,"b":"y"}`, `{"a":2,"f":false}`, `{"f":[1],"a":3}`)
	// invalid texts (the stream must reject them for every chunking as well)
	docs = append(docs, `nxll`, `nul`, `tru`, `[true,fa1se]`, `"\uZZZZ"`, `0x1`, `[1,]`, `{"a":1,}`, `[1 2]`, `{"a" 1}`, `"abc`, `[`, `{"a":`, `01`, `1.`, `-`, "\"a\nb\"", `{"a":1}}`, `[1]]`, `1 2`, `{"a":tru}`, `[nul]`, `"\x"`, `"\u12"`)
	return docs
}

func c09Chunks(c *work.Ctx) {
	docs := c09Docs(c)
	maxAll := 12
	for _, doc := range docs {
		b := []byte(doc)
		n := len(b)
		for di := range c09Dests {
			d := &c09Dests[di]
			if !c.BeginS(d.name + " <- " + doc) {
				continue
			}
			// what an EARLIER decode of the same type left in the library's pooled scratch arrays must not show: before
			// every decode of a slice destination, a document of eight non-zero elements is decoded into the same type
			poison := func() {}
			if pd, ok := c09Poison[d.name]; ok {
				poison = func() {
					x := reflect.New(d.t)
					_ = json.Unmarshal([]byte(pd), x.Interface())
				}
			}
			poison()
			whole := streamOutcome(bytes.NewReader(b), d.t, d.num)
			poison()
			buf := bufferOutcome(b, d.t, d.num)
			c.Outcome(whole)
			// (1) the whole-input stream agrees with Unmarshal: one value then EOF exactly when Unmarshal succeeds
			if strings.HasPrefix(buf, "PANIC") || strings.HasPrefix(whole, "PANIC") {
				c.Violation(fmt.Sprintf("panic : %s : %s", d.name, tokenShape(doc)), doc, "buffer "+buf+" stream "+whole)
			} else if (buf != "x") != (strings.HasPrefix(whole, "v(") && strings.HasSuffix(whole, ")E") && strings.Count(whole, "v(") == 1) || (buf != "x" && buf != whole) {
				c.Violation(fmt.Sprintf("stream-vs-buffer : %s : %s", d.name, c09Verdicts(buf)+" vs "+c09Verdicts(whole)+" : "+c09DocClass(b)), doc,
					fmt.Sprintf("Unmarshal: %s ; Decoder on the whole input: %s (v=value x=error E=EOF)", clip([]byte(buf)), clip([]byte(whole))))
			}
			// (2) every chunking gives what the whole-input reader gives
			try := func(r *chunkReader, what string, cut int) {
				poison()
				got := streamOutcome(r, d.t, d.num)
				c.Count("chunked_decodes", 1)
				if got != whole {
					where := "n/a"
					if cut >= 0 {
						where = tokenAt(b, cut)
					}
					c.Violation(fmt.Sprintf("chunking-dependent : %s : cut %s : %s", d.name, where, c09Verdicts(whole)+" -> "+c09Verdicts(got)), doc,
						fmt.Sprintf("%s: whole-input reader gives %s ; this reader gives %s", what, clip([]byte(whole)), clip([]byte(got))))
				}
			}
			if n <= maxAll {
				for mask := 0; mask < 1<<uint(n-1); mask++ {
					var cuts []int
					for k := 0; k < n-1; k++ {
						if mask&(1<<uint(k)) != 0 {
							cuts = append(cuts, k+1)
						}
					}
					first := -1
					if len(cuts) > 0 {
						first = cuts[0]
					}
					try(&chunkReader{data: b, cuts: cuts, zeroAt: -1, failAt: -1}, fmt.Sprintf("cuts %v", cuts), first)
				}
			} else {
				for k := 1; k < n; k++ {
					try(&chunkReader{data: b, cuts: []int{k}, zeroAt: -1, failAt: -1}, fmt.Sprintf("cut at %d", k), k)
					if !c.Quick() {
						for k2 := k + 1; k2 < n; k2++ {
							try(&chunkReader{data: b, cuts: []int{k, k2}, zeroAt: -1, failAt: -1}, fmt.Sprintf("cuts at %d,%d", k, k2), k)
						}
					}
				}
			}
			for k := 1; k < n; k++ {
				try(&chunkReader{data: b, cuts: []int{k}, eofWith: true, zeroAt: -1, failAt: -1}, fmt.Sprintf("cut at %d, EOF with the last piece", k), k)
				try(&chunkReader{data: b, zeroAt: k, failAt: -1}, fmt.Sprintf("(0,nil) read at %d", k), k)
				try(&chunkReader{data: b, cuts: []int{k}, scribble: true, zeroAt: -1, failAt: -1}, fmt.Sprintf("cut at %d, the reader overwrites the rest of the buffer it is given", k), k)
			}
			try(&chunkReader{data: b, eofWith: true, zeroAt: -1, failAt: -1}, "EOF with the only piece", -1)
			try(&chunkReader{data: b, scribble: true, zeroAt: -1, failAt: -1}, "the reader overwrites the rest of the buffer it is given", -1)
			for ps := 1; ps <= 17; ps++ {
				try(&chunkReader{data: b, pieceSize: ps, zeroAt: -1, failAt: -1}, fmt.Sprintf("piece size %d", ps), ps)
			}
			if c.WantSample() {
				c.Sample(fmt.Sprintf("%s <- %q under all chunkings", d.name, doc))
			}
			c.EndCase()
		}
	}
}

func c09Verdicts(s string) string {
	if strings.HasPrefix(s, "PANIC") {
		return "panic"
	}
	var sb strings.Builder
	depth := 0
	for i := 0; i < len(s); i++ {
		switch s[i] {
		case '(':
			depth++
		case ')':
			depth--
		default:
			if depth == 0 {
				sb.WriteByte(s[i])
			}
		}
	}
	return sb.String()
}

func c09DocClass(b []byte) string {
	if oracle.Valid(b) {
		return "valid " + tokenShape(string(b))
	}
	return "invalid :: " + c05StdClass(b)
}

// ---- long documents: tokens of interest around the 512 and 1024 byte buffer boundaries ----------

func c09Long(c *work.Ctx) {
	tokens := []string{`"a\n\"b\\"`, `"\ud83d\ude00"`, `"\u00e9\u00e9"`, `"éé😀"`, `-12.5e+3`, `true`, `null`, `false`, `{"key":1}`, `[1,2]`, `12345678`, `""`}
	ends := []int{509, 510, 511, 512, 513, 514, 1021, 1022, 1023, 1024, 1025, 1026}
	dests := []int{0, 1, 2, 4}
	for _, tk := range tokens {
		for _, end := range ends {
			for _, how := range []string{"string-padding", "space-padding"} {
				// `[` pad `,` token `]` with the token ending exactly at offset end
				var doc string
				switch how {
				case "string-padding":
					p := end - len(tk) - 4 // [ " pad " ,
					if p < 0 {
						continue
					}
					doc = `["` + strings.Repeat("x", p) + `",` + tk + `]`
				default:
					p := end - len(tk) - 1
					if p < 0 {
						continue
					}
					doc = `[` + strings.Repeat(" ", p) + tk + `]`
				}
				b := []byte(doc)
				for _, di := range dests {
					d := &c09Dests[di]
					if !c.BeginS(fmt.Sprintf("%s <- %s token %s ending at %d", d.name, how, tk, end)) {
						continue
					}
					buf := bufferOutcome(b, d.t, d.num)
					whole := streamOutcome(bytes.NewReader(b), d.t, d.num)
					c.Outcome(c09Verdicts(whole))
					if buf != whole {
						c.Violation(fmt.Sprintf("long document : %s : token %s ending at buffer offset %d (%s) : %s", d.name, tokenShape(tk), end%512, how, c09Verdicts(buf)+" vs "+c09Verdicts(whole)), doc[:20]+"..."+doc[len(doc)-24:],
							fmt.Sprintf("Unmarshal %s ; Decoder %s", clipTail([]byte(buf)), clipTail([]byte(whole))))
					}
					// single cuts within 16 bytes of the token and piece sizes that straddle the boundary
					lo, hi := end-len(tk)-16, end+4
					if lo < 1 {
						lo = 1
					}
					if hi > len(b)-1 {
						hi = len(b) - 1
					}
					for k := lo; k <= hi; k++ {
						got := streamOutcome(&chunkReader{data: b, cuts: []int{k}, zeroAt: -1, failAt: -1}, d.t, d.num)
						c.Count("chunked_decodes", 1)
						if got != whole {
							c.Violation(fmt.Sprintf("long document chunking-dependent : %s : cut %s : token ending at buffer offset %d", d.name, tokenAt(b, k), end%512), fmt.Sprintf("%s token %s end %d cut %d", how, tk, end, k),
								fmt.Sprintf("whole %s ; cut at %d gives %s", clipTail([]byte(whole)), k, clipTail([]byte(got))))
						}
					}
					for _, ps := range []int{1, 7, 511, 512, 513} {
						got := streamOutcome(&chunkReader{data: b, pieceSize: ps, zeroAt: -1, failAt: -1}, d.t, d.num)
						if got != whole {
							c.Violation(fmt.Sprintf("long document chunking-dependent : %s : piece size %d : token %s ending at buffer offset %d", d.name, ps, tokenShape(tk), end%512), fmt.Sprintf("%s token %s end %d", how, tk, end),
								fmt.Sprintf("whole %s ; piece size %d gives %s", clipTail([]byte(whole)), ps, clipTail([]byte(got))))
						}
					}
					if c.WantSample() {
						c.Sample(fmt.Sprintf("%s <- %d-byte document, token %s ending at %d", d.name, len(b), tk, end))
					}
					c.EndCase()
				}
			}
		}
	}
}

// c09LongTyped: as c09Long, with typed element destinations (each scalar stream decoder has its
// own scanning loop and its own way of carrying on after a refill): the token of interest ends
// at offsets 509..514 / 1021..1026 of `[ <spaces> token ]` and of `{"k": <spaces> token }`.
func c09LongTyped(c *work.Ctx) {
	type tk struct {
		tok   string
		elems []reflect.Type
	}
	ints := []reflect.Type{reflect.TypeOf(int(0)), reflect.TypeOf(int8(0)), reflect.TypeOf(int64(0)), reflect.TypeOf(uint(0)), reflect.TypeOf(uint16(0)), reflect.TypeOf(float64(0)), reflect.TypeOf(float32(0)), reflect.TypeOf(stdjson.Number("")), reflect.TypeOf((*int)(nil))}
	toks := []tk{
		{"12345", ints}, {"-123", []reflect.Type{reflect.TypeOf(int(0)), reflect.TypeOf(int16(0)), reflect.TypeOf(float64(0)), reflect.TypeOf(stdjson.Number(""))}},
		{"1234567890123", []reflect.Type{reflect.TypeOf(int64(0)), reflect.TypeOf(uint64(0)), reflect.TypeOf(float64(0))}},
		{"-12.5e+3", []reflect.Type{reflect.TypeOf(float64(0)), reflect.TypeOf(float32(0)), reflect.TypeOf(stdjson.Number(""))}},
		{"true", []reflect.Type{reflect.TypeOf(false), reflect.TypeOf((*bool)(nil))}}, {"false", []reflect.Type{reflect.TypeOf(false)}},
		{"null", []reflect.Type{reflect.TypeOf((*int)(nil)), reflect.TypeOf(""), reflect.TypeOf([]int(nil)), reflect.TypeOf(map[string]int(nil))}},
		{`"abcdef"`, []reflect.Type{reflect.TypeOf(""), reflect.TypeOf([]byte(nil)), reflect.TypeOf(universe.UT{}), reflect.TypeOf(stdjson.RawMessage(nil))}},
		{`"QUJDREVG"`, []reflect.Type{reflect.TypeOf([]byte(nil))}},
		{`"1970-01-01T00:00:01Z"`, []reflect.Type{reflect.TypeOf(time.Time{})}},
		{`[1,22,333]`, []reflect.Type{reflect.TypeOf([]int(nil)), reflect.TypeOf([3]int{}), reflect.TypeOf([]float64(nil))}},
		{`{"a":12,"b":"xy"}`, []reflect.Type{reflect.TypeOf(map[string]interface{}(nil)), reflect.TypeOf(struct {
			A int    `json:"a"`
			B string `json:"b"`
		}{})}},
		{`"12345"`, []reflect.Type{reflect.TypeOf(struct{}{})}}, // placeholder, replaced below by the ,string member form
	}
	ends := []int{509, 510, 511, 512, 513, 514, 1021, 1022, 1023, 1024, 1025, 1026}
	type sQ struct {
		Q int `json:"q,string"`
	}
	for _, t := range toks {
		for _, et := range t.elems {
			if et == nil {
				continue
			}
			for _, end := range ends {
				for _, form := range []string{"array element", "object member"} {
					var doc string
					var dt reflect.Type
					switch {
					case t.tok == `"12345"` && et.Kind() == reflect.Struct:
						if form != "object member" {
							continue
						}
						p := end - len(t.tok) - 5
						doc = `{"q":` + strings.Repeat(" ", p) + t.tok + `}`
						dt = reflect.TypeOf(sQ{})
					case form == "array element":
						p := end - len(t.tok) - 1
						doc = `[` + strings.Repeat(" ", p) + t.tok + `,` + t.tok + `]`
						dt = reflect.SliceOf(et)
					default:
						p := end - len(t.tok) - 5
						doc = `{"k":` + strings.Repeat(" ", p) + t.tok + `,"j":` + t.tok + `}`
						dt = reflect.MapOf(reflect.TypeOf(""), et)
					}
					b := []byte(doc)
					id := fmt.Sprintf("%s <- %s %s ending at %d", dt, form, t.tok, end)
					if !c.BeginS(id) {
						continue
					}
					buf := bufferOutcome(b, dt, false)
					whole := streamOutcome(bytes.NewReader(b), dt, false)
					c.Outcome(c09Verdicts(whole))
					if buf != whole {
						c.Violation(fmt.Sprintf("long document, typed : %s of %s : token %s ending at buffer offset %d : %s", form, et, tokenShape(t.tok), end%512, c09Verdicts(buf)+" vs "+c09Verdicts(whole)), id,
							fmt.Sprintf("Unmarshal %s ; Decoder %s", clipTail([]byte(buf)), clipTail([]byte(whole))))
					}
					for _, ps := range []int{1, 3, 7, 511, 512, 513} {
						got := streamOutcome(&chunkReader{data: b, pieceSize: ps, zeroAt: -1, failAt: -1}, dt, false)
						c.Count("chunked_decodes", 1)
						if got != whole {
							c.Violation(fmt.Sprintf("long document, typed, chunking-dependent : %s of %s : piece size %d : token %s ending at buffer offset %d", form, et, ps, tokenShape(t.tok), end%512), id,
								fmt.Sprintf("whole %s ; piece size %d gives %s", clipTail([]byte(whole)), ps, clipTail([]byte(got))))
						}
					}
					lo, hi := end-len(t.tok)-3, end+3
					for k := lo; k <= hi && k < len(b); k++ {
						if k < 1 {
							continue
						}
						got := streamOutcome(&chunkReader{data: b, cuts: []int{k}, zeroAt: -1, failAt: -1}, dt, false)
						c.Count("chunked_decodes", 1)
						if got != whole {
							c.Violation(fmt.Sprintf("long document, typed, chunking-dependent : %s of %s : cut %s : token ending at buffer offset %d", form, et, tokenAt(b, k), end%512), id,
								fmt.Sprintf("whole %s ; cut at %d gives %s", clipTail([]byte(whole)), k, clipTail([]byte(got))))
						}
					}
					if c.WantSample() {
						c.Sample(id)
					}
					c.EndCase()
				}
			}
		}
	}
}

func clipTail(b []byte) string {
	if len(b) > 120 {
		return "..." + string(b[len(b)-120:])
	}
	return string(b)
}

// ---- reader failures ------------------------------------------------------------------------

// needBytes: how many bytes of b a decoder must have seen to return the first value.
func needBytes(b []byte) int {
	i := 0
	for i < len(b) && (b[i] == ' ' || b[i] == '\n' || b[i] == '\t' || b[i] == '\r') {
		i++
	}
	if i >= len(b) {
		return len(b) + 1
	}
	d := stdjson.NewDecoder(bytes.NewReader(b))
	var raw stdjson.RawMessage
	if err := d.Decode(&raw); err != nil {
		return len(b) + 1
	}
	end := int(d.InputOffset())
	c := b[i]
	if (c == '-' || (c >= '0' && c <= '9')) && end < len(b) {
		return end + 1 // a number ends only when a further byte has been seen
	}
	if c == '-' || (c >= '0' && c <= '9') {
		return len(b) + 1 // a number at the very end ends only at EOF
	}
	return end
}

// c09TokenList returns the tokens a Decoder hands out until the first error.
func c09TokenList(r io.Reader) (out []string) {
	p, msg := util.Safe(func() {
		d := json.NewDecoder(r)
		for i := 0; i < 64; i++ {
			t, err := d.Token()
			if err != nil {
				return
			}
			out = append(out, fmt.Sprintf("%T:%v", t, t))
		}
	})
	if p {
		out = append(out, "PANIC:"+util.ErrClass(msg))
	}
	return out
}

// c09TokensNeed: how many bytes of b must have been seen before its first n tokens are known to be complete
// (computed with encoding/json's tokenizer on growing prefixes; a number needs the byte after it).
func c09TokensNeed(b []byte, n int) int {
	for k := 0; k <= len(b); k++ {
		d := stdjson.NewDecoder(bytes.NewReader(b[:k]))
		cnt := 0
		var last interface{}
		for cnt < n {
			t, err := d.Token()
			if err != nil {
				break
			}
			last = t
			cnt++
		}
		if cnt >= n {
			// a prefix that ends in a number yields that number at EOF although more of it might follow
			if _, isNum := last.(float64); isNum && int(d.InputOffset()) == k && k < len(b) {
				if isNumByte(b[k]) {
					continue
				}
				return k + 1
			}
			return k
		}
	}
	return len(b) + 1
}

func isNumByte(c byte) bool {
	return c >= '0' && c <= '9' || c == '-' || c == '+' || c == '.' || c == 'e' || c == 'E'
}

func c09FaultMode(r *chunkReader) string {
	s := ""
	if r.failWith {
		s += " : error returned together with data"
	}
	if r.failOnce {
		s += " : error reported once, then EOF"
	}
	return s
}

func c09Faults(c *work.Ctx) {
	docs := universe.Docs(2)
	docs = append(docs, `-12.5e+3`, `"ab\u00e9\ud83d\ude00\n"`, ` [ 1 , 2 ] `, `123456789`, `12 `, `[12,345]`)
	dests := []int{0, 2, 5, 8, 10, 12}
	for _, doc := range docs {
		b := []byte(doc)
		need := needBytes(b)
		for _, di := range dests {
			d := &c09Dests[di]
			if !c.BeginS("fault " + d.name + " <- " + doc) {
				continue
			}
			for k := 0; k <= len(b); k++ {
				// how the failure is delivered: (0, err) on every later Read; together with the last bytes; only once,
				// io.EOF afterwards (a reader need not repeat an error it has reported)
				for mode := 0; mode < 8; mode++ {
					cut := mode&1 != 0
					r := &chunkReader{data: b, zeroAt: -1, failAt: k, failWith: mode&2 != 0, failOnce: mode&4 != 0}
					if cut && k > 1 {
						r.cuts = []int{k / 2}
					} else if cut {
						continue
					}
					got := streamOutcome(r, d.t, d.num)
					c.Count("faulted_decodes", 1)
					c.Outcome(c09Verdicts(got))
					if strings.HasPrefix(got, "PANIC") {
						c.Violation(fmt.Sprintf("reader failure : %s : panic", d.name), doc, got)
						continue
					}
					if strings.HasPrefix(got, "v(") && k < need {
						c.Violation(fmt.Sprintf("reader failure swallowed : %s : failure %s%s", d.name, tokenAt(b, k), c09FaultMode(r)), fmt.Sprintf("%s failing after %d bytes%s", doc, k, c09FaultMode(r)),
							fmt.Sprintf("the reader fails after %d of %d bytes (the first value needs %d) but Decode returns a value: %s", k, len(b), need, clip([]byte(got))))
					}
					if !strings.Contains(got, "R") && !strings.HasPrefix(got, "v(") && k < need && !strings.HasPrefix(got, "x") {
						c.Violation(fmt.Sprintf("reader failure not reported : %s : %s%s", d.name, c09Verdicts(got), c09FaultMode(r)), fmt.Sprintf("%s failing after %d bytes%s", doc, k, c09FaultMode(r)), got)
					}
				}
			}
			// Token under the same failures (once per document): every token handed out must be a token of the
			// complete document, in order, and must lie entirely within the bytes delivered before the failure — a
			// number that ends where the delivered bytes end is not known to be complete
			if di == dests[0] {
				full := c09TokenList(bytes.NewReader(b))
				for k := 0; k <= len(b); k++ {
					for mode := 0; mode < 4; mode++ {
						r := &chunkReader{data: b, zeroAt: -1, failAt: k, failWith: mode&1 != 0, failOnce: mode&2 != 0}
						got := c09TokenList(r)
						c.Count("faulted_token_runs", 1)
						bad := ""
						if len(got) > 0 && strings.HasPrefix(got[len(got)-1], "PANIC") {
							bad = "panic"
						}
						for i, t := range got {
							if bad != "" {
								break
							}
							if i >= len(full) || t != full[i] {
								bad = fmt.Sprintf("token %d is %s, which is not token %d of the complete document", i, t, i)
							}
						}
						if bad == "" && k < len(b) && len(got) > 0 {
							// the last token returned must be delimited inside b[:k]
							if n := len(got); c09TokensNeed(b, n) > k {
								bad = fmt.Sprintf("%d tokens were handed out although the reader failed after %d bytes (they need %d)", n, k, c09TokensNeed(b, n))
							}
						}
						if bad != "" {
							c.Violation(fmt.Sprintf("reader failure : Token : %s%s", c09DocClass(b), c09FaultMode(r)), fmt.Sprintf("%s failing after %d bytes%s", doc, k, c09FaultMode(r)), bad+fmt.Sprintf(" ; tokens %v", got))
						}
					}
				}
			}
			if c.WantSample() {
				c.Sample(fmt.Sprintf("%s <- %q with a reader failure at every byte", d.name, doc))
			}
			c.EndCase()
		}
	}
}

// ---- streams of several documents --------------------------------------------------------------

func c09Multi(c *work.Ctx) {
	docs := []string{`1`, `"a"`, `[1]`, `{"a":1}`, `true`, `null`, `12`, `[]`, `"x\ny"`, `-0.5`}
	seps := []string{"", " ", "\n"}
	selfDelim := func(s string) bool { c := s[len(s)-1]; return c == ']' || c == '}' || c == '"' }
	var streams [][]string
	var build func(cur []string, depth int)
	build = func(cur []string, depth int) {
		if len(cur) > 0 {
			streams = append(streams, append([]string(nil), cur...))
		}
		if depth == 3 {
			return
		}
		for _, d := range docs {
			build(append(cur, d), depth+1)
		}
	}
	build(nil, 0)
	it := reflect.TypeOf((*interface{})(nil)).Elem()
	for _, st := range streams {
		for _, sep := range seps {
			ok := true
			if sep == "" {
				for i := 0; i+1 < len(st); i++ {
					if !selfDelim(st[i]) {
						ok = false
					}
				}
			}
			if !ok {
				continue
			}
			text := strings.Join(st, sep) + sep
			b := []byte(text)
			if !c.BeginS("multi " + text) {
				continue
			}
			// expected: the documents one by one
			var want strings.Builder
			for _, d := range st {
				dst := reflect.New(it)
				if err := json.Unmarshal([]byte(d), dst.Interface()); err != nil {
					want.WriteString("x")
					break
				}
				want.WriteString("v(" + oracle.Canon(dst.Elem()) + ")")
			}
			want.WriteString("E")
			run := func(r io.Reader) (vals string, trace string) {
				var sb, tr strings.Builder
				p, msg := util.Safe(func() {
					d := json.NewDecoder(r)
					for i := 0; i < 5; i++ {
						fmt.Fprintf(&tr, "more=%v ", d.More())
						dst := reflect.New(it)
						err := d.Decode(dst.Interface())
						if err != nil {
							if err == io.EOF {
								sb.WriteString("E")
							} else {
								sb.WriteString("x")
							}
							break
						}
						sb.WriteString("v(" + oracle.Canon(dst.Elem()) + ")")
						fmt.Fprintf(&tr, "off=%d ", d.InputOffset())
					}
				})
				if p {
					return "PANIC:" + util.ErrClass(msg), ""
				}
				return sb.String(), tr.String()
			}
			stdTrace := func() string {
				var tr strings.Builder
				d := stdjson.NewDecoder(bytes.NewReader(b))
				for i := 0; i < 5; i++ {
					fmt.Fprintf(&tr, "more=%v ", d.More())
					var x interface{}
					if err := d.Decode(&x); err != nil {
						break
					}
					fmt.Fprintf(&tr, "off=%d ", d.InputOffset())
				}
				return tr.String()
			}()
			shape := fmt.Sprintf("%d documents sep %q", len(st), sep)
			check := func(r io.Reader, what string) {
				got, tr := run(r)
				c.Outcome(c09Verdicts(got))
				if got != want.String() {
					c.Violation(fmt.Sprintf("multi-document values : %s : %s vs %s", shape, c09Verdicts(want.String()), c09Verdicts(got)), text,
						fmt.Sprintf("%s: one by one %s ; as a stream %s", what, clip([]byte(want.String())), clip([]byte(got))))
				} else if tr != stdTrace {
					c.Violation(fmt.Sprintf("multi-document More/InputOffset : %s", shape), text, fmt.Sprintf("%s: go-json %s ; encoding/json %s", what, tr, stdTrace))
				}
			}
			check(bytes.NewReader(b), "whole input")
			for k := 1; k < len(b); k++ {
				check(&chunkReader{data: b, cuts: []int{k}, zeroAt: -1, failAt: -1}, fmt.Sprintf("cut at %d", k))
			}
			check(&chunkReader{data: b, pieceSize: 1, zeroAt: -1, failAt: -1}, "piece size 1")
			// Token sequence equals encoding/json's
			tokensOf := func(r io.Reader) string {
				var sb strings.Builder
				p, msg := util.Safe(func() {
					d := json.NewDecoder(r)
					for i := 0; i < 40; i++ {
						t, err := d.Token()
						if err != nil {
							sb.WriteString("!")
							break
						}
						fmt.Fprintf(&sb, "%T:%v ", t, t)
					}
				})
				if p {
					return "PANIC:" + msg
				}
				return sb.String()
			}
			gt := tokensOf(bytes.NewReader(b))
			// the token sequence does not depend on how the reader delivers the input
			for k := 1; k < len(b); k++ {
				if got := tokensOf(&chunkReader{data: b, cuts: []int{k}, zeroAt: -1, failAt: -1}); got != gt {
					c.Violation(fmt.Sprintf("multi-document Token sequence chunking-dependent : %s : cut %s", shape, tokenAt(b, k)), text, fmt.Sprintf("cut at %d: %s ; whole input: %s", k, got, gt))
					break
				}
			}
			if got := tokensOf(&chunkReader{data: b, pieceSize: 1, zeroAt: -1, failAt: -1}); got != gt {
				c.Violation(fmt.Sprintf("multi-document Token sequence chunking-dependent : %s : one byte per Read", shape), text, fmt.Sprintf("one byte per Read: %s ; whole input: %s", got, gt))
			}
			wt := func() string {
				var sb strings.Builder
				d := stdjson.NewDecoder(bytes.NewReader(b))
				for i := 0; i < 40; i++ {
					t, err := d.Token()
					if err != nil {
						sb.WriteString("!")
						break
					}
					fmt.Fprintf(&sb, "%T:%v ", t, t)
				}
				return sb.String()
			}()
			if strings.ReplaceAll(gt, "json.Delim", "D") != strings.ReplaceAll(wt, "json.Delim", "D") {
				c.Violation(fmt.Sprintf("multi-document Token sequence : %s : %s", shape, tokenShape(text)), text, fmt.Sprintf("go-json %s ; encoding/json %s", gt, wt))
			}
			if c.WantSample() {
				c.Sample("stream " + text)
			}
			c.EndCase()
		}
	}
}

// ---- string contents under every cut ----------------------------------------------------------

// c09Strings: every string literal made of at most 3 (thorough: 4) content atoms — plain byte,
// simple escapes, \u escapes (BMP and surrogate pair), raw 2/3/4-byte characters, an ill-formed
// byte — in four positions (top-level string, slice element, map key, struct member), decoded
// under every single cut (thorough: every pair of cuts), with EOF attached, and in fixed pieces
// of 1..8 bytes. The decoder keeps a running account of the buffered length while it unescapes
// in place; these are the inputs on which an earlier atom's bookkeeping decides how a later
// atom that straddles a cut is read.
func c09Strings(c *work.Ctx) {
	atoms := []string{"a", `\n`, `\"`, `\\`, `\u00e9`, `\ud83d\ude00`, "é", "€", "😀", "\xff"}
	maxLen := 3
	if !c.Quick() {
		maxLen = 4
	}
	type wrap struct {
		name     string
		pre, suf string
		dest     int
	}
	find := func(name string) int {
		for i := range c09Dests {
			if c09Dests[i].name == name {
				return i
			}
		}
		panic("no destination " + name)
	}
	wraps := []wrap{
		{"string", `"`, `"`, find("string")},
		{"[]string element", `["`, `","z"]`, find("[]string")},
		{"map key", `{"`, `":1}`, find("map[string]int")},
		{"struct member", `{"a":1,"b":"`, `"}`, find("struct{A int;B string}")},
		{"interface{}", `["`, `"]`, find("interface{}")},
	}
	var gen func(cur []string, n int)
	emit := func(parts []string) {
		body := strings.Join(parts, "")
		shape := strings.Join(func() []string {
			var s []string
			for _, p := range parts {
				switch {
				case p == "a":
					s = append(s, "byte")
				case p == "\xff":
					s = append(s, "ill-formed")
				case p[0] == '\\' && len(p) == 2:
					s = append(s, "escape")
				case p[0] == '\\' && len(p) == 6:
					s = append(s, `\u`)
				case p[0] == '\\':
					s = append(s, `\u-pair`)
				default:
					s = append(s, fmt.Sprintf("utf8x%d", len(p)))
				}
			}
			return s
		}(), " ")
		for _, w := range wraps {
			doc := w.pre + body + w.suf
			b := []byte(doc)
			d := &c09Dests[w.dest]
			if !c.BeginS("string atoms: " + w.name + " <- " + doc) {
				continue
			}
			buf := bufferOutcome(b, d.t, d.num)
			whole := streamOutcome(bytes.NewReader(b), d.t, d.num)
			c.Outcome(whole)
			if buf != whole {
				cause := shape
				if strings.Contains(body, "\xff") && c09Verdicts(buf) == c09Verdicts(whole) {
					// one root cause whatever surrounds the byte: Unmarshal keeps an ill-formed byte, the typed stream path replaces it
					cause = "value differs, the string contains an ill-formed UTF-8 byte"
				}
				c.Violation(fmt.Sprintf("string contents : %s : stream-vs-buffer : %s", w.name, cause), doc,
					fmt.Sprintf("Unmarshal %s ; Decoder on the whole input %s", clip([]byte(buf)), clip([]byte(whole))))
			}
			try := func(r *chunkReader, what string) {
				got := streamOutcome(r, d.t, d.num)
				c.Count("chunked_decodes", 1)
				if got != whole {
					c.Violation(fmt.Sprintf("string contents chunking-dependent : %s : %s : %s", w.name, shape, c09Verdicts(whole)+" -> "+c09Verdicts(got)), doc,
						fmt.Sprintf("%s: whole-input reader gives %s ; this reader gives %s", what, clip([]byte(whole)), clip([]byte(got))))
				}
			}
			n := len(b)
			for k := 1; k < n; k++ {
				try(&chunkReader{data: b, cuts: []int{k}, zeroAt: -1, failAt: -1}, fmt.Sprintf("cut at %d", k))
				try(&chunkReader{data: b, cuts: []int{k}, eofWith: true, zeroAt: -1, failAt: -1}, fmt.Sprintf("cut at %d, EOF with the last piece", k))
				if !c.Quick() {
					for k2 := k + 1; k2 < n; k2++ {
						try(&chunkReader{data: b, cuts: []int{k, k2}, zeroAt: -1, failAt: -1}, fmt.Sprintf("cuts at %d,%d", k, k2))
					}
				}
			}
			for ps := 1; ps <= 8; ps++ {
				try(&chunkReader{data: b, pieceSize: ps, zeroAt: -1, failAt: -1}, fmt.Sprintf("piece size %d", ps))
			}
			if c.WantSample() {
				c.Sample(fmt.Sprintf("%s <- %q under every cut", w.name, doc))
			}
			c.EndCase()
		}
	}
	gen = func(cur []string, n int) {
		if len(cur) > 0 {
			emit(cur)
		}
		if n == 0 {
			return
		}
		for _, a := range atoms {
			gen(append(cur, a), n-1)
		}
	}
	gen(nil, maxLen)
}

// ---- values of one stream stay what they were -------------------------------------------------

// c09Retain: streams of 2..3 documents into typed destinations whose decoded values may share
// memory with the stream's buffer (strings, Number, RawMessage, []byte, map keys). Every value is
// kept and rendered twice: right after its Decode and after the whole stream has been consumed.
// Both must equal Unmarshal of that document alone, for the whole-input reader, every single cut,
// every way of cutting exactly at document ends (one document per Read, with the separator on
// either side of the cut), and fixed pieces of 1..8 bytes.
func c09Retain(c *work.Ctx) {
	type dk struct {
		name string
		t    reflect.Type
		docs []string
	}
	kinds := []dk{
		{"[]string", reflect.TypeOf([]string(nil)), []string{`["ab","cd"]`, `["x"]`, `["a longer string é","y"]`, `[]`}},
		{"struct{A int;B string}", reflect.TypeOf(struct {
			A int    `json:"a"`
			B string `json:"b"`
		}{}), []string{`{"a":1,"b":"first"}`, `{"a":2,"b":"second, longer"}`, `{"b":"x"}`, `{"a":3}`}},
		{"map[string]string", reflect.TypeOf(map[string]string(nil)), []string{`{"k":"v1"}`, `{"key2":"value2","k":"w"}`, `{}`}},
		{"string", reflect.TypeOf(""), []string{`"abc"`, `"defgh-ijkl"`, `"\n"`, `""`}},
		{"Number", reflect.TypeOf(stdjson.Number("")), []string{`12`, `-3.25e2`, `1234567890123`}},
		{"RawMessage", reflect.TypeOf(stdjson.RawMessage(nil)), []string{`{"a":[1,2]}`, `"raw"`, `[true]`}},
		{"[]byte", reflect.TypeOf([]byte(nil)), []string{`"QUJD"`, `"REVGR0g="`, `""`}},
		{"struct{N Number;S string ,string}", reflect.TypeOf(struct {
			N stdjson.Number `json:"n"`
			S string         `json:"s,string"`
		}{}), []string{`{"n":1,"s":"\"one\""}`, `{"n":22.5,"s":"\"twenty-two\""}`, `{"s":"\"x\""}`}},
	}
	seps := []string{"", " ", "\n"}
	selfDelim := func(s string) bool { c := s[len(s)-1]; return c == ']' || c == '}' || c == '"' }
	for _, k := range kinds {
		var streams [][]string
		var build func(cur []string)
		build = func(cur []string) {
			if len(cur) >= 2 {
				streams = append(streams, append([]string(nil), cur...))
			}
			if len(cur) == 3 {
				return
			}
			for _, d := range k.docs {
				build(append(cur, d))
			}
		}
		build(nil)
		for _, st := range streams {
			for _, sep := range seps {
				ok := true
				for i := 0; i+1 < len(st); i++ {
					if sep == "" && !selfDelim(st[i]) {
						ok = false
					}
				}
				if !ok {
					continue
				}
				text := strings.Join(st, sep) + sep
				b := []byte(text)
				if !c.BeginS("retain " + k.name + " <- " + text) {
					continue
				}
				var want []string
				for _, d := range st {
					dst := reflect.New(k.t)
					if err := json.Unmarshal([]byte(d), dst.Interface()); err != nil {
						want = append(want, "x")
					} else {
						want = append(want, oracle.Canon(dst.Elem()))
					}
				}
				check := func(r io.Reader, what string) {
					var vals []reflect.Value
					var first []string
					verdict := ""
					p, msg := util.Safe(func() {
						d := json.NewDecoder(r)
						for i := 0; i < len(st)+1; i++ {
							dst := reflect.New(k.t)
							err := d.Decode(dst.Interface())
							if err != nil {
								if err == io.EOF {
									verdict += "E"
								} else {
									verdict += "x"
								}
								break
							}
							verdict += "v"
							vals = append(vals, dst.Elem())
							first = append(first, oracle.Canon(dst.Elem()))
						}
					})
					c.Count("retained_streams", 1)
					c.Outcome(verdict)
					if p {
						c.Violation(fmt.Sprintf("retained values : %s : panic", k.name), text, what+": "+msg)
						return
					}
					if verdict != strings.Repeat("v", len(st))+"E" {
						c.Violation(fmt.Sprintf("retained values : %s : verdicts %s for %d documents (sep %q)", k.name, verdict, len(st), sep), text, what)
						return
					}
					for i := range vals {
						if first[i] != want[i] {
							c.Violation(fmt.Sprintf("retained values : %s : document %d of %d differs from Unmarshal of it alone (sep %q)", k.name, i+1, len(st), sep), text,
								fmt.Sprintf("%s: Decoder gives %s ; Unmarshal gives %s", what, clip([]byte(first[i])), clip([]byte(want[i]))))
							return
						}
						if now := oracle.Canon(vals[i]); now != first[i] {
							c.Violation(fmt.Sprintf("retained values : %s : a value decoded earlier from the stream changed during a later Decode", k.name), text,
								fmt.Sprintf("%s: document %d was %s right after its Decode and is %s after the stream was consumed", what, i+1, clip([]byte(first[i])), clip([]byte(now))))
							return
						}
					}
				}
				check(bytes.NewReader(b), "whole input")
				for x := 1; x < len(b); x++ {
					check(&chunkReader{data: b, cuts: []int{x}, zeroAt: -1, failAt: -1}, fmt.Sprintf("cut at %d", x))
				}
				// one document per Read: cuts at document ends, the separator before or after the cut
				var endsBefore, endsAfter []int
				off := 0
				for i, d := range st {
					off += len(d)
					if i < len(st)-1 || sep != "" {
						endsBefore = append(endsBefore, off)
						endsAfter = append(endsAfter, off+len(sep))
					}
					off += len(sep)
				}
				for _, cuts := range [][]int{endsBefore, endsAfter} {
					for _, eofWith := range []bool{false, true} {
						check(&chunkReader{data: b, cuts: cuts, eofWith: eofWith, zeroAt: -1, failAt: -1}, fmt.Sprintf("one document per Read (cuts %v, EOF with the last piece: %v)", cuts, eofWith))
					}
				}
				for ps := 1; ps <= 8; ps++ {
					check(&chunkReader{data: b, pieceSize: ps, zeroAt: -1, failAt: -1}, fmt.Sprintf("piece size %d", ps))
				}
				if c.WantSample() {
					c.Sample("retained " + k.name + " <- " + text)
				}
				c.EndCase()
			}
		}
	}
}

// ---- object members under every cut ---------------------------------------------------------

// c09Members: objects of one or two members decoded into struct and map destinations under every
// single cut (thorough: every pair of cuts) and in pieces of 1..4 bytes. Keys: known, unknown,
// a prefix / an extension of a known name, re-cased, and the same with simple escapes, \u escapes
// and raw multi-byte characters at the front, in the middle and at the end; white space of 0..2
// bytes before and after the colon; values of every kind (the unknown ones are skipped by the
// stream's skip functions, the known ones decoded). This is the grid on which the stream
// decoder's key matcher, its not-found scanner and its value skipper take their refill decisions.
func c09Members(c *work.Ctx) {
	bs := "\\"
	keys := []string{"a", "b", "zz", "ab", "A", "", bs + "u0061", "a" + bs + "n", bs + "n", bs + bs, "z" + bs + `"q`, bs + "u00e9", "é", "z" + bs + "ud83d" + bs + "ude00", "b" + bs + "/", bs + "u0062"}
	values := []string{"12345", "-1.5e3", `"s"`, `"s` + bs + `n` + bs + `"é"`, "true", "null", "[1, 2]", `{"x":"y"}`, `"é😀"`, "[]", `{"k":[{"d":null}]}`, "0"}
	seps := [][2]string{{"", ""}, {" ", ""}, {"", "  "}, {"\n", " "}}
	type sAB struct {
		A interface{} `json:"a"`
		B interface{} `json:"b"`
	}
	type s9 struct {
		A, B, C, D, E, F, G, H interface{}
		Ab                     interface{} `json:"ab"`
	}
	dests := []struct {
		name string
		t    reflect.Type
	}{
		{"struct{A,B interface{}}", reflect.TypeOf(sAB{})},
		{"struct of 9 members", reflect.TypeOf(s9{})},
		{"map[string]interface{}", reflect.TypeOf(map[string]interface{}(nil))},
		{"interface{}", reflect.TypeOf((*interface{})(nil)).Elem()},
	}
	keyShape := func(k string) string {
		var f []string
		switch {
		case k == "":
			f = append(f, "empty")
		case strings.HasPrefix(k, bs):
			f = append(f, "escape first")
		case strings.Contains(k, bs):
			f = append(f, "escape inside")
		}
		if strings.Contains(k, bs+"u") {
			f = append(f, `\u`)
		}
		if strings.Contains(k, bs+`"`) {
			f = append(f, "escaped quote")
		}
		for _, r := range k {
			if r >= 0x80 {
				f = append(f, "raw multi-byte")
				break
			}
		}
		if len(f) == 0 {
			return "plain"
		}
		return strings.Join(f, "+")
	}
	valShape := func(v string) string {
		switch v[0] {
		case '"':
			return "string"
		case '[':
			return "array"
		case '{':
			return "object"
		case 't', 'n':
			return "literal"
		}
		return "number"
	}
	for ki, k := range keys {
		for vi, v := range values {
			for si, sp := range seps {
				// thin the product: every key x value with the first separator, the other separators with a diagonal
				if si > 0 && (ki+vi+si)%3 != 0 {
					continue
				}
				for _, second := range []string{"", `,"a":7`, `,"zz":[8]`} {
					doc := `{"` + k + `"` + sp[0] + `:` + sp[1] + v + second + `}`
					b := []byte(doc)
					if !stdjson.Valid(b) {
						continue
					}
					for _, d := range dests {
						if !c.BeginS("members " + d.name + " <- " + doc) {
							continue
						}
						buf := bufferOutcome(b, d.t, false)
						whole := streamOutcome(bytes.NewReader(b), d.t, false)
						c.Outcome(whole)
						shape := fmt.Sprintf("key %s, %s value", keyShape(k), valShape(v))
						if buf != whole {
							c.Violation(fmt.Sprintf("object members : %s : stream-vs-buffer : %s : %s", d.name, shape, c09Verdicts(buf)+" vs "+c09Verdicts(whole)), doc,
								fmt.Sprintf("Unmarshal %s ; Decoder on the whole input %s", clip([]byte(buf)), clip([]byte(whole))))
						}
						try := func(r *chunkReader, what string, cut int) {
							got := streamOutcome(r, d.t, false)
							c.Count("chunked_decodes", 1)
							if got != whole {
								where := "n/a"
								if cut >= 0 {
									where = memberAt(doc, k, cut)
								}
								c.Violation(fmt.Sprintf("object members chunking-dependent : %s : %s : cut %s : %s", d.name, shape, where, c09Verdicts(whole)+" -> "+c09Verdicts(got)), doc,
									fmt.Sprintf("%s: whole-input reader gives %s ; this reader gives %s", what, clip([]byte(whole)), clip([]byte(got))))
							}
						}
						n := len(b)
						for x := 1; x < n; x++ {
							try(&chunkReader{data: b, cuts: []int{x}, zeroAt: -1, failAt: -1}, fmt.Sprintf("cut at %d", x), x)
							if !c.Quick() {
								for y := x + 1; y < n; y++ {
									try(&chunkReader{data: b, cuts: []int{x, y}, zeroAt: -1, failAt: -1}, fmt.Sprintf("cuts at %d,%d", x, y), x)
								}
							}
						}
						for ps := 1; ps <= 4; ps++ {
							try(&chunkReader{data: b, pieceSize: ps, zeroAt: -1, failAt: -1}, fmt.Sprintf("piece size %d", ps), -1)
						}
						if c.WantSample() {
							c.Sample(d.name + " <- " + doc + " under every cut")
						}
						c.EndCase()
					}
				}
			}
		}
	}
}

// memberAt says in which part of the first member a cut falls.
func memberAt(doc, key string, cut int) string {
	keyEnd := 2 + len(key) // {"key
	switch {
	case cut <= 1:
		return "before the key"
	case cut <= keyEnd:
		return "inside the key"
	case cut == keyEnd+1:
		return "after the key"
	}
	colon := strings.Index(doc[keyEnd:], ":") + keyEnd
	if cut <= colon {
		return "before the colon"
	}
	return "in or after the value"
}
