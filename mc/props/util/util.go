// Package util holds helpers shared by the property harnesses.
package util

import (
	"fmt"
	"regexp"
	"strings"

	"verif/mc/oracle"
)

// Sigma is the byte alphabet of C05/C06/C18: every structurally significant byte.
var Sigma = []byte("[]{},:\"\\u01-+.eEtralsnf \n\x00\xc3")

// Safe runs f and reports a recovered panic.
func Safe(f func()) (panicked bool, msg string) {
	defer func() {
		if r := recover(); r != nil {
			panicked = true
			msg = fmt.Sprint(r)
		}
	}()
	f()
	return
}

var reQuoted = regexp.MustCompile(`'(\\x[0-9a-f]{2}|\\u[0-9a-f]{4}|\\.|[^'\\]|')'`)
var reNum = regexp.MustCompile(`[0-9]+`)

// StdErrClass reduces an encoding/json error text to a class: the offending
// byte is replaced by its class and offsets are dropped.
func StdErrClass(msg string) string {
	msg = reQuoted.ReplaceAllStringFunc(msg, func(m string) string {
		in := m[1 : len(m)-1]
		var c byte
		switch {
		case strings.HasPrefix(in, `\x`):
			fmt.Sscanf(in[2:], "%02x", &c)
		case strings.HasPrefix(in, `\u`):
			return "'U'"
		case in == `\n`:
			c = '\n'
		case in == `\t`:
			c = '\t'
		case in == `\r`:
			c = '\r'
		case in == `\\`:
			c = '\\'
		case in == `\'`:
			c = '\''
		case in == `\"`:
			c = '"'
		case len(in) == 1:
			c = in[0]
		default:
			return "'U'"
		}
		return "'" + oracle.ByteClass(c) + "'"
	})
	return reNum.ReplaceAllString(msg, "N")
}

// ErrClass reduces any error text to a class (numbers dropped, quoted bytes classified, shortened).
func ErrClass(msg string) string {
	s := StdErrClass(msg)
	if len(s) > 100 {
		s = s[:100]
	}
	return s
}

// ForEachString enumerates every string over alpha with 1 <= len <= max whose
// first min(2,len) symbols map to this shard (round-robin over the prefixes).
func ForEachString(alpha []byte, max int, shard, nshards int, f func(b []byte) bool) {
	n := len(alpha)
	buf := make([]byte, 0, max)
	var rec func(depth int) bool
	rec = func(depth int) bool {
		if depth > 0 {
			if !f(buf) {
				return false
			}
		}
		if depth == max {
			return true
		}
		for _, c := range alpha {
			buf = append(buf, c)
			if !rec(depth + 1) {
				return false
			}
			buf = buf[:len(buf)-1]
		}
		return true
	}
	// length-1 strings: shard by symbol index; longer: by 2-symbol prefix index
	for i := 0; i < n; i++ {
		if i%nshards == shard {
			buf = append(buf[:0], alpha[i])
			if !f(buf) {
				return
			}
		}
	}
	if max < 2 {
		return
	}
	for i := 0; i < n; i++ {
		for j := 0; j < n; j++ {
			if (i*n+j)%nshards != shard {
				continue
			}
			buf = append(buf[:0], alpha[i], alpha[j])
			if !rec(2) {
				return
			}
		}
	}
}
