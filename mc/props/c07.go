package props

import (
	"bytes"
	"fmt"
	"reflect"
	"runtime"
	"strings"
	"unsafe"

	json "github.com/goccy/go-json"

	"verif/mc/oracle"
	"verif/mc/props/util"
	"verif/mc/universe"
	"verif/mc/work"
)

// C07 — decoding touches only the destination: no stray reads or writes.

func init() {
	work.Register("C07", "c07.canary", c07Canary)
}

type c07T1 struct{ A uint8 }

func (t *c07T1) UnmarshalText(b []byte) error { t.A = uint8(len(b)); return nil }

type c07T2 struct{ A uint16 }

func (t *c07T2) UnmarshalText(b []byte) error { t.A = uint16(len(b)); return nil }

type c07T4 struct{ A uint32 }

func (t *c07T4) UnmarshalText(b []byte) error { t.A = uint32(len(b)); return nil }

type c07T16 struct{ A, B uint64 }

func (t *c07T16) UnmarshalText(b []byte) error { t.A = uint64(len(b)); return nil }

type c07J1 struct{ A uint8 }

func (t *c07J1) UnmarshalJSON(b []byte) error { t.A = uint8(len(b)); return nil }

type c07Elem struct {
	name string
	t    reflect.Type
	docs []string // element documents, first is the well-typed default
}

func c07Elems(quick bool) []c07Elem {
	u8 := reflect.TypeOf(uint8(0))
	num := []string{"1", "255", "null", `"x"`, "256", "[]"}
	es := []c07Elem{
		{"uint8", u8, num},
		{"uint16", reflect.TypeOf(uint16(0)), num},
		{"[3]uint8", reflect.ArrayOf(3, u8), []string{"[1,2,3]", "[1]", "[]", "null", "[1,2,3,4]", "1"}},
		{"uint32", reflect.TypeOf(uint32(0)), num},
		{"[7]uint8", reflect.ArrayOf(7, u8), []string{"[1,2,3,4,5,6,7]", "[1]", "[]", "null"}},
		{"uint64", reflect.TypeOf(uint64(0)), num},
		{"[9]uint8", reflect.ArrayOf(9, u8), []string{"[1,2,3,4,5,6,7,8,9]", "[1]", "[]", "null"}},
		{"string", reflect.TypeOf(""), []string{`"s"`, `""`, "null", "1", `"a\nb"`}},
		{"[]int8", reflect.TypeOf([]int8(nil)), []string{"[1,2]", "[]", "null", "[1,2,3,4,5]", `"x"`}},
		{"struct{A uint8;B uint16}", reflect.TypeOf(struct {
			A uint8
			B uint16
		}{}), []string{`{"A":1,"B":2}`, `{}`, "null", `{"A":1}`, "[]"}},
		{"*uint8", reflect.PtrTo(u8), []string{"1", "null", `"x"`}},
		{"bool", reflect.TypeOf(false), []string{"true", "null", "1"}},
		{"TextUnmarshaler(1 byte)", reflect.TypeOf(c07T1{}), []string{`"abc"`, "null", "1", `""`}},
		{"TextUnmarshaler(2 bytes)", reflect.TypeOf(c07T2{}), []string{`"abc"`, "null", "1"}},
		{"TextUnmarshaler(4 bytes)", reflect.TypeOf(c07T4{}), []string{`"abc"`, "null", "1"}},
		{"TextUnmarshaler(16 bytes)", reflect.TypeOf(c07T16{}), []string{`"abc"`, "null"}},
		{"Unmarshaler(1 byte)", reflect.TypeOf(c07J1{}), []string{`{"a":1}`, "null", "1"}},
		{"interface{}", universe.TIface, []string{"1", `"s"`, "null", "[1]"}},
		{"map[string]uint8", reflect.MapOf(reflect.TypeOf(""), u8), []string{`{"k":1}`, `{}`, "null", `{"k":256}`}},
	}
	if !quick {
		es = append(es,
			c07Elem{"[64]uint8", reflect.ArrayOf(64, u8), []string{"[1,2,3]", "[]", "null"}},
			c07Elem{"[24]uint8", reflect.ArrayOf(24, u8), []string{"[1,2,3]", "[]", "null"}},
			c07Elem{"[5]uint8", reflect.ArrayOf(5, u8), []string{"[1,2,3,4,5]", "[1]", "[]", "null"}},
			c07Elem{"int16", reflect.TypeOf(int16(0)), num},
			c07Elem{"float32", reflect.TypeOf(float32(0)), []string{"1.5", "null", `"x"`, "1e40"}},
		)
	}
	return es
}

type c07Field struct {
	name string
	t    reflect.Type
	tag  string
	docs []string
}

// c07Fields: the types of member F, with the documents that address it.
func c07Fields(quick bool) []c07Field {
	var out []c07Field
	maxN := 3
	if !quick {
		maxN = 4
	}
	for _, e := range c07Elems(quick) {
		// the element type itself as the field
		out = append(out, c07Field{e.name, e.t, `json:"f"`, e.docs})
		// arrays [n]E: 0..n+1 elements, null, wrong kind, nulls inside
		for n := 1; n <= maxN; n++ {
			var docs []string
			for k := 0; k <= n+1; k++ {
				docs = append(docs, "["+strings.TrimSuffix(strings.Repeat(e.docs[0]+",", k), ",")+"]")
			}
			docs = append(docs, "null", "{}", "1", "[null]", "["+e.docs[0]+",null]")
			if len(e.docs) > 1 {
				docs = append(docs, "["+e.docs[1]+"]")
			}
			out = append(out, c07Field{fmt.Sprintf("[%d]%s", n, e.name), reflect.ArrayOf(n, e.t), `json:"f"`, docs})
		}
		// slices []E (pre-populated with spare capacity inside a larger backing array)
		{
			var docs []string
			for k := 0; k <= 5; k++ {
				docs = append(docs, "["+strings.TrimSuffix(strings.Repeat(e.docs[0]+",", k), ",")+"]")
			}
			docs = append(docs, "null", "{}", "[null]", "["+e.docs[0]+",null,"+e.docs[0]+"]")
			out = append(out, c07Field{"[]" + e.name, reflect.SliceOf(e.t), `json:"f"`, docs})
		}
	}
	// ,string members
	for _, t := range []reflect.Type{reflect.TypeOf(uint8(0)), reflect.TypeOf(int16(0)), reflect.TypeOf(false), reflect.TypeOf("")} {
		out = append(out, c07Field{t.String() + ",string", t, `json:"f,string"`, []string{`"1"`, `"true"`, `"\"s\""`, "null", `"x"`, "1"}})
	}
	return out
}

const canary = 0xA5

func c07Layout(f c07Field) reflect.Type {
	u8 := reflect.TypeOf(uint8(0))
	return reflect.StructOf([]reflect.StructField{
		{Name: "Pre", Type: reflect.ArrayOf(8, u8), Tag: `json:"-"`},
		{Name: "F", Type: f.t, Tag: reflect.StructTag(f.tag)},
		{Name: "Mid", Type: reflect.ArrayOf(3, u8), Tag: `json:"-"`},
		{Name: "G", Type: u8, Tag: `json:"g"`},
		{Name: "Post", Type: reflect.ArrayOf(8, u8), Tag: `json:"-"`},
	})
}

func fillCanary(v reflect.Value) {
	for _, n := range []string{"Pre", "Mid", "Post"} {
		a := v.FieldByName(n)
		for i := 0; i < a.Len(); i++ {
			a.Index(i).SetUint(canary)
		}
	}
	v.FieldByName("G").SetUint(0x5A)
}

func canaryOK(v reflect.Value) string {
	for _, n := range []string{"Pre", "Mid", "Post"} {
		a := v.FieldByName(n)
		for i := 0; i < a.Len(); i++ {
			if a.Index(i).Uint() != canary {
				return fmt.Sprintf("%s[%d]=%#x", n, i, a.Index(i).Uint())
			}
		}
	}
	return ""
}

// c07Prefill gives F a recognisable previous content: for slices, a window
// [1:3:5] of a 6-element backing array whose outer elements are guards.
func c07Prefill(f reflect.Value) (guard func() string) {
	guard = func() string { return "" }
	switch f.Kind() {
	case reflect.Slice:
		backing := reflect.MakeSlice(f.Type(), 6, 6)
		for i := 0; i < 6; i++ {
			universe.Prefill(backing.Index(i), 0)
		}
		before0, before5 := oracle.Canon(backing.Index(0)), oracle.Canon(backing.Index(5))
		base := backing.Pointer()
		esz := f.Type().Elem().Size()
		f.Set(backing.Slice3(1, 3, 5))
		guard = func() string {
			if oracle.Canon(backing.Index(0)) != before0 {
				return "element before the slice window changed"
			}
			if oracle.Canon(backing.Index(5)) != before5 {
				return "element beyond the slice capacity changed"
			}
			h := (*[3]uintptr)(unsafe.Pointer(f.UnsafeAddr()))
			data, ln, cp := h[0], int(h[1]), int(h[2])
			if data == 0 && (ln != 0 || cp != 0) {
				return fmt.Sprintf("slice header nil base len=%d cap=%d", ln, cp)
			}
			if cp < ln {
				return fmt.Sprintf("slice header cap %d < len %d", cp, ln)
			}
			orig := base + esz // window started at element 1
			if data != orig && data != 0 && cp == 4 && cp > ln && esz > 0 {
				// a different backing array that still claims the old window's capacity
				return "slice points to a new backing array but kept the old capacity"
			}
			_ = orig
			runtime.KeepAlive(backing)
			return ""
		}
	default:
		universe.Prefill(f, 0)
	}
	return
}

func c07Canary(c *work.Ctx) {
	fields := c07Fields(c.Quick())
	c.SelfSharded = true
	for fi, f := range fields {
		if fi%c.NShards != c.Shard {
			continue
		}
		lt := c07Layout(f)
		for _, fd := range f.docs {
			docs := []string{`{"f":` + fd + `}`, `{"f":` + fd + `,"g":7}`, `{"g":7,"f":` + fd + `}`, `{"f":` + fd, `{"f":` + fd + `,"g":`, `{"x":[1,{"y":2}],"f":` + fd + `}`}
			for di, doc := range docs {
				for _, pre := range []bool{false, true} {
					for mode := 0; mode < 2; mode++ {
						id := fmt.Sprintf("%s <- %s prefilled=%v mode=%d", f.name, doc, pre, mode)
						if !c.BeginS(id) {
							continue
						}
						// the destination is element 1 of a three-element allocation; 0 and 2 are neighbours
						arr := reflect.MakeSlice(reflect.SliceOf(lt), 3, 3)
						for i := 0; i < 3; i++ {
							fillCanary(arr.Index(i))
						}
						dst := arr.Index(1)
						guard := func() string { return "" }
						if pre {
							guard = c07Prefill(dst.FieldByName("F"))
						}
						n0, n2 := oracle.Canon(arr.Index(0)), oracle.Canon(arr.Index(2))
						in := []byte(doc)
						inCopy := append([]byte(nil), in...)
						var err error
						p, msg := util.Safe(func() {
							if mode == 0 {
								err = json.Unmarshal(in, dst.Addr().Interface())
							} else {
								err = json.NewDecoder(bytes.NewReader(in)).Decode(dst.Addr().Interface())
							}
						})
						what := ""
						switch {
						case p:
							what = "panic:" + util.ErrClass(msg)
						case !bytes.Equal(in, inCopy):
							what = "input bytes modified"
						case canaryOK(dst) != "":
							what = "canary overwritten next to F (" + canaryOK(dst) + ")"
						case oracle.Canon(arr.Index(0)) != n0 || oracle.Canon(arr.Index(2)) != n2:
							what = "neighbouring allocation element changed"
						case guard() != "":
							what = guard()
						case oracle.BadHeader(oracle.Canon(dst)):
							what = "ill-formed string/slice header in the destination"
						default:
							g := dst.FieldByName("G").Uint()
							addressed := di == 1 || di == 2
							if !(g == 0x5A || (addressed && g == 7)) {
								what = fmt.Sprintf("sibling field G changed to %#x", g)
							}
						}
						// the collector must be able to traverse everything
						runtime.GC()
						c.Outcome(what)
						if what != "" {
							kind := strings.SplitN(what, " (", 2)[0]
							c.Violation(fmt.Sprintf("%s : %s : doc form %d", f.name, kind, di), id, fmt.Sprintf("%s (err=%v)", what, err))
						}
						if c.WantSample() {
							c.Sample(id)
						}
						runtime.KeepAlive(arr)
						c.EndCase()
					}
				}
			}
		}
	}
}
