//go:build vshim
// +build vshim

package props

import (
	"bytes"
	"context"
	"fmt"
	"strings"

	stdjson "encoding/json"

	json "github.com/goccy/go-json"

	"verif/mc/oracle"
	"verif/mc/props/util"
	"verif/mc/work"
)

// c03.sizes — values whose text does not fit the working buffer the call starts with.
//
// Every encoding call starts in a pooled buffer (1 KiB when the pool is empty, whatever an earlier call grew it to
// otherwise). A value whose text crosses the end of that buffer takes the growing branch of whatever routine writes
// it. Here every carrier (byte slice, plain string, string ending in an escape, RawMessage, []int, marshaler text)
// of every size n up to 1200 (quick; 4200 thorough) is encoded alone and behind a string member of 0, 500 and
// 1000 bytes, from EMPTY pools and again straight after (the grown buffer), through five entry points: success
// must give exactly one RFC 8259 value, equal to encoding/json's.

func init() {
	work.Register("C03", "c03.sizes", c03Sizes)
}

type c03Text struct{ t string }

func (m c03Text) MarshalJSON() ([]byte, error) { return []byte(m.t), nil }

func c03Sizes(c *work.Ctx) {
	max := 1200
	if !c.Quick() {
		max = 4200
	}
	carriers := []struct {
		name string
		mk   func(n int) interface{}
	}{
		{"[]byte", func(n int) interface{} { return bytes.Repeat([]byte{0xfb}, n) }},
		{"string", func(n int) interface{} { return strings.Repeat("a", n) }},
		{"string ending in an escape", func(n int) interface{} { return strings.Repeat("a", n) + "\n< " }},
		{"RawMessage", func(n int) interface{} { return stdjson.RawMessage(`"` + strings.Repeat("r", n) + `"`) }},
		{"[]int", func(n int) interface{} { return make([]int, n/2) }},
		{"MarshalJSON text", func(n int) interface{} { return c03Text{`["` + strings.Repeat("m", n) + `" , 1]`} }},
		{"map[string]string value", func(n int) interface{} { return map[string]string{"k": strings.Repeat("v", n)} }},
	}
	entries := []struct {
		name string
		run  func(x interface{}) ([]byte, error)
	}{
		{"Marshal", func(x interface{}) ([]byte, error) { return json.Marshal(x) }},
		{"MarshalIndent", func(x interface{}) ([]byte, error) { return json.MarshalIndent(x, "", " ") }},
		{"MarshalNoEscape", func(x interface{}) ([]byte, error) { return json.MarshalNoEscape(x) }},
		{"MarshalContext", func(x interface{}) ([]byte, error) { return json.MarshalContext(context.Background(), x) }},
		{"Encoder", func(x interface{}) ([]byte, error) {
			var b bytes.Buffer
			err := json.NewEncoder(&b).Encode(x)
			return bytes.TrimSuffix(b.Bytes(), []byte("\n")), err
		}},
	}
	for _, cr := range carriers {
		for _, lead := range []int{-1, 0, 500, 1000} {
			for n0 := 0; n0 <= max; n0 += 50 {
				id := fmt.Sprintf("%s of %d..%d bytes behind %d leading bytes", cr.name, n0, n0+49, lead)
				if !c.BeginS(id) {
					continue
				}
				for n := n0; n < n0+50 && n <= max; n++ {
					var x interface{} = cr.mk(n)
					if lead >= 0 {
						x = struct {
							L string
							V interface{}
							T int
						}{strings.Repeat("l", lead), x, 7}
					}
					var want, wantI bytes.Buffer
					we := stdjson.NewEncoder(&want)
					if we.Encode(x) != nil {
						continue
					}
					w := bytes.TrimSuffix(want.Bytes(), []byte("\n"))
					_ = stdjson.Indent(&wantI, w, "", " ")
					for _, e := range entries {
						for round := 0; round < 2; round++ {
							if round == 0 {
								c11Reset() // empty pools: the call starts in a fresh 1 KiB buffer
							}
							var got []byte
							var err error
							p, msg := util.Safe(func() { got, err = e.run(x) })
							c.Count("sized_encodes", 1)
							ref := w
							if e.name == "MarshalIndent" {
								ref = wantI.Bytes()
							}
							kind := ""
							switch {
							case p:
								kind = "panic:" + util.ErrClass(msg)
							case err != nil:
								kind = "error"
							case !oracle.Valid(got):
								kind = "ill-formed-output"
							case !bytes.Equal(got, ref):
								kind = "differs-from-encoding/json"
							}
							if kind != "" {
								st := "empty pools"
								if round == 1 {
									st = "the buffer of the same call before"
								}
								c.Violation(fmt.Sprintf("value size : %s : %s : %s : %s", cr.name, e.name, st, kind), fmt.Sprintf("%s of %d bytes behind %d leading bytes", cr.name, n, lead),
									fmt.Sprintf("%s gives %q err=%v", e.name, clip(got), err))
							}
						}
					}
				}
				c.Outcome("done")
				c.EndCase()
			}
		}
	}
}
