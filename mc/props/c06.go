package props

import (
	"bytes"
	"context"
	"fmt"
	"reflect"
	"strings"

	json "github.com/goccy/go-json"

	"verif/mc/props/util"
	"verif/mc/universe"
	"verif/mc/work"
)

// C06 — decoding and utilities always return: no panic, crash or hang.

func init() {
	work.Register("C06", "c06.inputs", c06Inputs)
	work.Register("C06", "c06.nesting", c06Nesting)
	work.Register("C06", "c06.reader", c06Reader)
}

// c06DestTypes: one representative per decoder kind of the C02 grammar.
func c06DestTypes() []reflect.Type {
	var out []reflect.Type
	out = append(out, universe.DecLeaves()...)
	for _, l := range universe.DecLeavesSmall() {
		out = append(out, universe.Wrap1(l, []string{``, `json:",string"`}, true)...)
	}
	// struct key lookup paths: <=8, 9..16 and >16 fields
	mk := func(n int) reflect.Type {
		var fs []reflect.StructField
		for i := 0; i < n; i++ {
			fs = append(fs, reflect.StructField{Name: fmt.Sprintf("F%c", 'A'+i), Type: universe.TInt, Tag: reflect.StructTag(fmt.Sprintf(`json:"%c"`, 'a'+i))})
		}
		return reflect.StructOf(fs)
	}
	out = append(out, mk(2), mk(9), mk(17), reflect.TypeOf(universe.Rec{}), reflect.MapOf(universe.TInt, universe.TString))
	// a type with only the context-aware UnmarshalJSON (reached with and without a context), map keys of kinds
	// that are not JSON object keys
	uc := reflect.TypeOf(universe.UC{})
	out = append(out, uc, reflect.StructOf([]reflect.StructField{{Name: "F", Type: uc}, {Name: "G", Type: reflect.TypeOf(universe.UJ{})}}),
		reflect.SliceOf(uc), reflect.MapOf(universe.TString, reflect.PtrTo(uc)))
	for _, k := range []reflect.Type{reflect.PtrTo(universe.TInt), universe.TBool, universe.TFloat64, universe.TIface, reflect.ArrayOf(1, universe.TInt)} {
		out = append(out, reflect.MapOf(k, universe.TString))
	}
	return out
}

// c06CtxTypes: destinations that contain user callbacks; these also go through the context entry points.
func c06CtxTypes(types []reflect.Type) []reflect.Type {
	var out []reflect.Type
	for _, t := range types {
		d := universe.Desc(t, 4)
		if strings.Contains(d, "UJ") || strings.Contains(d, "UC") || strings.Contains(d, "UT") || strings.Contains(d, "UI") {
			out = append(out, t)
		}
	}
	return out
}

func c06Call(c *work.Ctx, what string, in []byte, f func()) {
	if p, msg := util.Safe(f); p {
		c.Violation(fmt.Sprintf("panic : %s : %s", what, util.ErrClass(msg)), string(in), fmt.Sprintf("%s panics on %q: %s", what, in, msg))
		c.Outcome(what + "panic")
	}
}

// c06All drives every entry point on one input.
func c06All(c *work.Ctx, in []byte, types []reflect.Type) {
	cp := func() []byte { return append([]byte(nil), in...) }
	for _, t := range types {
		t := t
		c06Call(c, "Unmarshal into "+universe.Desc(t, 3), in, func() { json.Unmarshal(cp(), reflect.New(t).Interface()) })
	}
	// a sample of destinations through the other decoding entry points
	for _, t := range types[:8] {
		t := t
		c06Call(c, "Decoder.Decode into "+universe.Desc(t, 3), in, func() {
			d := json.NewDecoder(bytes.NewReader(in))
			for i := 0; i < 3; i++ {
				if d.Decode(reflect.New(t).Interface()) != nil {
					break
				}
			}
			d.Buffered()
			d.InputOffset()
		})
		c06Call(c, "UnmarshalNoEscape into "+universe.Desc(t, 3), in, func() { json.UnmarshalNoEscape(cp(), reflect.New(t).Interface()) })
		c06Call(c, "UnmarshalWithOption(first-win) into "+universe.Desc(t, 3), in, func() {
			json.UnmarshalWithOption(cp(), reflect.New(t).Interface(), json.DecodeFieldPriorityFirstWin())
		})
	}
	for _, t := range c06CtxTypes(types) {
		t := t
		c06Call(c, "UnmarshalContext into "+universe.Desc(t, 3), in, func() {
			json.UnmarshalContext(context.Background(), cp(), reflect.New(t).Interface())
		})
		c06Call(c, "Decoder.DecodeContext into "+universe.Desc(t, 3), in, func() {
			json.NewDecoder(bytes.NewReader(in)).DecodeContext(context.Background(), reflect.New(t).Interface())
		})
	}
	c06Call(c, "Decoder.Token/More", in, func() {
		d := json.NewDecoder(bytes.NewReader(in))
		for i := 0; i < len(in)+3; i++ {
			d.More()
			if _, err := d.Token(); err != nil {
				break
			}
		}
		d.Buffered()
	})
	c06Call(c, "Valid", in, func() { json.Valid(cp()) })
	c06Call(c, "Compact", in, func() { var b bytes.Buffer; json.Compact(&b, cp()) })
	c06Call(c, "Indent", in, func() { var b bytes.Buffer; json.Indent(&b, cp(), ">", "\t") })
	c06Call(c, "HTMLEscape", in, func() { var b bytes.Buffer; json.HTMLEscape(&b, cp()) })
	c.Outcome("returned")
}

func c06Inputs(c *work.Ctx) {
	max := 4
	if !c.Quick() {
		max = 5
	}
	types := c06DestTypes()
	c.SelfSharded = true
	run := func(b []byte) {
		if c.Begin(b) {
			c06All(c, b, types)
			if c.WantSample() {
				c.Sample(fmt.Sprintf("%q", b))
			}
			c.EndCase()
		}
	}
	util.ForEachString(util.Sigma, max, c.Shard, c.NShards, func(b []byte) bool { run(b); return true })
	// every prefix and every single-byte mutation of the grammar texts
	var buf []byte
	docs := universe.Docs(2)
	docs = append(docs, `{"a":"é😀","b":[1.5e3,{"c":null}],"A":-0}`, `{"next":{"next":{"V":1}},"kids":[{"m":{"k":{}}}],"i":[1,"a"]}`)
	for di, d := range docs {
		if di%c.NShards != c.Shard {
			continue
		}
		src := []byte(d)
		for k := 0; k <= len(src); k++ {
			run(src[:k])
		}
		for pos := 0; pos <= len(src); pos++ {
			if pos < len(src) {
				buf = append(append(buf[:0], src[:pos]...), src[pos+1:]...)
				run(buf)
				for _, s := range util.Sigma {
					if s != src[pos] {
						buf = append(buf[:0], src...)
						buf[pos] = s
						run(buf)
					}
				}
			}
			for _, s := range util.Sigma {
				buf = append(append(append(buf[:0], src[:pos]...), s), src[pos:]...)
				run(buf)
			}
		}
	}
	// token strings with malformed atoms (C05's token alphabet), shorter here because of the wider fan-out
	n := len(C05Tokens)
	tl := 3
	if !c.Quick() {
		tl = 4
	}
	idx := make([]int, tl)
	for l := 1; l <= tl; l++ {
		for i := range idx[:l] {
			idx[i] = 0
		}
		var ord int
		for {
			if ord%c.NShards == c.Shard {
				buf = buf[:0]
				for _, k := range idx[:l] {
					buf = append(buf, C05Tokens[k]...)
				}
				run(buf)
			}
			ord++
			k := l - 1
			for k >= 0 {
				idx[k]++
				if idx[k] < n {
					break
				}
				idx[k] = 0
				k--
			}
			if k < 0 {
				break
			}
		}
	}
}

// ---- nesting family -----------------------------------------------------------------------

type c06Nest struct {
	name        string
	open, close string
	inner       string
}

var c06Nests = []c06Nest{
	{"array", "[", "]", ""},
	{"object", `{"a":`, "}", "0"},
	{"array-of-object", `[{"a":`, "}]", "0"},
	{"recursive-struct", `{"next":`, "}", "null"},
}

func c06Nesting(c *work.Ctx) {
	depths := []int{1, 10, 100, 9999, 10000, 10001, 100000, 1000000}
	if !c.Quick() {
		depths = append(depths, 10000000)
	}
	type entry struct {
		name string
		run  func(in []byte)
	}
	entries := []entry{
		{"Unmarshal into interface{}", func(in []byte) { var v interface{}; json.Unmarshal(in, &v) }},
		{"Unmarshal into []interface{}", func(in []byte) { var v []interface{}; json.Unmarshal(in, &v) }},
		{"Unmarshal into recursive struct", func(in []byte) { var v universe.RecP; json.Unmarshal(in, &v) }},
		{"Unmarshal into RawMessage", func(in []byte) { var v json.RawMessage; json.Unmarshal(in, &v) }},
		{"Unmarshal into struct{} (skip)", func(in []byte) {
			var v struct{ B int }
			json.Unmarshal(append(append([]byte(`{"x":`), in...), '}'), &v)
		}},
		{"Decoder.Decode into interface{}", func(in []byte) { var v interface{}; json.NewDecoder(bytes.NewReader(in)).Decode(&v) }},
		{"Decoder.Decode into RawMessage", func(in []byte) { var v json.RawMessage; json.NewDecoder(bytes.NewReader(in)).Decode(&v) }},
		{"Decoder.Token", func(in []byte) {
			d := json.NewDecoder(bytes.NewReader(in))
			for {
				if _, err := d.Token(); err != nil {
					break
				}
			}
		}},
		{"Valid", func(in []byte) { json.Valid(in) }},
		{"Compact", func(in []byte) { var b bytes.Buffer; json.Compact(&b, in) }},
		{"Indent", func(in []byte) { var b bytes.Buffer; json.Indent(&b, in, "", "") }},
		{"HTMLEscape", func(in []byte) { var b bytes.Buffer; json.HTMLEscape(&b, in) }},
	}
	for _, nst := range c06Nests {
		for _, depth := range depths {
			for _, closed := range []bool{true, false} {
				for _, e := range entries {
					id := fmt.Sprintf("%s nested %s depth %d closed=%v", e.name, nst.name, depth, closed)
					if !c.BeginS(id) {
						continue
					}
					doc := strings.Repeat(nst.open, depth) + nst.inner
					if closed {
						doc += strings.Repeat(nst.close, depth)
					}
					in := []byte(doc)
					if p, msg := util.Safe(func() { e.run(in) }); p {
						c.Violation(fmt.Sprintf("panic : %s : deep %s : %s", e.name, nst.name, util.ErrClass(msg)), id, msg)
					}
					c.Outcome(e.name)
					c.Sample(id)
					c.EndCase()
				}
			}
		}
	}
}

// ---- reader behaviours ----------------------------------------------------------------------

func c06Reader(c *work.Ctx) {
	docs := universe.Docs(2)
	docs = append(docs, `-12.5e+3`, `"abé😀\n"`, `nul`, `tru`, `"abc`, `[`, `{"a":`, `"\u12`, `"\`, `{"a"`, `[1,`,
		// multi-byte characters at several offsets (the stream string scanner looks ahead for the rest of a sequence)
		`{"a":"héllo","b":"日本"}`, `["é","x😀y"]`, `"日本語"`)
	types := c06DestTypes()[:10]
	types = append(types, reflect.TypeOf(""), reflect.TypeOf([]string(nil)), reflect.TypeOf(struct {
		A string `json:"a"`
		B string `json:"b"`
	}{}))
	for _, doc := range docs {
		b := []byte(doc)
		if !c.BeginS("reader " + doc) {
			continue
		}
		for _, t := range types {
			t := t
			for k := 0; k <= len(b); k++ {
				for fail := -1; fail <= len(b); fail++ {
					if fail >= 0 && fail != k && c.Quick() {
						continue // quick: the failure coincides with the cut; thorough: every pair
					}
					// the reader's error arrives alone (n == 0) or together with the last bytes it delivers (n > 0)
					for _, with := range []bool{false, true} {
						if with && fail < 0 {
							continue
						}
						r := &chunkReader{data: b, zeroAt: -1, failAt: fail, failWith: with}
						if k > 0 && k < len(b) {
							r.cuts = []int{k}
						}
						c06Call(c, "Decoder (cut/failing reader) into "+universe.Desc(t, 3), b, func() {
							d := json.NewDecoder(r)
							d.More()
							d.Decode(reflect.New(t).Interface())
							d.Buffered()
							d.More()
							d.Token()
						})
						c.Count("reader_runs", 1)
					}
				}
			}
		}
		c.Outcome("returned")
		if c.WantSample() {
			c.Sample("reader behaviours on " + doc)
		}
		c.EndCase()
	}
}
