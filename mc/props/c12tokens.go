package props

import (
	"bytes"
	"fmt"
	"io"
	"strings"

	stdjson "encoding/json"

	json "github.com/goccy/go-json"

	"verif/mc/props/util"
	"verif/mc/work"
)

// c12.tokens / c09.tokens — what Token hands out stays what it was.
//
// Token returns strings and (under UseNumber) json.Numbers, Decode returns values; a program keeps all of them
// while it reads on. For every document of a family where numbers and plain strings are FOLLOWED by strings with
// escapes (the stream decoder unescapes in place in its buffer), every reader piece size, UseNumber on and off, and
// every split "the first k values by Token, the rest of the enclosing array element-wise by Decode": each result
// is rendered right after it was returned and again after the stream has been read to its end; both renderings are
// equal, and the token sequence is encoding/json's.

func init() {
	work.Register("C12", "c12.tokens", c12Tokens)
	work.Register("C09", "c09.tokens", c12Tokens)
}

func c12TokStr(t interface{}) string {
	switch x := t.(type) {
	case json.Delim:
		return "D" + x.String()
	case string:
		return fmt.Sprintf("S%q", x)
	case json.Number:
		return "N" + string(x)
	case float64:
		return fmt.Sprintf("F%v", x)
	case bool:
		return fmt.Sprintf("B%v", x)
	case nil:
		return "null"
	}
	return fmt.Sprintf("?%T", t)
}

func c12Tokens(c *work.Ctx) {
	docs := []string{
		`[12345,"a\nb",67,"x\"y",8.5e3,"t\tz"]`,
		`[1234567890123,"plain","\\","end"]`,
		`["first string","second\/string",42,"é\n"]`,
		`{"k":12345,"e\\k":"v\nw","n":-0.5,"s":"p\"q"}`,
		`[100,200,300,"a\\b\\c\\d\\e\\f",400,"\"\"\"\""]`,
		`[{"id":98765,"name":"n\ne"},{"id":43210,"name":"m\tf"}]`,
		`[123456789012345678,"0123456789abcdef0123456789abcdef0123456789abcdef\n",5]`,
		`["Zm9v",12,"\b\f\r","tail",3.25]`,
	}
	pieces := []int{0, 1, 2, 3, 5, 7, 16}
	if !c.Quick() {
		pieces = append(pieces, 4, 6, 8, 11, 13, 32, 64)
	}
	for _, doc := range docs {
		// the reference token list
		var want []string
		sd := stdjson.NewDecoder(strings.NewReader(doc))
		sd.UseNumber()
		for {
			t, err := sd.Token()
			if err != nil {
				break
			}
			want = append(want, c12TokStr(t))
		}
		isArray := doc[0] == '['
		nElems := 0
		if isArray {
			var arr []stdjson.RawMessage
			_ = stdjson.Unmarshal([]byte(doc), &arr)
			nElems = len(arr)
		}
		for _, useNumber := range []bool{true, false} {
			for _, ps := range pieces {
				for k := -1; k <= nElems; k++ {
					// k == -1: everything by Token; k >= 0 (arrays): the opening bracket and k scalar elements by Token, then Decode
					if k >= 0 && !isArray {
						break
					}
					id := fmt.Sprintf("%s UseNumber=%v pieces=%d tokens-then-decode=%d", doc, useNumber, ps, k)
					if !c.BeginS(id) {
						continue
					}
					type kept struct {
						v    interface{}
						then string
					}
					var keep []kept
					bad := ""
					pn, msg := util.Safe(func() {
						dec := json.NewDecoder(&pieceReader{data: []byte(doc), n: ps})
						if useNumber {
							dec.UseNumber()
						}
						if k < 0 {
							for {
								t, err := dec.Token()
								if err == io.EOF {
									break
								}
								if err != nil {
									bad = "Token fails: " + err.Error()
									return
								}
								keep = append(keep, kept{t, c12TokStr(t)})
							}
							return
						}
						t, err := dec.Token() // [
						if err != nil {
							bad = "Token fails: " + err.Error()
							return
						}
						keep = append(keep, kept{t, c12TokStr(t)})
						read := 0
						for read < k && dec.More() {
							// only scalar elements are read as one token
							t, err := dec.Token()
							if err != nil {
								bad = "Token fails: " + err.Error()
								return
							}
							keep = append(keep, kept{t, c12TokStr(t)})
							if d, ok := t.(json.Delim); ok && (d == '{' || d == '[') {
								// finish the container by tokens
								depth := 1
								for depth > 0 {
									t, err := dec.Token()
									if err != nil {
										bad = "Token fails: " + err.Error()
										return
									}
									keep = append(keep, kept{t, c12TokStr(t)})
									if d, ok := t.(json.Delim); ok {
										if d == '{' || d == '[' {
											depth++
										} else {
											depth--
										}
									}
								}
							}
							read++
						}
						for dec.More() {
							var v interface{}
							if err := dec.Decode(&v); err != nil {
								bad = "Decode fails: " + err.Error()
								return
							}
							keep = append(keep, kept{v, fmt.Sprintf("V%#v", v)})
						}
					})
					c.Count("token_streams", 1)
					what := ""
					switch {
					case pn:
						what, bad = "panic", msg
					case bad != "":
						what = "error on a valid stream"
					default:
						for i, kv := range keep {
							now := ""
							if strings.HasPrefix(kv.then, "V") {
								now = fmt.Sprintf("V%#v", kv.v)
							} else {
								now = c12TokStr(kv.v)
							}
							if now != kv.then {
								what = "an earlier result changed while the stream was read on"
								bad = fmt.Sprintf("result %d was %s when it was returned and is %s after the stream has been read", i, kv.then, now)
								break
							}
						}
						if what == "" && k < 0 {
							var got []string
							for _, kv := range keep {
								s := kv.then
								if !useNumber && strings.HasPrefix(s, "F") {
									continue
								}
								got = append(got, s)
							}
							var w []string
							for _, s := range want {
								if !useNumber && strings.HasPrefix(s, "N") {
									continue
								}
								w = append(w, s)
							}
							if !bytes.Equal([]byte(strings.Join(got, " ")), []byte(strings.Join(w, " "))) {
								what = "token sequence differs from encoding/json"
								bad = fmt.Sprintf("got %v want %v", got, w)
							}
						}
					}
					c.Outcome(what)
					if what != "" {
						c.Violation(fmt.Sprintf("kept tokens : UseNumber=%v : %s", useNumber, what), id, clipS(bad, 300))
					}
					c.EndCase()
				}
			}
		}
	}
}
