package props

import (
	"bytes"
	stdjson "encoding/json"
	"fmt"
	"reflect"
	"sort"

	json "github.com/goccy/go-json"

	"verif/mc/oracle"
	"verif/mc/props/util"
	"verif/mc/universe"
	"verif/mc/work"
)

// C01 — Marshal agrees with encoding/json.

func init() {
	work.Register("C01", "c01.types", c01Types)
}

type encResult struct {
	out      []byte
	err      error
	panicked bool
	pmsg     string
}

// encoder configurations compared with encoding/json
var c01Configs = []struct {
	name string
	std  func(x interface{}) ([]byte, error)
	goj  func(x interface{}) ([]byte, error)
}{
	{"Marshal",
		func(x interface{}) ([]byte, error) { return stdjson.Marshal(x) },
		func(x interface{}) ([]byte, error) { return json.Marshal(x) }},
	{"MarshalIndent",
		func(x interface{}) ([]byte, error) { return stdjson.MarshalIndent(x, "", " ") },
		func(x interface{}) ([]byte, error) { return json.MarshalIndent(x, "", " ") }},
	{"Encoder(noHTMLEscape)",
		func(x interface{}) ([]byte, error) {
			var b bytes.Buffer
			e := stdjson.NewEncoder(&b)
			e.SetEscapeHTML(false)
			err := e.Encode(x)
			return b.Bytes(), err
		},
		func(x interface{}) ([]byte, error) {
			var b bytes.Buffer
			e := json.NewEncoder(&b)
			e.SetEscapeHTML(false)
			err := e.Encode(x)
			return b.Bytes(), err
		}},
	{"Encoder(indent)",
		func(x interface{}) ([]byte, error) {
			var b bytes.Buffer
			e := stdjson.NewEncoder(&b)
			e.SetIndent(" ", "\t")
			err := e.Encode(x)
			return b.Bytes(), err
		},
		func(x interface{}) ([]byte, error) {
			var b bytes.Buffer
			e := json.NewEncoder(&b)
			e.SetIndent(" ", "\t")
			err := e.Encode(x)
			return b.Bytes(), err
		}},
}

func runEnc(f func(x interface{}) ([]byte, error), x interface{}) (r encResult) {
	r.panicked, r.pmsg = util.Safe(func() { r.out, r.err = f(x) })
	if r.out != nil {
		r.out = append([]byte(nil), r.out...)
	}
	return
}

// place returns the value reached in one of three ways.
func place(v reflect.Value, p int) interface{} {
	switch p {
	case 0:
		return v.Interface()
	case 1:
		pv := reflect.New(v.Type())
		pv.Elem().Set(v)
		return pv.Interface()
	default:
		return []interface{}{v.Interface()}
	}
}

// fatalPlaced: the placed value has a shape of the listed fatal class.
func fatalPlaced(t reflect.Type, p int) bool {
	if p == 1 {
		t = reflect.PtrTo(t)
	}
	return universe.FatalEncodeShape(t)
}

var placeNames = []string{"direct", "ptr", "in-iface"}

// c01Compare returns "" when go-json agrees with encoding/json on x under config k.
func c01Compare(k int, x interface{}) (kind, detail string) {
	cfg := c01Configs[k]
	want := runEnc(cfg.std, x)
	if want.panicked {
		return "", "" // the reference itself fails on this run-time type: inapplicable
	}
	got := runEnc(cfg.goj, x)
	if got.panicked {
		return "panic:" + util.ErrClass(got.pmsg), "go-json panics: " + got.pmsg
	}
	if (got.err == nil) != (want.err == nil) {
		if got.err != nil {
			return "err-vs-ok", fmt.Sprintf("go-json error %q, encoding/json gives %s", got.err, clip(want.out))
		}
		return "ok-vs-err", fmt.Sprintf("go-json gives %s, encoding/json error %q", clip(got.out), want.err)
	}
	if got.err != nil {
		return "", ""
	}
	if d := oracle.TokensEqual(got.out, want.out); d != "" {
		if oracle.SameUnordered(got.out, want.out) {
			d = "member-order-differs"
		} else if gs, ok := oracle.SortMembers(got.out); ok {
			// name the difference that remains when the order of members is set aside, so that
			// an ordering difference does not rename every other difference it coincides with
			if ws, ok := oracle.SortMembers(want.out); ok {
				if d2 := oracle.TokensEqual(gs, ws); d2 != "" {
					d = d2
				}
			}
		}
		return d, fmt.Sprintf("go-json %s, encoding/json %s", clip(got.out), clip(want.out))
	}
	return "", ""
}

// orderClass names a member-order difference by the key set of the map it is blamed on (the
// element type does not matter for the order of the members).
func quoteOrderDiffers(m reflect.Value) bool {
	var raw, quoted []string
	for _, k := range m.MapKeys() {
		raw = append(raw, k.String())
		quoted = append(quoted, k.String()+`"`)
	}
	sort.Strings(raw)
	sort.Strings(quoted)
	for i := range raw {
		if raw[i]+`"` != quoted[i] {
			return true
		}
	}
	return false
}

func orderClass(bv reflect.Value) string {
	// the first string-keyed map with two or more members, depth first
	// first choice: a map whose keys sort differently with and without their closing quote (the
	// known cause of an order difference); otherwise the first map with two or more members
	picky := true
	var find func(v reflect.Value, depth int) (reflect.Value, bool)
	find = func(v reflect.Value, depth int) (reflect.Value, bool) {
		if depth > 8 || !v.IsValid() {
			return v, false
		}
		if v.Kind() == reflect.Map && v.Type().Key().Kind() == reflect.String && v.Len() >= 2 && (!picky || quoteOrderDiffers(v)) {
			return v, true
		}
		for _, cv := range components(v) {
			if m, ok := find(cv, depth+1); ok {
				return m, true
			}
		}
		return v, false
	}
	m, ok := find(bv, 0)
	if !ok {
		picky = false
		m, ok = find(bv, 0)
	}
	if ok {
		var ks []string
		for _, k := range m.MapKeys() {
			ks = append(ks, k.String())
		}
		sort.Strings(ks)
		return fmt.Sprintf("map with string keys %q", ks)
	}
	return sig(bv)
}

func clip(b []byte) string {
	if len(b) > 160 {
		return string(b[:160]) + "..."
	}
	return string(b)
}

func c01Types(c *work.Ctx) {
	level, D := 2, 3
	if !c.Quick() {
		D = 4
	}
	types := universe.Types(level, false)
	c.Count("types", int64(len(types))/int64(c.NShards))
	opts := &universe.ValOpts{}
	memo := map[string]bool{}
	encSpace(c, types, D, opts, func(t reflect.Type, v reflect.Value, id string) {
		for p := 0; p < 3; p++ {
			if fatalPlaced(t, p) {
				c.Count("skipped_listed_fatal_shape", 1)
				continue
			}
			x := place(v, p)
			for k := range c01Configs {
				kind, detail := c01Compare(k, x)
				c.Outcome(fmt.Sprintf("%d/%d/%s", p, k, kind))
				if kind == "" {
					continue
				}
				bv := blame(v, func(cv reflect.Value) bool {
					if fatalPlaced(cv.Type(), p) {
						return false // a component that alone is a listed fatal shape is not executed here
					}
					kk, _ := c01Compare(k, place(cv, p))
					return kk != ""
				}, memoFor(memo, p, k))
				if kind == "member-order-differs" {
					// blame the innermost value that shows this very difference (not any difference)
					bv = blame(v, func(cv reflect.Value) bool {
						if fatalPlaced(cv.Type(), p) {
							return false
						}
						kk, _ := c01Compare(k, place(cv, p))
						return kk == kind
					}, nil)
				}
				class := fmt.Sprintf("%s : %s", sig(bv), kind)
				if kind == "member-order-differs" {
					class = fmt.Sprintf("%s : %s", orderClass(bv), kind)
				}
				c.Violation(class, fmt.Sprintf("%s %s = %s", placeNames[p], universe.Desc(t, 4), universe.DescVal(v, 4)), detail+" ("+id+")")
			}
		}
		if c.WantSample() {
			c.Sample(id)
		}
	})
}

type pk struct{ p, k int }

var memoPK = map[pk]map[string]bool{}

func memoFor(_ map[string]bool, p, k int) map[string]bool {
	m := memoPK[pk{p, k}]
	if m == nil {
		m = map[string]bool{}
		memoPK[pk{p, k}] = m
	}
	return m
}
