package props

import (
	"bytes"
	"fmt"
	"reflect"
	"strings"

	stdjson "encoding/json"

	json "github.com/goccy/go-json"

	"verif/mc/props/util"
	"verif/mc/universe"
	"verif/mc/work"
)

// C07, first clause: "decoding reads only its private copy of the input". The
// buffer-mode scanners walk a nul-terminated private copy with unchecked
// pointer arithmetic; a scanner that steps over the terminator reads the
// neighbouring heap object. The copy is allocated with exactly len(input)+1
// bytes, so an over-read leaves the allocation precisely when len(input)+1 is
// a size class of the allocator. Every truncation of a set of documents (and
// every truncation followed by a lone backslash, an unfinished \u escape and
// an opening quote) is therefore padded with leading white space to the next
// two size classes and decoded by the worker built with -d=checkptr, which
// turns pointer arithmetic that leaves its allocation into a fatal error (the
// coordinator attributes the crash to the case). Oracle: the call returns.

func init() {
	work.Register("C07", "c07.overread", c07Overread)
}

var c07SizeClasses = []int{8, 16, 24, 32, 48, 64, 80, 96, 112, 128, 144, 160, 176, 192, 208, 224, 240, 256, 288, 320, 352, 384, 416, 448, 480, 512}

func c07Overread(c *work.Ctx) {
	bs := "\\"
	base := []string{
		`{"name":"x","zz` + bs + `u0041` + bs + `n":[1,{"a":"b` + bs + `"c"}],"a":true}`,
		`{"a":1,"b":"s` + bs + bs + `","Name":null,"unknown":{"k":[false,-1.5e+3]}}`,
		`["a` + bs + `u00e9` + bs + `ud83d` + bs + `ude00",{"é":"€"},12345,null]`,
		`{"b` + bs + `/":"` + bs + `t","a":"1"}`,
		`"plain string é with ` + bs + `" escapes ` + bs + `r"`,
		`-123.456e-7`,
		`[true,false,null,{"x":[]}]`,
		`{"q":"` + bs + `"12` + bs + `""}`,
		`{"A":{"B":{"C":[[["deep"]]]}}}`,
	}
	if !c.Quick() {
		base = append(base, universe.Docs(2)...)
	}
	type sABN struct {
		A    interface{} `json:"a"`
		B    string      `json:"b"`
		Name *string
	}
	type s9 struct {
		A, B, C, D, E, F, G, H interface{}
		Name                   interface{}
	}
	type sQ struct {
		Q int    `json:"q,string"`
		A string `json:"a,string"`
	}
	dests := []struct {
		name string
		t    reflect.Type
	}{
		{"struct{a,b,Name}", reflect.TypeOf(sABN{})},
		{"struct of 9 members", reflect.TypeOf(s9{})},
		{"struct with ,string members", reflect.TypeOf(sQ{})},
		{"map[string]interface{}", reflect.TypeOf(map[string]interface{}(nil))},
		{"map[string]string", reflect.TypeOf(map[string]string(nil))},
		{"interface{}", reflect.TypeOf((*interface{})(nil)).Elem()},
		{"[]interface{}", reflect.TypeOf([]interface{}(nil))},
		{"[]string", reflect.TypeOf([]string(nil))},
		{"string", reflect.TypeOf("")},
		{"float64", reflect.TypeOf(float64(0))},
		{"int", reflect.TypeOf(0)},
		{"bool", reflect.TypeOf(false)},
		{"RawMessage", reflect.TypeOf(stdjson.RawMessage(nil))},
		{"Unmarshaler", reflect.TypeOf(universe.UJ{})},
		{"TextUnmarshaler", reflect.TypeOf(universe.UT{})},
		{"[]byte", reflect.TypeOf([]byte(nil))},
	}
	path, _ := json.CreatePath("$.a.b")
	seen := map[string]bool{}
	for _, doc := range base {
		for cut := 0; cut <= len(doc); cut++ {
			for _, tail := range []string{"", bs, bs + "u", bs + "u00", `"`, `"` + bs, "-", "1e", "tru", "nul"} {
				text := doc[:cut] + tail
				if seen[text] {
					continue
				}
				seen[text] = true
				// pad to the next two size classes
				var padded []string
				n := 0
				for _, sc := range c07SizeClasses {
					if sc >= len(text)+1 {
						padded = append(padded, strings.Repeat(" ", sc-1-len(text))+text)
						n++
						if n == 2 {
							break
						}
					}
				}
				for _, in := range padded {
					if !c.BeginS(fmt.Sprintf("over-read probe (%d+1 bytes): %s", len(in), in)) {
						continue
					}
					b := []byte(in)
					for _, d := range dests {
						d := d
						if p, msg := util.Safe(func() {
							_ = json.Unmarshal(append(make([]byte, 0, len(b)), b...), reflect.New(d.t).Interface())
							_ = json.UnmarshalNoEscape(append(make([]byte, 0, len(b)), b...), reflect.New(d.t).Interface())
						}); p {
							c.Violation(fmt.Sprintf("panic : Unmarshal into %s : %s", d.name, util.ErrClass(msg)), in, msg)
						}
					}
					if p, msg := util.Safe(func() {
						var o bytes.Buffer
						_ = json.Compact(&o, b)
						o.Reset()
						_ = json.Indent(&o, b, "", " ")
						_, _ = path.Extract(b)
						var v interface{}
						_ = path.Unmarshal(b, &v)
					}); p {
						c.Violation("panic : Compact/Indent/Path.Extract : "+util.ErrClass(msg), in, msg)
					}
					c.Count("overread_probes", 1)
					c.EndCase()
				}
			}
		}
	}
}
