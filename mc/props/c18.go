package props

import (
	"bytes"
	stdjson "encoding/json"
	"fmt"
	"reflect"
	"strings"
	"unicode/utf8"

	json "github.com/goccy/go-json"

	"verif/mc/oracle"
	"verif/mc/props/util"
	"verif/mc/universe"
	"verif/mc/work"
)

// C18 — Compact, Indent, HTMLEscape and Valid match encoding/json.

func init() {
	work.Register("C18", "c18.valid", c18Valid)
	work.Register("C18", "c18.invalid", c18Invalid)
}

var c18PI = []string{"", " ", "\t", "é·"}

type c18Fn struct {
	name string
	std  func(dst *bytes.Buffer, src []byte) error
	goj  func(dst *bytes.Buffer, src []byte) error
}

func c18Fns(quick bool) []c18Fn {
	fns := []c18Fn{
		{"Compact", func(d *bytes.Buffer, s []byte) error { return stdjson.Compact(d, s) }, func(d *bytes.Buffer, s []byte) error { return json.Compact(d, s) }},
	}
	for _, p := range c18PI {
		for _, i := range c18PI {
			p, i := p, i
			fns = append(fns, c18Fn{fmt.Sprintf("Indent(%q,%q)", p, i),
				func(d *bytes.Buffer, s []byte) error { return stdjson.Indent(d, s, p, i) },
				func(d *bytes.Buffer, s []byte) error { return json.Indent(d, s, p, i) }})
		}
	}
	return fns
}

// tokenShape abstracts a text: scalars become n/s/t, white space runs become '_'.
func tokenShape(s string) string {
	var sb strings.Builder
	for i := 0; i < len(s); {
		c := s[i]
		switch {
		case c == ' ' || c == '\n' || c == '\t' || c == '\r':
			for i < len(s) && (s[i] == ' ' || s[i] == '\n' || s[i] == '\t' || s[i] == '\r') {
				i++
			}
			sb.WriteByte('_')
		case strings.IndexByte("[]{},:", c) >= 0:
			sb.WriteByte(c)
			i++
		case c == '"':
			j := i + 1
			esc, hi := false, false
			for j < len(s) && s[j] != '"' {
				if s[j] == '\\' {
					esc = true
					j++
				}
				if j < len(s) && s[j] >= 0x80 {
					hi = true
				}
				j++
			}
			sb.WriteByte('s')
			if esc {
				sb.WriteByte('e')
			}
			if hi {
				sb.WriteByte('u')
			}
			if strings.ContainsAny(s[i:min(j+1, len(s))], "<>&") {
				sb.WriteByte('h')
			}
			i = j + 1
		default:
			j := i
			for j < len(s) && strings.IndexByte("[]{},: \n\t\r\"", s[j]) < 0 {
				j++
			}
			w := s[i:j]
			switch {
			case w == "true" || w == "false" || w == "null":
				sb.WriteByte('t')
			case strings.ContainsAny(w, ".eE"):
				sb.WriteString("nf")
			default:
				sb.WriteByte('n')
			}
			i = j
		}
	}
	out := sb.String()
	if len(out) > 40 {
		out = out[:40] + "~"
	}
	return out
}

func min(a, b int) int {
	if a < b {
		return a
	}
	return b
}

// c18Run applies fn to src with a destination buffer that is empty or already holds "abc".
func c18Run(f func(dst *bytes.Buffer, src []byte) error, src []byte, prefilled bool) (out []byte, err error, panicked bool, msg string) {
	var dst bytes.Buffer
	if prefilled {
		dst.WriteString("abc")
	}
	in := append([]byte(nil), src...)
	// what earlier calls with other options leave in the pooled working contexts must not show in these functions
	// (HTMLEscape and the re-formatting of marshaler output run on the encoder's contexts)
	// (alternately a coloured and an indenting call is the last user of the pooled context)
	c18PrologueTurn++
	if c18PrologueTurn%2 == 0 {
		_, _ = json.MarshalIndent(c18PrologueVal, ">", "\t")
		_, _ = json.MarshalWithOption(c18PrologueVal, json.Colorize(json.DefaultColorScheme), json.UnorderedMap(), json.DisableHTMLEscape())
	} else {
		_, _ = json.MarshalWithOption(c18PrologueVal, json.Colorize(json.DefaultColorScheme), json.UnorderedMap(), json.DisableHTMLEscape())
		_, _ = json.MarshalIndent(c18PrologueVal, ">", "\t")
	}
	panicked, msg = util.Safe(func() { err = f(&dst, in) })
	return append([]byte(nil), dst.Bytes()...), err, panicked, msg
}

var c18PrologueTurn int

var c18PrologueVal = map[string]interface{}{"a": []int{1}, "b": "<x>"}

// c18Check compares one (function, text, destination state); kind=="" is agreement.
func c18Check(fn *c18Fn, src []byte, prefilled bool) (kind, detail string) {
	want, werr, _, _ := c18Run(fn.std, src, prefilled)
	got, gerr, p, msg := c18Run(fn.goj, src, prefilled)
	switch {
	case p:
		return "panic:" + util.ErrClass(msg), msg
	case werr != nil && gerr == nil:
		return "accepts-invalid", fmt.Sprintf("go-json appends %q; encoding/json: %v", clip(got), werr)
	case werr == nil && gerr != nil:
		return "rejects-valid", fmt.Sprintf("go-json error %v; encoding/json appends %q", gerr, clip(want))
	case werr != nil:
		base := ""
		if prefilled {
			base = "abc"
		}
		if string(got) != base {
			return "destination-changed-on-error", fmt.Sprintf("destination holds %q after the error (was %q)", clip(got), base)
		}
		return "", ""
	case !bytes.Equal(got, want):
		return "bytes-differ", fmt.Sprintf("go-json %q; encoding/json %q", clip(got), clip(want))
	}
	return "", ""
}

func c18Report(c *work.Ctx, fn *c18Fn, src []byte, prefilled bool, kind, detail, feature string) {
	dst := "empty dst"
	if prefilled {
		dst = "prefilled dst"
	}
	// a failure that also occurs on the trivial document is independent of the text
	if k0, _ := c18Check(fn, []byte("0"), prefilled); k0 == kind && oracle.Valid(src) {
		feature = "any document"
	}
	name := fn.name
	if strings.HasPrefix(name, "Indent(") {
		// the prefix/indent strings matter only if the plainest pair behaves
		in0 := c18Fn{"Indent", func(d *bytes.Buffer, s []byte) error { return stdjson.Indent(d, s, "", " ") }, func(d *bytes.Buffer, s []byte) error { return json.Indent(d, s, "", " ") }}
		if k0, _ := c18Check(&in0, src, prefilled); k0 == kind {
			name = "Indent(any)"
		}
	}
	c.Violation(fmt.Sprintf("%s : %s : %s : %s", name, dst, kind, feature), string(src), fmt.Sprintf("%s(%q) %s: %s", fn.name, src, dst, detail))
}

func c18Valid(c *work.Ctx) {
	depth := 2
	if !c.Quick() {
		depth = 3
	}
	docs := universe.Docs(depth)
	for _, n := range []string{"-0", "1e5", "1E-5", "1.50", "0.0", "-1.5E+10", "123456789012345678901234567890", `"<&>"`, "\"  \"", `"é "`, "\"\x7f\""} {
		docs = append(docs, n, "["+n+"]", `{"a":`+n+`}`)
	}
	var texts []string
	for _, d := range docs {
		texts = append(texts, d)
	}
	// every white space placement in the depth-1 documents (one position at a time, and all at once)
	for _, d := range universe.Docs(1) {
		t := universe.Tokens(d)
		for k := 0; k <= len(t); k++ {
			texts = append(texts, universe.WithSpace(t, k, " "), universe.WithSpace(t, k, "\n\t\r "))
		}
		texts = append(texts, " "+strings.Join(t, " ")+" ", "\n"+strings.Join(t, "\n")+"\n")
	}
	// nesting ladder around encoding/json's depth limit
	for _, n := range []int{1, 2, 10, 100, 1000, 9999, 10000, 10001} {
		texts = append(texts, strings.Repeat("[", n)+strings.Repeat("]", n), strings.Repeat(`{"a":`, n)+"0"+strings.Repeat("}", n))
	}
	fns := c18Fns(c.Quick())
	for _, txt := range texts {
		src := []byte(txt)
		id := txt
		if len(id) > 200 {
			id = fmt.Sprintf("%s...(%d bytes)", id[:60], len(id))
		}
		if !c.BeginS(id) {
			continue
		}
		feature := tokenShape(txt)
		if len(txt) > 2000 {
			feature = fmt.Sprintf("deep nesting %d bytes", len(txt))
		}
		for fi := range fns {
			fn := &fns[fi]
			if len(txt) > 5000 && fn.name != "Compact" && fn.name != `Indent("","")` {
				continue // indentation of a 10^4-deep text is quadratic in size for every library
			}
			for _, pre := range []bool{false, true} {
				kind, detail := c18Check(fn, src, pre)
				c.Outcome(fn.name + kind)
				if kind != "" {
					c18Report(c, fn, src, pre, kind, detail, feature)
					continue
				}
				// idempotence: applying the function to its own output changes nothing further
				if fn.name != "HTMLEscape" && !pre {
					o1, e1, _, _ := c18Run(fn.goj, src, false)
					if e1 == nil {
						o2, e2, p2, _ := c18Run(fn.goj, o1, false)
						// Indent with a prefix re-prefixes by definition; compare against encoding/json's second pass
						w2, we2, _, _ := c18Run(fn.std, o1, false)
						if p2 || (e2 == nil) != (we2 == nil) || (e2 == nil && !bytes.Equal(o2, w2)) {
							c18Report(c, fn, src, pre, "second-application-differs", fmt.Sprintf("second pass gives %q err=%v; encoding/json %q err=%v", clip(o2), e2, clip(w2), we2), feature)
						}
					}
				}
			}
		}
		// HTMLEscape output: an equivalent text without raw <, >, &, U+2028, U+2029
		if out, _, p, pmsg := c18Run(func(d *bytes.Buffer, s []byte) error { json.HTMLEscape(d, s); return nil }, src, false); p {
			c.Violation("HTMLEscape : panic : "+feature, txt, pmsg)
		} else {
			if bytes.ContainsAny(out, "<>&") || bytes.Contains(out, []byte("\u2028")) || bytes.Contains(out, []byte("\u2029")) {
				c.Violation("HTMLEscape : raw special character in output : "+feature, txt, fmt.Sprintf("%q", clip(out)))
			} else if len(txt) < 2000 {
				// equivalent = the same JSON value (member order and duplicate members are not
				// part of the value; go-json re-encodes the decoded document)
				var a, b interface{}
				da := stdjson.NewDecoder(bytes.NewReader(out))
				da.UseNumber()
				db := stdjson.NewDecoder(bytes.NewReader(src))
				db.UseNumber()
				ea, eb := da.Decode(&a), db.Decode(&b)
				if ea != nil || eb != nil || !reflect.DeepEqual(a, b) {
					c.Violation("HTMLEscape : output is not the same JSON value : "+feature, txt, fmt.Sprintf("%q", clip(out)))
				}
			}
		}
		// Valid
		if len(txt) < 100000 {
			if g, w := json.Valid(src), stdjson.Valid(src); g != w {
				c.Violation(fmt.Sprintf("Valid : %v on a text encoding/json judges %v : %s", g, w, feature), txt, "")
			}
		}
		if c.WantSample() {
			c.Sample(id)
		}
		c.EndCase()
	}
}

func c18Invalid(c *work.Ctx) {
	max := 4
	if !c.Quick() {
		max = 5
	}
	fns := c18Fns(c.Quick())
	// Compact and the plainest Indent on every string; the other prefix/indent pairs add nothing for rejection
	use := []*c18Fn{&fns[0], &fns[1], &fns[len(fns)-1]}
	run := func(b []byte) {
		if !c.Begin(b) {
			return
		}
		valid := oracle.Valid(b)
		c.RefCheck(1)
		if stdjson.Valid(b) != valid {
			c.HarnessError(fmt.Sprintf("recogniser disagrees with encoding/json.Valid on %q", b))
		}
		cls := ""
		for _, fn := range use {
			for _, pre := range []bool{false, true} {
				kind, detail := c18Check(fn, b, pre)
				c.Outcome(fn.name + kind)
				if kind == "" {
					continue
				}
				if cls == "" {
					cls = c05StdClass(b)
					if valid {
						cls = tokenShape(string(b))
					}
				}
				c18Report(c, fn, b, pre, kind, detail, cls)
			}
		}
		if c.WantSample() {
			c.Sample(fmt.Sprintf("%q valid=%v", b, valid))
		}
		c.EndCase()
	}
	c.SelfSharded = true
	util.ForEachString(util.Sigma, max, c.Shard, c.NShards, func(b []byte) bool { run(b); return true })
	// single-byte edits of the grammar texts
	var buf []byte
	docs := universe.Docs(2)
	for di, d := range docs {
		if di%c.NShards != c.Shard {
			continue
		}
		src := []byte(d)
		for pos := 0; pos <= len(src); pos++ {
			if pos < len(src) {
				buf = append(append(buf[:0], src[:pos]...), src[pos+1:]...)
				run(buf)
				for _, s := range util.Sigma {
					if s != src[pos] {
						buf = append(buf[:0], src...)
						buf[pos] = s
						run(buf)
					}
				}
			}
			for _, s := range util.Sigma {
				buf = append(append(append(buf[:0], src[:pos]...), s), src[pos:]...)
				run(buf)
			}
		}
	}
}

// ---- length ladders --------------------------------------------------------------------------------------
//
// c18.lengths: Valid and HTMLEscape decode through the stream decoder (512-byte buffer, doubling), Compact and
// Indent scan the text themselves: the one-parameter families of the length ladders (strings of N atoms, N
// digits, N elements / members / sibling containers, N white-space bytes ...) plus white-space runs OUTSIDE the
// top-level value (before it, behind it, behind it and followed by garbage), for every N of the ladder, judged
// by encoding/json's verdict and bytes.

func init() {
	work.Register("C18", "c18.lengths", c18Lengths)
}

func c18Lengths(c *work.Ctx) {
	fams := ladderFamilies()
	ws := func(n int) string { return strings.Repeat(" \n\t\r", n/4) + strings.Repeat(" ", n%4) }
	fams = append(fams,
		ladderFam{"N white-space bytes before the value", func(n int) string { return ws(n) + `[1,"a"]` }, ""},
		ladderFam{"N white-space bytes behind the value", func(n int) string { return `{"a":[1]}` + ws(n) }, ""},
		ladderFam{"N white-space bytes on both sides", func(n int) string { return ws(n) + `"s"` + ws(n) }, ""},
		ladderFam{"value, N white-space bytes, garbage", func(n int) string { return `[1,2]` + ws(n) + `x` }, ""},
		ladderFam{"value, N white-space bytes, a second value", func(n int) string { return `[1,2]` + ws(n) + `3` }, ""},
		ladderFam{"value, N white-space bytes, a closing bracket", func(n int) string { return `[1,2]` + ws(n) + `]` }, ""},
		ladderFam{"N white-space bytes only", func(n int) string { return ws(n) }, ""},
		ladderFam{"N white-space bytes after a colon", func(n int) string { return `{"a":` + ws(n) + `1}` }, ""},
	)
	compact := c18Fn{"Compact", func(d *bytes.Buffer, s []byte) error { return stdjson.Compact(d, s) }, func(d *bytes.Buffer, s []byte) error { return json.Compact(d, s) }}
	indent := c18Fn{"Indent", func(d *bytes.Buffer, s []byte) error { return stdjson.Indent(d, s, "", " ") }, func(d *bytes.Buffer, s []byte) error { return json.Indent(d, s, "", " ") }}
	ns0 := ladderNs(c.Quick())
	for _, f := range fams {
		ns := ns0
		if strings.HasPrefix(f.name, "siblings:") {
			ns = siblingNs(c.Quick())
		}
		for _, n := range ns {
			id := fmt.Sprintf("%s, N=%d", f.name, n)
			if !c.BeginS(id) {
				continue
			}
			src := []byte(f.mk(n))
			nb := ladderBucket(n)
			fresh := strings.HasPrefix(f.name, "fresh:")
			std := stdjson.Valid(src)
			// Valid
			var g bool
			if fresh {
				ladderFreshPools()
			}
			if p, msg := util.Safe(func() { g = json.Valid(append([]byte(nil), src...)) }); p {
				c.Violation(fmt.Sprintf("length ladder : Valid : panic : %s : %s", f.name, nb), id, msg)
			} else if g != std {
				c.Violation(fmt.Sprintf("length ladder : Valid : %v on a text encoding/json judges %v : %s : %s", g, std, f.name, nb), id, "")
			}
			c.Outcome(fmt.Sprint(std))
			// Compact, Indent
			for _, fn := range []*c18Fn{&compact, &indent} {
				if fresh {
					ladderFreshPools()
				}
				if kind, detail := c18Check(fn, src, false); kind != "" {
					c.Violation(fmt.Sprintf("length ladder : %s : %s : %s : %s", fn.name, kind, f.name, nb), id, clipTailS(detail))
				}
			}
			// HTMLEscape: for a valid text an equivalent text without raw specials; it always returns
			out, _, p, msg := c18Run(func(d *bytes.Buffer, s []byte) error { json.HTMLEscape(d, s); return nil }, src, false)
			switch {
			case p:
				c.Violation(fmt.Sprintf("length ladder : HTMLEscape : panic : %s : %s", f.name, nb), id, msg)
			case std && utf8Valid(src):
				var a, b interface{}
				da := stdjson.NewDecoder(bytes.NewReader(out))
				da.UseNumber()
				db := stdjson.NewDecoder(bytes.NewReader(src))
				db.UseNumber()
				ea, eb := da.Decode(&a), db.Decode(&b)
				if ea != nil || eb != nil || !reflect.DeepEqual(a, b) {
					c.Violation(fmt.Sprintf("length ladder : HTMLEscape : output is not the same JSON value : %s : %s", f.name, nb), id, fmt.Sprintf("%d bytes in, %d bytes out: %q", len(src), len(out), clip(out)))
				}
			}
			if c.WantSample() {
				c.Sample(id)
			}
			c.EndCase()
		}
	}
}

func clipTailS(s string) string {
	if len(s) > 300 {
		return s[:150] + " ... " + s[len(s)-120:]
	}
	return s
}

func utf8Valid(b []byte) bool { return utf8.Valid(b) }
