//go:build vshim
// +build vshim

package props

import (
	"bytes"
	"context"
	stdjson "encoding/json"
	"fmt"
	"io"
	"reflect"
	"strings"

	json "github.com/goccy/go-json"

	"verif/mc/explore"
	"verif/mc/oracle"
	"verif/mc/props/util"
	"verif/mc/work"
)

// C12 — no aliasing between caller data and library buffers.

func init() {
	work.Register("C12", "c12.histories", func(c *work.Ctx) { c12Histories(c, false) })
	// C07's clause "writes only inside the object graph rooted at the destination": the same histories, judged
	// only by what happened to the bystanders (earlier decoded values, caller buffers)
	work.Register("C07", "c07.bystanders", func(c *work.Ctx) { c12Histories(c, true) })
}

// retaining callbacks: they keep the very slice they are handed
type c12KeepJ struct{ B []byte }

func (k *c12KeepJ) UnmarshalJSON(b []byte) error { k.B = b; return nil }

type c12KeepT struct{ B []byte }

func (k *c12KeepT) UnmarshalText(b []byte) error { k.B = b; return nil }

// c12Window's MarshalJSON returns a window of somebody else's buffer (spare capacity = live data behind it).
type c12Window struct{ b []byte }

func (w c12Window) MarshalJSON() ([]byte, error) { return w.b, nil }

type c12S struct {
	A string          `json:"a"`
	N json.Number     `json:"n"`
	Q string          `json:"q,string"`
	R json.RawMessage `json:"r"`
	B []byte          `json:"b"`
}

// c12World is the caller's side of one history.
type c12World struct {
	inputs   [][]byte // every input slice handed to the library
	inSnap   []string
	kept     []reflect.Value // every value the library produced (addressable holders)
	keptName []string
	keptSnap []string
	outs     [][]byte // every []byte a Marshal function returned
	outSnap  []string
	dec      *json.Decoder
	decSrc   *bytes.Reader
	decFr    *json.Decoder // a second stream whose reader delivers exactly one document per Read
}

// framedReader returns one document per Read call (no separator buffered behind it), as a
// message-framed transport does.
type framedReader struct {
	docs [][]byte
}

func (r *framedReader) Read(p []byte) (int, error) {
	if len(r.docs) == 0 {
		return 0, io.EOF
	}
	n := copy(p, r.docs[0])
	if n < len(r.docs[0]) {
		r.docs[0] = r.docs[0][n:]
	} else {
		r.docs = r.docs[1:]
	}
	return n, nil
}

func (w *c12World) input(s string) []byte {
	b := []byte(s)
	// spare capacity, as a caller's reused buffer would have
	b = append(make([]byte, 0, len(b)+16), b...)
	w.inputs = append(w.inputs, b)
	w.inSnap = append(w.inSnap, string(b[:cap(b)])) // the spare capacity is the caller's too
	return b
}

func (w *c12World) keep(name string, v interface{}) {
	rv := reflect.ValueOf(v).Elem()
	w.kept = append(w.kept, rv)
	w.keptName = append(w.keptName, name)
	w.keptSnap = append(w.keptSnap, oracle.Canon(rv))
}

func (w *c12World) out(b []byte) {
	w.outs = append(w.outs, b)
	w.outSnap = append(w.outSnap, string(b))
}

// check verifies that nothing the caller owns has changed behind its back.
func (w *c12World) check() (what, detail string) {
	for i, b := range w.inputs {
		if full := b[:cap(b)]; string(full) != w.inSnap[i] {
			if string(b) == w.inSnap[i][:len(b)] {
				return "caller buffer modified behind the input", fmt.Sprintf("the %d spare bytes behind input #%d are now %q", cap(b)-len(b), i, clip(full[len(b):]))
			}
			return "caller input modified", fmt.Sprintf("input #%d is now %q, was %q", i, clip(b), clip([]byte(w.inSnap[i])))
		}
	}
	for i, v := range w.kept {
		if now := oracle.Canon(v); now != w.keptSnap[i] {
			return "decoded value changed later : " + w.keptName[i], fmt.Sprintf("%s is now %s, was %s", w.keptName[i], clip([]byte(now)), clip([]byte(w.keptSnap[i])))
		}
	}
	for i, b := range w.outs {
		if string(b) != w.outSnap[i] {
			return "returned slice changed later", fmt.Sprintf("output #%d is now %q, was %q", i, clip(b), clip([]byte(w.outSnap[i])))
		}
	}
	return "", ""
}

type c12Call struct {
	name string
	run  func(w *c12World) string
}

func c12Calls() []c12Call {
	long := strings.Repeat("long-string-", 60)
	stream := `{"a":"first\n\"value\"","n":12.5,"q":"\"quoted-one\"","r":{"k":[1,2]},"b":"QUJD"} ` +
		`{"a":"` + long + `é","n":7,"q":"\"q2\"","r":"raw","b":"REVG"} ` +
		`{"a":"third 😀","n":-1e3,"q":"\"quoted-three\"","r":[true],"b":""} `
	errS := func(err error) string {
		if err != nil {
			return " error:" + util.ErrClass(err.Error())
		}
		return ""
	}
	return []c12Call{
		{"Unmarshal(->string)", func(w *c12World) string {
			var s string
			err := json.Unmarshal(w.input(`"alice-in-wonderland é \"q\""`), &s)
			w.keep("string", &s)
			return s + errS(err)
		}},
		{"Unmarshal(->[]byte)", func(w *c12World) string {
			var b []byte
			err := json.Unmarshal(w.input(`"aGVsbG8gd29ybGQh"`), &b)
			w.keep("[]byte", &b)
			return string(b) + errS(err)
		}},
		{"Unmarshal(->RawMessage)", func(w *c12World) string {
			var r json.RawMessage
			err := json.Unmarshal(w.input(` {"k": [1, "two", {"three": 3}]} `), &r)
			w.keep("RawMessage", &r)
			return string(r) + errS(err)
		}},
		{"Unmarshal(->Number)", func(w *c12World) string {
			var n json.Number
			err := json.Unmarshal(w.input(`123456789.25e-3`), &n)
			w.keep("Number", &n)
			return string(n) + errS(err)
		}},
		{"Unmarshal(->retaining Unmarshaler)", func(w *c12World) string {
			var k c12KeepJ
			err := json.Unmarshal(w.input(`{"x": ["retained", 1]}`), &k)
			w.keep("bytes kept by UnmarshalJSON", &k)
			return string(k.B) + errS(err)
		}},
		{"Unmarshal(->retaining TextUnmarshaler)", func(w *c12World) string {
			var k struct{ T c12KeepT }
			err := json.Unmarshal(w.input(`{"T":"text kept by the callback \n"}`), &k)
			w.keep("bytes kept by UnmarshalText", &k)
			return string(k.T.B) + errS(err)
		}},
		{"Unmarshal(->interface{})", func(w *c12World) string {
			var v interface{}
			err := json.Unmarshal(w.input(`{"s":"string in interface","l":["x\ty","z"],"n":1.5}`), &v)
			w.keep("interface{}", &v)
			return fmt.Sprint(v) + errS(err)
		}},
		{"Unmarshal(->struct with string, Number, ,string, RawMessage, []byte)", func(w *c12World) string {
			var s c12S
			err := json.Unmarshal(w.input(`{"a":"struct string","n":42,"q":"\"quoted\"","r":{"raw":true},"b":"WFla"}`), &s)
			w.keep("struct", &s)
			return fmt.Sprintf("%+v", s) + errS(err)
		}},
		{"Decoder.Decode(next document of one stream)", func(w *c12World) string {
			if w.dec == nil {
				src := w.input(stream)
				w.decSrc = bytes.NewReader(src)
				w.dec = json.NewDecoder(w.decSrc)
			}
			s := new(c12S)
			err := w.dec.Decode(s)
			w.keep("value decoded from the stream", s)
			return fmt.Sprintf("%+v", *s) + errS(err)
		}},
		{"Decoder.Decode(next document of a stream that delivers one document per Read)", func(w *c12World) string {
			if w.decFr == nil {
				w.decFr = json.NewDecoder(&framedReader{docs: [][]byte{
					[]byte(`{"a":"framed one","n":1.5,"q":"\"f-one\"","r":{"k":1},"b":"QUJD"}`),
					[]byte(`{"a":"framed two, a little longer","n":22,"q":"\"f-two\"","r":[2],"b":"REVG"}`),
					[]byte(`{"a":"three","n":3,"q":"\"3\"","r":3,"b":""}`),
					[]byte(`{"a":"framed document number four","n":4e4,"q":"\"four\"","r":"4","b":"NA=="}`),
				}})
			}
			s := new(c12S)
			err := w.decFr.Decode(s)
			w.keep("value decoded from the framed stream", s)
			return fmt.Sprintf("%+v", *s) + errS(err)
		}},
		{"Decoder.Token(UseNumber)", func(w *c12World) string {
			d := json.NewDecoder(bytes.NewReader(w.input(`["tokén", 12.50, {"key":"v"}]`)))
			d.UseNumber()
			var toks []interface{}
			for i := 0; i < 12; i++ {
				t, err := d.Token()
				if err != nil {
					break
				}
				toks = append(toks, t)
			}
			w.keep("tokens", &toks)
			return fmt.Sprint(toks)
		}},
		{"Marshal(small)", func(w *c12World) string {
			b, err := json.Marshal(map[string]interface{}{"k": "small", "n": 1})
			w.out(b)
			return string(b) + errS(err)
		}},
		{"Marshal(4 KiB)", func(w *c12World) string {
			b, err := json.Marshal(strings.Repeat("0123456789abcdef", 256))
			w.out(b)
			return fmt.Sprintf("%d bytes %x", len(b), fnvHash(b)) + errS(err)
		}},
		{"Marshal(60 KiB, just below the size above which buffers are not kept)", func(w *c12World) string {
			b, err := json.Marshal(strings.Repeat("0123456789abcdef", 3750))
			w.out(b)
			return fmt.Sprintf("%d bytes %x", len(b), fnvHash(b)) + errS(err)
		}},
		{"Marshal(70 KiB)", func(w *c12World) string {
			b, err := json.Marshal([]string{strings.Repeat("fedcba9876543210", 4400)})
			w.out(b)
			return fmt.Sprintf("%d bytes %x", len(b), fnvHash(b)) + errS(err)
		}},
		{"MarshalIndent", func(w *c12World) string {
			b, err := json.MarshalIndent([]interface{}{1, "two", map[string]int{"three": 3}}, "", "  ")
			w.out(b)
			return string(b) + errS(err)
		}},
		{"Encoder.Encode", func(w *c12World) string {
			var buf bytes.Buffer
			err := json.NewEncoder(&buf).Encode(c12S{A: "enc", N: "5", Q: "q", R: json.RawMessage(`[1]`), B: []byte("xyz")})
			b := buf.Bytes()
			w.out(b)
			return string(b) + errS(err)
		}},
		{"Path.Extract", func(w *c12World) string {
			p, err := json.CreatePath("$.a.b")
			if err != nil {
				return "path error"
			}
			parts, err := p.Extract(w.input(`{"a":{"b":"extracted \"part\" number one","c":1},"z":"tail"}`))
			for _, part := range parts {
				w.out(part)
			}
			return fmt.Sprintf("%q", parts) + errS(err)
		}},
		{"Path.Extract(selecting literals and the whole document)", func(w *c12World) string {
			// what Extract hands out is the caller's to overwrite: neither the library's own constants nor the input
			var all []string
			for _, ps := range []string{"$.t", "$.f", "$.n", "$", "$.s"} {
				p, err := json.CreatePath(ps)
				if err != nil {
					return "path error"
				}
				parts, err := p.Extract(w.input(`{"t":true,"f":false,"n":null,"s":"x"}`))
				for _, part := range parts {
					w.out(part)
				}
				all = append(all, fmt.Sprintf("%s=%q%s", ps, parts, errS(err)))
			}
			return strings.Join(all, " ")
		}},
		{"Path.Unmarshal", func(w *c12World) string {
			p, err := json.CreatePath("$.a")
			if err != nil {
				return "path error"
			}
			var v interface{}
			err = p.Unmarshal(w.input(`{"a":{"b":"path string\n","c":[1,"x"]}}`), &v)
			w.keep("value decoded through a Path", &v)
			return fmt.Sprint(v) + errS(err)
		}},
		{"Marshal(RawMessages that are adjacent windows of one caller buffer)", func(w *c12World) string {
			// RawMessage.MarshalJSON returns the receiver: slices with spare capacity whose next byte is live caller data
			buf := w.input(`{"a":1}[2,3]"x"`)
			v := struct{ A, B, C json.RawMessage }{buf[0:7], buf[7:12], buf[12:15]}
			b, err := json.Marshal(v)
			w.out(b)
			return string(b) + errS(err)
		}},
		{"Encoder+indent(marshaler returning a window of a live caller buffer)", func(w *c12World) string {
			buf := w.input(`[1,2]{"k":"v"}`)
			var out bytes.Buffer
			en := json.NewEncoder(&out)
			en.SetIndent("", " ")
			err := en.Encode([]interface{}{c12Window{buf[0:5]}, c12Window{buf[5:14]}, json.RawMessage(buf[0:5])})
			b := out.Bytes()
			w.out(b)
			return string(b) + errS(err)
		}},
		{"Unmarshal(40 KiB input with spare capacity)", func(w *c12World) string {
			var s struct {
				A     string   `json:"a"`
				Items []string `json:"items"`
			}
			doc := `{"a":"escaped \"first\" string\n","items":["` + strings.Repeat(`item-0123456789","`, 2400) + `last"]}`
			err := json.Unmarshal(w.input(doc), &s)
			w.keep("struct decoded from a 40 KiB input", &s)
			return fmt.Sprintf("%q %d %x", s.A, len(s.Items), fnvHash([]byte(strings.Join(s.Items, ",")))) + errS(err)
		}},
		{"caller overwrites every input passed so far", func(w *c12World) string {
			for i, b := range w.inputs {
				if w.decSrc != nil && w.decSrc.Len() > 0 && strings.HasPrefix(w.inSnap[i], `{"a":"first`) {
					continue // the stream source is still being read by the Decoder
				}
				for j := range b {
					b[j] = 0xEE
				}
				w.inSnap[i] = string(b[:cap(b)])
			}
			return "done"
		}},
		{"caller overwrites every returned slice", func(w *c12World) string {
			for i, b := range w.outs {
				full := b[:cap(b)]
				for j := range full {
					full[j] = 0xEE
				}
				w.outSnap[i] = string(b)
			}
			return "done"
		}},
	}
}

func c12Histories(c *work.Ctx, bystandersOnly bool) {
	calls := c12Calls()
	depth := 3
	if !c.Quick() {
		depth = 4
	}
	// cold results
	cold := make([]string, len(calls))
	for i := range calls {
		c11Reset()
		c11SetPool(nil)
		w := &c12World{}
		if p, msg := util.Safe(func() { cold[i] = calls[i].run(w) }); p {
			cold[i] = "PANIC:" + msg
		}
	}
	c.SelfSharded = true
	n := len(calls)
	idx := make([]int, depth)
	var ord int
	for l := 1; l <= depth; l++ {
		for i := range idx[:l] {
			idx[i] = 0
		}
		for {
			if ord%c.NShards == c.Shard {
				hist := append([]int(nil), idx[:l]...)
				ex := &explore.Explorer{Bound: 1}
				if c.Quick() && l == depth {
					ex.Bound = 0 // quick: pool deviations only for the shorter histories
				}
				ex.Run(func(ch *explore.Chooser) {
					var names []string
					for _, k := range hist {
						names = append(names, calls[k].name)
					}
					id := strings.Join(names, " ; ")
					judge := c.BeginS(id)
					c11Reset()
					c11SetPool(func(np int) int {
						if np == 0 {
							return 1
						}
						ar := 2
						if np >= 2 {
							ar = 3
						}
						return ch.Deviate(ar)
					})
					w := &c12World{}
					streamCalls := map[int]int{}
					for step, k := range hist {
						var got string
						p, msg := util.Safe(func() { got = calls[k].run(w) })
						if !judge {
							continue
						}
						if p {
							c.Violation("panic : "+calls[k].name, id, msg)
							break
						}
						c.Outcome(got)
						what, detail := w.check()
						if what != "" {
							c.Violation(fmt.Sprintf("%s : after [%s]", what, calls[k].name), id+fmt.Sprintf(" pool choices %v", ch.Choices()), fmt.Sprintf("step %d: %s", step, detail))
							break
						}
						// later results equal their cold results (the stream call is positional: compare only its first use)
						isStream := strings.HasPrefix(calls[k].name, "Decoder.Decode(next")
						if isStream {
							streamCalls[k]++
						}
						if !bystandersOnly && (!isStream || streamCalls[k] == 1) && got != cold[k] {
							c.Violation(fmt.Sprintf("result differs from the cold result : [%s]", calls[k].name), id+fmt.Sprintf(" pool choices %v", ch.Choices()),
								fmt.Sprintf("step %d gives %s ; cold %s", step, clip([]byte(got)), clip([]byte(cold[k]))))
							break
						}
					}
					c11SetPool(nil)
					if judge {
						if c.WantSample() {
							c.Sample(id)
						}
						c.EndCase()
					}
				})
			}
			ord++
			k := l - 1
			for k >= 0 {
				idx[k]++
				if idx[k] < n {
					break
				}
				idx[k] = 0
				k--
			}
			if k < 0 {
				break
			}
		}
	}
}

// ---- output sizes ---------------------------------------------------------------------------------

func init() {
	work.Register("C12", "c12.sizes", c12Sizes)
}

// c12Sizes: the returned slice is the caller's whatever the size of the document and whatever
// state the pooled buffer is in. For every element count of a ladder (encoded sizes from a few
// bytes to 600 KiB, dense around the powers of two and their growth points) and every
// buffer-returning entry point: encode the document, then a small one, then the document again
// and a larger one; after every step all earlier results must be unchanged; then the caller
// scribbles over the first result (to its capacity) and later results must be what they are
// from a fresh library.
func c12Sizes(c *work.Ctx) {
	var counts []int
	for _, kib := range []int{1, 2, 4, 8, 16, 32, 48, 56, 60, 64, 72, 96, 128, 256, 512} {
		for _, d := range []int{-64, -1, 0, 1, 64} {
			n := (kib*1024 + d) / 7 // elements of 6 digits and a comma
			if n > 0 {
				counts = append(counts, n)
			}
		}
	}
	if !c.Quick() {
		for n := 8000; n <= 11000; n += 50 {
			counts = append(counts, n)
		}
	}
	entries := []struct {
		name string
		run  func(x interface{}) ([]byte, error)
	}{
		{"Marshal", func(x interface{}) ([]byte, error) { return json.Marshal(x) }},
		{"MarshalIndent", func(x interface{}) ([]byte, error) { return json.MarshalIndent(x, "", "") }},
		{"MarshalNoEscape", func(x interface{}) ([]byte, error) { return json.MarshalNoEscape(x) }},
		{"MarshalContext", func(x interface{}) ([]byte, error) { return json.MarshalContext(context.Background(), x) }},
		{"MarshalWithOption(UnorderedMap)", func(x interface{}) ([]byte, error) { return json.MarshalWithOption(x, json.UnorderedMap()) }},
	}
	mk := func(n int) []int {
		d := make([]int, n)
		for i := range d {
			d[i] = 100000 + i%900000
		}
		return d
	}
	for _, n := range counts {
		for _, e := range entries {
			id := fmt.Sprintf("sizes: %s of %d six-digit elements", e.name, n)
			if !c.BeginS(id) {
				continue
			}
			c11Reset()
			c11SetPool(nil)
			doc := mk(n)
			type kept struct {
				b    []byte
				snap string
				what string
			}
			var outs []kept
			bad := ""
			keep := func(what string, b []byte, err error) {
				if err != nil {
					bad = what + ": " + err.Error()
					return
				}
				outs = append(outs, kept{b, string(b), what})
				for _, o := range outs {
					if string(o.b) != o.snap {
						bad = fmt.Sprintf("the result of [%s] changed during [%s]", o.what, what)
					}
				}
			}
			p, msg := util.Safe(func() {
				b, err := e.run(doc)
				keep("the document", b, err)
				b, err = e.run("aaaaaaaa")
				keep("a small value", b, err)
				b, err = e.run(map[string]string{"k": "bbbbbbbb"})
				keep("a small map", b, err)
				b, err = e.run(doc)
				keep("the document again", b, err)
				b, err = e.run(mk(n + n/3 + 5))
				keep("a larger document", b, err)
				if bad != "" {
					return
				}
				// the caller scribbles over everything it was given, to capacity
				for _, o := range outs {
					full := o.b[:cap(o.b)]
					for i := range full {
						full[i] = 0xEE
					}
				}
				b, err = e.run("cccccccc")
				if err != nil || string(b) != `"cccccccc"` {
					bad = fmt.Sprintf("after the caller overwrote the slices it was given, a small value encodes as %q (err %v)", clip(b), err)
				}
				want, _ := stdjson.Marshal(doc)
				b, err = e.run(doc)
				if err != nil || !bytes.Equal(bytes.ReplaceAll(b, []byte("\n"), nil), want) {
					bad = fmt.Sprintf("after the caller overwrote the slices it was given, the document encodes differently (err %v, begins %q)", err, clip(b))
				}
			})
			c.Outcome(fmt.Sprint(p, bad != ""))
			sz := "below 56 KiB"
			switch est := n * 7; {
			case est >= 72*1024:
				sz = "from 72 KiB"
			case est >= 56*1024:
				sz = "56..72 KiB"
			}
			switch {
			case p:
				c.Violation(fmt.Sprintf("output sizes : %s : panic", e.name), id, msg)
			case bad != "":
				c.Violation(fmt.Sprintf("output sizes : %s : %s : returned slice is not exclusively the caller's", e.name, sz), id, bad)
			}
			if c.WantSample() {
				c.Sample(id)
			}
			c.EndCase()
		}
	}
}
