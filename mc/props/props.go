// Package props links every property harness into the worker.
package props
