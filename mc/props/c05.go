package props

import (
	"bytes"
	stdjson "encoding/json"
	"fmt"
	"io"
	"reflect"
	"regexp"

	json "github.com/goccy/go-json"

	"verif/mc/oracle"
	"verif/mc/props/util"
	"verif/mc/universe"
	"verif/mc/work"
)

// C05 — decoding accepts exactly the RFC 8259 language.

func init() {
	work.Register("C05", "c05.bytes", c05Bytes)
	work.Register("C05", "c05.tokens", c05Tokens)
	work.Register("C05", "c05.edits", c05Edits)
	work.Register("C05", "c05.bytes256", c05Bytes256)
	work.Register("C05", "c05.strings", c05Strings)
	work.Register("C05", "c05.numbers", c05Numbers)
}

// ---- channels -------------------------------------------------------------

func c05StdClass(b []byte) string {
	var x interface{}
	if err := stdjson.Unmarshal(b, &x); err != nil {
		return c05FoldBytes(util.StdErrClass(err.Error()))
	}
	return "std-accepts"
}

// verdictSeq runs Decode until the first error/EOF and returns the verdicts.
func verdictSeqStd(b []byte, max int) string {
	d := stdjson.NewDecoder(bytes.NewReader(b))
	var out []byte
	for i := 0; i < max; i++ {
		var v interface{}
		err := d.Decode(&v)
		if err == nil {
			out = append(out, 'v')
			continue
		}
		if err == io.EOF {
			out = append(out, 'E')
		} else {
			out = append(out, 'x')
		}
		break
	}
	return string(out)
}

func verdictSeqGo(b []byte, max int) string {
	d := json.NewDecoder(bytes.NewReader(b))
	var out []byte
	for i := 0; i < max; i++ {
		var v interface{}
		err := d.Decode(&v)
		if err == nil {
			out = append(out, 'v')
			continue
		}
		if err == io.EOF {
			out = append(out, 'E')
		} else {
			out = append(out, 'x')
		}
		break
	}
	return string(out)
}

// c05Core checks the three interface{} channels on one byte string.
func c05Core(c *work.Ctx, b []byte, stream bool) {
	ref := oracle.Valid(b)
	std := stdjson.Valid(b)
	c.RefCheck(1)
	if ref != std {
		c.HarnessError(fmt.Sprintf("reference recogniser disagrees with encoding/json.Valid on %q: ref=%v std=%v", b, ref, std))
		return
	}
	in := append([]byte(nil), b...)
	var uerr error
	var gv bool
	var v interface{}
	uwant := ref
	if ref {
		// a valid text may still be refused for a value out of range (1e999):
		// encoding/json.Unmarshal is the standard for the Unmarshal verdict
		var x interface{}
		uwant = stdjson.Unmarshal(b, &x) == nil
	}
	if p, msg := util.Safe(func() { uerr = json.Unmarshal(in, &v) }); p {
		c.Violation("panic:Unmarshal:"+util.ErrClass(msg), string(b), "panic: "+msg)
		uerr = fmt.Errorf("panic")
	}
	if p, msg := util.Safe(func() { gv = json.Valid(in) }); p {
		c.Violation("panic:Valid:"+util.ErrClass(msg), string(b), "panic: "+msg)
		gv = ref
	}
	oc := 0
	if uerr == nil {
		oc |= 1
	}
	if gv {
		oc |= 2
	}
	if (uerr == nil) != uwant {
		c05Report(c, "Unmarshal", b, uwant, uerr)
	}
	if gv != ref {
		c05Report(c, "Valid", b, ref, nil)
	}
	if stream {
		// whole-input judgement: "one value, then EOF" must hold exactly for valid texts
		// (streams of several values are C09's subject)
		var goSeq string
		panicked := false
		if p, msg := util.Safe(func() { goSeq = verdictSeqGo(in, 3) }); p {
			c.Violation("panic:Decoder:"+util.ErrClass(msg), string(b), "panic: "+msg)
			panicked = true
		}
		if !panicked {
			one := goSeq == "vE"
			if one && !ref {
				c.Violation("stream accepts-invalid :: "+c05StdClass(b), string(b),
					fmt.Sprintf("Decoder: Decode succeeds and the next Decode reports EOF on %q; encoding/json: %s", b, c05StdClass(b)))
			} else if !one && uwant {
				c.Violation("stream rejects-valid :: verdicts "+goSeq, string(b),
					fmt.Sprintf("Decoder verdict sequence %q (v=value x=error E=EOF) on the valid text %q", goSeq, b))
			}
		}
		c.Outcome(fmt.Sprintf("%d/%s", oc, goSeq))
	} else {
		c.Outcome(fmt.Sprintf("%d", oc))
	}
	if c.WantSample() {
		c.Sample(fmt.Sprintf("%q valid=%v", b, ref))
	}
}

// c05Shape shortens a verdict sequence: runs of v are capped at 3.
func c05Shape(s string) string {
	n := 0
	for n < len(s) && s[n] == 'v' {
		n++
	}
	if n > 3 {
		return "vvv+" + s[n:]
	}
	return s
}

func c05Report(c *work.Ctx, ch string, b []byte, valid bool, err error) {
	if valid {
		msg := "false"
		if err != nil {
			msg = util.ErrClass(err.Error())
		}
		c.Violation(ch+" rejects-valid :: "+msg, string(b), fmt.Sprintf("%s rejects %q which is valid JSON (%v)", ch, b, err))
		return
	}
	c.Violation(ch+" accepts-invalid :: "+c05StdClass(b), string(b), fmt.Sprintf("%s accepts %q; encoding/json: %s", ch, b, c05StdClass(b)))
}

// ---- (a) all byte strings over Sigma -------------------------------------

func c05Bytes(c *work.Ctx) {
	max := 5
	if !c.Quick() {
		max = 6
	}
	c.SelfSharded = true
	util.ForEachString(util.Sigma, max, c.Shard, c.NShards, func(b []byte) bool {
		if c.Begin(b) {
			c05Core(c, b, len(b) <= max-1 || c.Quick())
			c.EndCase()
		}
		return true
	})
}

// ---- typed destinations ----------------------------------------------------

type c05U struct{ B []byte }

func (u *c05U) UnmarshalJSON(b []byte) error { u.B = append([]byte(nil), b...); return nil }

type c05T struct{ S string }

func (t *c05T) UnmarshalText(b []byte) error { t.S = string(b); return nil }

var c05Dests = []struct {
	name string
	mk   func() interface{}
}{
	{"struct{A int}", func() interface{} { return new(struct{ A int }) }},
	{"struct{}", func() interface{} { return new(struct{}) }},
	{"[1]int", func() interface{} { return new([1]int) }},
	{"[0]int", func() interface{} { return new([0]int) }},
	{"struct{A RawMessage}", func() interface{} { return new(struct{ A json.RawMessage }) }},
	{"struct{A Unmarshaler}", func() interface{} { return new(struct{ A c05U }) }},
	{"struct{A TextUnmarshaler}", func() interface{} { return new(struct{ A c05T }) }},
	{"map[string]RawMessage", func() interface{} { return new(map[string]json.RawMessage) }},
	{"[]int", func() interface{} { return new([]int) }},
	{"map[string]int", func() interface{} { return new(map[string]int) }},
	{"*string", func() interface{} { return new(*string) }},
	{"[]interface{}", func() interface{} { return new([]interface{}) }},
	{"struct{A []struct{B bool}}", func() interface{} { return new(struct{ A []struct{ B bool } }) }},
	{"RawMessage", func() interface{} { return new(json.RawMessage) }},
	{"Unmarshaler", func() interface{} { return new(c05U) }},
	{"float64", func() interface{} { return new(float64) }},
	{"Number", func() interface{} { return new(json.Number) }},
}

// c05Typed: success into any destination implies the text is valid JSON.
func c05Typed(c *work.Ctx, b []byte) {
	ref := oracle.Valid(b)
	c.RefCheck(1)
	if std := stdjson.Valid(b); std != ref {
		c.HarnessError(fmt.Sprintf("reference recogniser disagrees with encoding/json.Valid on %q", b))
		return
	}
	if ref {
		c.Count("typed_valid_inputs", 1)
	}
	for _, d := range c05Dests {
		dst := d.mk()
		in := append([]byte(nil), b...)
		var err error
		if p, msg := util.Safe(func() { err = json.Unmarshal(in, dst) }); p {
			c.Violation("panic:typed:"+d.name+":"+util.ErrClass(msg), string(b), "panic: "+msg)
			continue
		}
		if err == nil && !ref {
			if oracle.SkipsAt(reflect.TypeOf(dst).Elem(), oracle.PathAt(b, oracle.SyntaxOffset(b))) {
				c.Violation("typed:"+d.name+" accepts-invalid inside a skipped or delegated value", string(b),
					fmt.Sprintf("Unmarshal into %s accepts %q; encoding/json: %s (the first syntax error lies in a value this destination skips or hands to an Unmarshaler)", d.name, b, c05StdClass(b)))
			} else {
				c.Violation("typed:"+d.name+" accepts-invalid :: "+c05StdClass(b), string(b),
					fmt.Sprintf("Unmarshal into %s accepts %q; encoding/json: %s", d.name, b, c05StdClass(b)))
			}
		}
		if err == nil {
			c.Outcome(d.name + "+")
		} else {
			c.Outcome(d.name + "-")
		}
	}
	// first-win option on the struct destination
	{
		dst := new(struct{ A int })
		in := append([]byte(nil), b...)
		var err error
		if p, msg := util.Safe(func() { err = json.UnmarshalWithOption(in, dst, json.DecodeFieldPriorityFirstWin()) }); p {
			c.Violation("panic:typed:firstwin:"+util.ErrClass(msg), string(b), "panic: "+msg)
		} else if err == nil && !ref {
			if oracle.SkipsAt(reflect.TypeOf(dst).Elem(), oracle.PathAt(b, oracle.SyntaxOffset(b))) {
				c.Violation("typed:firstwin struct{A int} accepts-invalid inside a skipped or delegated value", string(b),
					fmt.Sprintf("UnmarshalWithOption(first-win) into struct{A int} accepts %q; encoding/json: %s", b, c05StdClass(b)))
			} else {
				c.Violation("typed:firstwin struct{A int} accepts-invalid :: "+c05StdClass(b), string(b),
					fmt.Sprintf("UnmarshalWithOption(first-win) into struct{A int} accepts %q; encoding/json: %s", b, c05StdClass(b)))
			}
		}
	}
}

// ---- (b) token strings ------------------------------------------------------

// C05Tokens: well-formed tokens plus malformed atoms, so that short token
// strings reach the skipping and delegating paths with bad content.
var C05Tokens = []string{
	"[", "]", "{", "}", ",", ":", `"a"`, `"b"`, "1", "-0.5e1", "true", "null", " ",
	"01", "1.", "-", ".5", "1e", "tru", "nulL", `"\x"`, `"\u12"`, "\"\n\"", `"`, "\x00",
}

func c05Tokens(c *work.Ctx) {
	max := 5
	if !c.Quick() {
		max = 6
	}
	n := len(C05Tokens)
	idx := make([]int, max)
	var buf []byte
	c.SelfSharded = true
	for l := 1; l <= max; l++ {
		for i := range idx[:l] {
			idx[i] = 0
		}
		var ord int64
		for {
			if int(ord%int64(c.NShards)) == c.Shard {
				buf = buf[:0]
				for _, k := range idx[:l] {
					buf = append(buf, C05Tokens[k]...)
				}
				if c.Begin(buf) {
					c05Typed(c, buf)
					if l <= max-1 {
						c05Core(c, buf, true)
					}
					c.EndCase()
				}
			}
			ord++
			// increment
			k := l - 1
			for k >= 0 {
				idx[k]++
				if idx[k] < n {
					break
				}
				idx[k] = 0
				k--
			}
			if k < 0 {
				break
			}
		}
		if c.TimeUp() {
			c.NotExhaustive(fmt.Sprintf("c05.tokens: deadline reached after length %d", l))
			return
		}
	}
}

// ---- (c) single-byte edits of grammar texts --------------------------------

func c05Edits(c *work.Ctx) {
	depth := 2
	if !c.Quick() {
		depth = 3
	}
	docs := universe.Docs(depth)
	// whitespace variants of the depth-1 documents
	for _, d := range universe.Docs(1) {
		t := universe.Tokens(d)
		for k := 0; k <= len(t); k++ {
			docs = append(docs, universe.WithSpace(t, k, " "))
		}
		docs = append(docs, universe.WithSpace(t, len(t)/2, "\n\t\r "))
	}
	var buf []byte
	run := func(b []byte) {
		if c.Begin(b) {
			c05Typed(c, b)
			c05Core(c, b, true)
			c.EndCase()
		}
	}
	for _, d := range docs {
		src := []byte(d)
		run(src)
		for pos := 0; pos <= len(src); pos++ {
			if pos < len(src) {
				// deletion
				buf = append(append(buf[:0], src[:pos]...), src[pos+1:]...)
				run(buf)
				// substitution
				for _, s := range util.Sigma {
					if s == src[pos] {
						continue
					}
					buf = append(buf[:0], src...)
					buf[pos] = s
					run(buf)
				}
			}
			// insertion
			for _, s := range util.Sigma {
				buf = append(append(append(buf[:0], src[:pos]...), s), src[pos:]...)
				run(buf)
			}
		}
	}
}

var _ = reflect.TypeOf

// c05FoldBytes: bytes outside the 27-symbol alphabet (they occur in c05.bytes256 only) are folded
// into three classes, so that one cause does not get a class per byte value: the control
// characters encoding/json spells \a \b \f \v and DEL, and the punctuation that has no role in JSON.
var reFoldQuoted = regexp.MustCompile(`'(\\[abfv]|\x7f|[!#$%&()*;<=>?@^_` + "`" + `|~])'`)

func c05FoldBytes(cls string) string {
	return reFoldQuoted.ReplaceAllStringFunc(cls, func(m string) string {
		if m == "'\x7f'" {
			return "'DEL'"
		}
		return "'P'"
	})
}

// c05Bytes256: the byte alphabet of the other enumerations has 27 symbols; here every one of the
// 256 byte values is inserted at, and substituted for, every position of the depth-1 grammar
// texts and of a few texts with white space, strings, numbers and nesting (a table-driven
// scanner has one entry per byte value, and each entry is a decision).
func c05Bytes256(c *work.Ctx) {
	docs := universe.Docs(1)
	docs = append(docs, ` [ 1 , 2 ] `, `{"a" : 1 , "b":[true,null]}`, `"str"`, `-1.5e+3`, `[{"k":"v"},[]]`, "\n{\n\"a\"\n:\n1\n}\n", `[1,"a",false]`, `{"a":{"b":[1]}}`)
	if !c.Quick() {
		docs = append(docs, universe.Docs(2)...)
	}
	var buf []byte
	run := func(b []byte) {
		if c.Begin(b) {
			c05Typed(c, b)
			c05Core(c, b, true)
			c.EndCase()
		}
	}
	for _, d := range docs {
		src := []byte(d)
		for pos := 0; pos <= len(src); pos++ {
			for v := 0; v < 256; v++ {
				buf = append(append(append(buf[:0], src[:pos]...), byte(v)), src[pos:]...)
				run(buf)
				if pos < len(src) && byte(v) != src[pos] {
					buf = append(buf[:0], src...)
					buf[pos] = byte(v)
					run(buf)
				}
			}
		}
	}
}

// ---- (d) string-literal and number-literal alphabets ------------------------

// all texts `"`+w with w over the escape-relevant alphabet: every escape
// introducer, hex and non-hex letters, quote, control byte, a high byte.
var c05StrAlpha = []byte("\\u0aAg\"/\n\xc3")

func c05Strings(c *work.Ctx) {
	max := 6
	if !c.Quick() {
		max = 8
	}
	c.SelfSharded = true
	var buf []byte
	util.ForEachString(c05StrAlpha, max, c.Shard, c.NShards, func(w []byte) bool {
		buf = append(append(buf[:0], '"'), w...)
		if c.Begin(buf) {
			c05Core(c, buf, true)
			c.EndCase()
		}
		// the same literal as an object key and as an array element
		if len(w) <= max-1 {
			buf = append(append(append(buf[:0], `{"`...), w...), `:0}`...)
			if c.Begin(buf) {
				c05Core(c, buf, false)
				c.EndCase()
			}
		}
		return true
	})
}

var c05NumAlpha = []byte("019-+.eE")

func c05Numbers(c *work.Ctx) {
	max := 6
	if !c.Quick() {
		max = 8
	}
	c.SelfSharded = true
	var buf []byte
	util.ForEachString(c05NumAlpha, max, c.Shard, c.NShards, func(w []byte) bool {
		if c.Begin(w) {
			c05Core(c, w, true)
			c.EndCase()
		}
		buf = append(append(append(buf[:0], '['), w...), ']')
		if c.Begin(buf) {
			c05Core(c, buf, false)
			c05Typed(c, buf)
			c.EndCase()
		}
		buf = append(append(append(buf[:0], `{"a":`...), w...), '}')
		if c.Begin(buf) {
			c05Typed(c, buf)
			c.EndCase()
		}
		return true
	})
}
