package props

import (
	"bytes"
	"context"
	"fmt"
	"reflect"
	"strings"

	json "github.com/goccy/go-json"
)

// Call alphabet of C10 (shared by the scheduler harness and the free-running
// race-detector pass).

type c10T struct {
	A int               `json:"a"`
	B string            `json:"b,omitempty"`
	C []int             `json:"c"`
	D map[string]string `json:"d"`
	E *c10U             `json:"e"`
}
type c10U struct {
	X float64     `json:"x"`
	Y interface{} `json:"y"`
}

type c10Undec struct {
	A    int      `json:"a"`
	B    string   `json:"b"`
	Done chan int `json:"done"`
}

// c10ErrText renders an error with the fields a caller inspects.
func c10ErrText(err error) string {
	switch e := err.(type) {
	case nil:
		return "no error"
	case *json.UnmarshalTypeError:
		return fmt.Sprintf("UnmarshalTypeError value=%s type=%v offset=%d struct=%s field=%s : %v", e.Value, e.Type, e.Offset, e.Struct, e.Field, err)
	case *json.SyntaxError:
		return fmt.Sprintf("SyntaxError offset=%d : %v", e.Offset, err)
	}
	return fmt.Sprintf("%T : %v", err, err)
}

// yieldWriter hands control to the scheduler before it consumes the bytes, as
// a pipe or a contended writer would.
type yieldWriter struct {
	y   func(string)
	buf bytes.Buffer
}

func (w *yieldWriter) Write(p []byte) (int, error) {
	if w.y != nil {
		w.y("Writer.Write")
	}
	return w.buf.Write(p)
}

// c10Ctx records what the context handed to its context-aware UnmarshalJSON carries.
type c10Ctx struct{ Seen string }
type c10Key struct{}

func (c *c10Ctx) UnmarshalJSON(ctx context.Context, b []byte) error {
	c.Seen = "no value"
	if ctx == nil {
		c.Seen = "nil context"
	} else if v, ok := ctx.Value(c10Key{}).(string); ok {
		c.Seen = "value " + v
	}
	c.Seen += " " + string(b)
	return nil
}

type yieldReader struct {
	y func(string)
	r *strings.Reader
}

func (r *yieldReader) Read(p []byte) (int, error) {
	if r.y != nil {
		r.y("Reader.Read")
	}
	return r.r.Read(p)
}

// c10Shared is the state a scenario's calls may share; fresh per execution.
type c10Shared struct {
	query  *json.FieldQuery
	query2 *json.FieldQuery
	path   *json.Path
}

type c10Call struct {
	name string
	run  func(y func(string), sh *c10Shared) string
}

func res(b []byte, err error) string {
	if err != nil {
		return "error: " + err.Error()
	}
	return string(b)
}

func c10Calls() []c10Call {
	valT := c10T{A: 1, B: "b", C: []int{1, 2}, D: map[string]string{"k": "v", "j": "w"}, E: &c10U{X: 1.5, Y: []interface{}{1, "s"}}}
	valU := c10U{X: 2, Y: map[string]interface{}{"q": valT}}
	rt := reflect.StructOf([]reflect.StructField{{Name: "R", Type: reflect.TypeOf(0), Tag: `json:"r"`}, {Name: "S", Type: reflect.TypeOf([]string(nil)), Tag: `json:"s"`}})
	rv := reflect.New(rt).Elem()
	rv.Field(0).SetInt(7)
	rv.Field(1).Set(reflect.ValueOf([]string{"x"}))
	docT := `{"a":5,"b":"x","c":[3],"d":{"k":"v"},"e":{"x":2,"y":null}}`
	pathDocA := `{"a":{"b":[1,2]},"c":{"b":3}}`
	pathDocB := `{"a":{"b":7}}`
	return []c10Call{
		{"Marshal(T)", func(y func(string), sh *c10Shared) string { return res(json.Marshal(valT)) }},
		{"Marshal(U)", func(y func(string), sh *c10Shared) string { return res(json.Marshal(valU)) }},
		{"Marshal(reflect type)", func(y func(string), sh *c10Shared) string { return res(json.Marshal(rv.Interface())) }},
		{"MarshalIndent(T)", func(y func(string), sh *c10Shared) string { return res(json.MarshalIndent(&valT, "", " ")) }},
		{"MarshalContext(T, shared query)", func(y func(string), sh *c10Shared) string {
			return res(json.MarshalContext(json.SetFieldQueryToContext(context.Background(), sh.query), valT))
		}},
		{"MarshalContext(T, second shared query)", func(y func(string), sh *c10Shared) string {
			return res(json.MarshalContext(json.SetFieldQueryToContext(context.Background(), sh.query2), valT))
		}},
		{"Unmarshal(->T)", func(y func(string), sh *c10Shared) string {
			var v c10T
			err := json.Unmarshal([]byte(docT), &v)
			e := v.E
			v.E = nil
			return fmt.Sprintf("%+v %+v %v", v, e, err)
		}},
		{"Unmarshal(->U)", func(y func(string), sh *c10Shared) string {
			var v c10U
			err := json.Unmarshal([]byte(`{"x":3,"y":{"z":[1]}}`), &v)
			return fmt.Sprintf("%+v %v", v, err)
		}},
		{"Unmarshal(->reflect type)", func(y func(string), sh *c10Shared) string {
			p := reflect.New(rt)
			err := json.Unmarshal([]byte(`{"r":9,"s":["a","b"]}`), p.Interface())
			return fmt.Sprintf("%+v %v", p.Elem().Interface(), err)
		}},
		{"Unmarshal(->[]int)", func(y func(string), sh *c10Shared) string {
			var v []int
			err := json.Unmarshal([]byte(`[1,2,3]`), &v)
			return fmt.Sprintf("%v %v", v, err)
		}},
		{"Unmarshal(->[][]int) A", func(y func(string), sh *c10Shared) string {
			var v [][]int
			err := json.Unmarshal([]byte(`[[1,2],[3],[4,5,6]]`), &v)
			return fmt.Sprintf("%v %v", v, err)
		}},
		{"Unmarshal(->[][]int) B", func(y func(string), sh *c10Shared) string {
			var v [][]int
			err := json.Unmarshal([]byte(`[[7],[8,9]]`), &v)
			return fmt.Sprintf("%v %v", v, err)
		}},
		// failing calls on a type with a member no document can fill: the error value (its offset and field) belongs
		// to the failing call alone, although the decoder that produces it is cached and shared
		{"Unmarshal(->struct with a chan member) A", func(y func(string), sh *c10Shared) string {
			var v c10Undec
			return c10ErrText(json.Unmarshal([]byte(`{"a":1,"done":1}`), &v))
		}},
		{"Unmarshal(->struct with a chan member) B", func(y func(string), sh *c10Shared) string {
			var v c10Undec
			return c10ErrText(json.Unmarshal([]byte(`{"a":1,        "b":"xyz",   "done":2}`), &v))
		}},
		{"Valid+Compact+Indent", func(y func(string), sh *c10Shared) string {
			var b1, b2 bytes.Buffer
			e1 := json.Compact(&b1, []byte(` { "a" : [ 1 , 2 ] } `))
			e2 := json.Indent(&b2, []byte(`{"a":[1,2]}`), "", " ")
			return fmt.Sprintf("%v %s %v %s %v", json.Valid([]byte(docT)), b1.String(), e1, b2.String(), e2)
		}},
		{"Encoder.Encode(T) to a slow writer", func(y func(string), sh *c10Shared) string {
			w := &yieldWriter{y: y}
			err := json.NewEncoder(w).Encode(valT)
			return fmt.Sprintf("%s %v", w.buf.String(), err)
		}},
		{"Encoder.Encode(U) to a slow writer", func(y func(string), sh *c10Shared) string {
			w := &yieldWriter{y: y}
			err := json.NewEncoder(w).Encode(valU)
			return fmt.Sprintf("%s %v", w.buf.String(), err)
		}},
		{"Decoder.Decode(->T) from a slow reader", func(y func(string), sh *c10Shared) string {
			var v c10T
			err := json.NewDecoder(&yieldReader{y: y, r: strings.NewReader(docT)}).Decode(&v)
			e := v.E
			v.E = nil
			return fmt.Sprintf("%+v %+v %v", v, e, err)
		}},
		// distinct Decoders are independent: the context given to one is the context of that one only
		{"Decoder.DecodeContext(->context-aware unmarshaler, context A)", func(y func(string), sh *c10Shared) string {
			var v struct{ A c10Ctx }
			err := json.NewDecoder(&yieldReader{y: y, r: strings.NewReader(`{"A":1}`)}).DecodeContext(context.WithValue(context.Background(), c10Key{}, "A"), &v)
			return fmt.Sprintf("%+v %v", v, err)
		}},
		{"Decoder.DecodeContext(->context-aware unmarshaler, context B)", func(y func(string), sh *c10Shared) string {
			var v struct{ A c10Ctx }
			err := json.NewDecoder(&yieldReader{y: y, r: strings.NewReader(`{"A":2}`)}).DecodeContext(context.WithValue(context.Background(), c10Key{}, "B"), &v)
			return fmt.Sprintf("%+v %v", v, err)
		}},
		{"Decoder.Decode(->context-aware unmarshaler)", func(y func(string), sh *c10Shared) string {
			var v struct{ A c10Ctx }
			err := json.NewDecoder(&yieldReader{y: y, r: strings.NewReader(`{"A":3}`)}).Decode(&v)
			return fmt.Sprintf("%+v %v", v, err)
		}},
		{"Path.Extract(docA) on the shared Path", func(y func(string), sh *c10Shared) string {
			r, err := sh.path.Extract([]byte(pathDocA))
			return fmt.Sprintf("%q %v", r, err)
		}},
		{"Path.Extract(docB) on the shared Path", func(y func(string), sh *c10Shared) string {
			r, err := sh.path.Extract([]byte(pathDocB))
			return fmt.Sprintf("%q %v", r, err)
		}},
	}
}

func c10Fresh() *c10Shared {
	q, _ := json.BuildFieldQuery("a", json.BuildSubFieldQuery("e").Fields("x"))
	p, _ := json.CreatePath("$.a.b")
	q2, _ := json.BuildFieldQuery("b", "c", json.BuildSubFieldQuery("e").Fields("y"))
	return &c10Shared{query: q, query2: q2, path: p}
}

// c10Prologue: calls that fail half-way, run sequentially before the goroutines start. Their
// error paths are where pooled objects are most easily released twice or in a half-used state.
func c10Prologue() {
	cyc := &c10T{A: 1}
	cyc.E = &c10U{Y: cyc}
	for _, f := range []func(){
		func() { var v []int; _ = json.NewDecoder(strings.NewReader(`[1`)).Decode(&v) },
		func() { var v []int; _ = json.NewDecoder(strings.NewReader(`[1,`)).Decode(&v) },
		func() { var v [][]int; _ = json.NewDecoder(strings.NewReader(`[[1]`)).Decode(&v) },
		func() { var v [][]int; _ = json.NewDecoder(strings.NewReader(`[[1],[2`)).Decode(&v) },
		func() { var v [][]int; _ = json.Unmarshal([]byte(`[[1],[2,`), &v) },
		func() { var v c10T; _ = json.NewDecoder(strings.NewReader(`{"c":[3`)).Decode(&v) },
		func() { var v c10T; _ = json.NewDecoder(strings.NewReader(`{"d":{"k":"v"`)).Decode(&v) },
		func() { var v []int; _ = json.Unmarshal([]byte(`[1,2`), &v) },
		func() { var v c10T; _ = json.Unmarshal([]byte(`{"c":[3,x]}`), &v) },
		func() { var v c10U; _ = json.Unmarshal([]byte(`{"y":{"z":[1,}}`), &v) },
		func() { _, _ = json.Marshal(cyc) },
		func() { _, _ = json.MarshalIndent(cyc, "", " ") },
		func() { _ = json.NewEncoder(failWriter{}).Encode(c10U{X: 1}) },
		func() { var b bytes.Buffer; _ = json.Compact(&b, []byte(`{"a":[1,}`)) },
		func() { p, _ := json.CreatePath("$.a.b"); _, _ = p.Extract([]byte(`{"a":{"b":[1,2`)) },
		func() {
			p, _ := json.CreatePath("$.a[1]")
			var v interface{}
			_ = p.Unmarshal([]byte(`{"a":[1,{"x":tru}]}`), &v)
		},
		func() { _, _ = json.MarshalContext(context.Background(), cyc) },
		func() { _, _ = json.MarshalNoEscape(map[string]interface{}{"c": make(chan int)}) },
	} {
		func() {
			defer func() { _ = recover() }()
			f()
		}()
	}
}

type failWriter struct{}

func (failWriter) Write(p []byte) (int, error) { return 0, fmt.Errorf("write failed") }
