package props

import (
	"bytes"
	"encoding/base64"
	"fmt"
	"strings"

	stdjson "encoding/json"

	json "github.com/goccy/go-json"

	"verif/mc/props/util"
	"verif/mc/work"
)

// c02.views / c07.views / c12.views — byte slices that share memory.
//
// A []byte destination may already hold a slice, and other slices of the program may look at the same array. What a
// decode does to that array is part of "the destinations are deeply equal" (encoding/json stores a fresh array for a
// base64 string and decodes the array-of-numbers form into the existing one when it fits) and of "writes only inside
// the destination". Every scenario is run on two identical memory layouts, one through go-json and one through
// encoding/json; afterwards every member of the destination (they overlap, so a write through one shows in another)
// and every STRING and result kept from an earlier step is rendered on both sides and compared. Memory the
// destination no longer refers to is not compared (the two libraries may leave different garbage there).
//   A  struct{Head, Body []byte} over one 12-byte array <- base64 strings and number arrays of 0..14 bytes, null
//   B  two decodes into one variable: base64 + a sibling string first, then the array form of 0..40 elements
//   C  one destination reused for three documents, every Data kept
//   D  [][]byte whose elements are windows of one array

func init() {
	work.Register("C02", "c02.views", c02Views)
	work.Register("C07", "c07.views", c02Views)
	work.Register("C12", "c12.views", c02Views)
}

type vwAB struct {
	Head, Body []byte
	S          string
	L          [][]byte
}

type vwLib struct {
	name      string
	unmarshal func(b []byte, v interface{}) error
	decoder   func(doc string) func(v interface{}) error
}

func vwLibs() []vwLib {
	return []vwLib{
		{"Unmarshal", func(b []byte, v interface{}) error { return json.Unmarshal(b, v) }, nil},
		{"Decoder", func(b []byte, v interface{}) error { return json.NewDecoder(bytes.NewReader(b)).Decode(v) }, nil},
	}
}

func c02Views(c *work.Ctx) {
	b64 := func(n int) string {
		return `"` + base64.StdEncoding.EncodeToString(bytes.Repeat([]byte("z"), n)) + `"`
	}
	arr := func(n int) string {
		var sb strings.Builder
		sb.WriteByte('[')
		for i := 0; i < n; i++ {
			if i > 0 {
				sb.WriteByte(',')
			}
			fmt.Fprint(&sb, 200+i%50)
		}
		sb.WriteByte(']')
		return sb.String()
	}
	type run struct {
		name string
		// do performs the scenario with the given decode function and returns the rendering of every view
		do func(dec func(doc string, v interface{}) error) string
	}
	var runs []run
	// A
	for n := 0; n <= 14; n++ {
		for _, form := range []string{"base64", "array", "null"} {
			if form == "null" && n > 0 {
				continue
			}
			if form == "array" && n > 10 {
				// an array that does not fit the member's capacity: encoding/json fills the old array before it
				// moves on to a larger one, which only memory the destination has given up can show
				continue
			}
			for _, member := range []string{"Head", "Body"} {
				n, form, member := n, form, member
				val := map[string]string{"base64": b64(n), "array": arr(n), "null": "null"}[form]
				runs = append(runs, run{fmt.Sprintf("A: %s <- %s of %d bytes, Head and Body over one array", member, form, n), func(dec func(string, interface{}) error) string {
					// the members overlap: what is written through one of them shows in the other
					backing := []byte("0123456789ab")
					v := vwAB{Head: backing[:4], Body: backing[2:]}
					err := dec(`{"`+member+`":`+val+`}`, &v)
					return fmt.Sprintf("Head=%q Body=%q err=%v", v.Head, v.Body, err != nil)
				}})
			}
		}
	}
	// B
	for k := 0; k <= 40; k += 1 {
		k := k
		runs = append(runs, run{fmt.Sprintf("B: base64 and a sibling string, then the array form of %d elements into the same variable", k), func(dec func(string, interface{}) error) string {
			var v vwAB
			e1 := dec(`{"Head":"aGVsbG8gd29ybGQ=","S":"a sibling string that is long enough to be found behind the bytes","Body":"QUJD"}`, &v)
			s1 := v.S
			e2 := dec(`{"Head":`+arr(k)+`}`, &v)
			return fmt.Sprintf("S=%q kept S=%q Head=%q Body=%q err=%v,%v", v.S, s1, v.Head, v.Body, e1 != nil, e2 != nil)
		}})
	}
	// C
	for _, docs := range [][]string{{"first record", "second", "3rd"}, {"a", "bb", "ccc", "dddd"}, {"0123456789012345678901234567890123456789", "x", ""}} {
		docs := docs
		runs = append(runs, run{fmt.Sprintf("C: one destination reused for %d documents, every Data kept", len(docs)), func(dec func(string, interface{}) error) string {
			var rec struct{ Data []byte }
			var kept [][]byte
			for _, d := range docs {
				_ = dec(`{"Data":"`+base64.StdEncoding.EncodeToString([]byte(d))+`"}`, &rec)
				kept = append(kept, rec.Data)
			}
			return fmt.Sprintf("%q", kept)
		}})
	}
	// D
	for n := 0; n <= 8; n++ {
		n := n
		runs = append(runs, run{fmt.Sprintf("D: [][]byte of windows of one array <- first element of %d bytes", n), func(dec func(string, interface{}) error) string {
			backing := []byte("ABCDEFGHIJKL")
			v := vwAB{L: [][]byte{backing[0:4], backing[4:8], backing[8:12]}, Body: backing[2:10]}
			err := dec(`{"L":[`+b64(n)+`,`+arr(2)+`]}`, &v)
			return fmt.Sprintf("L=%q Body=%q err=%v", v.L, v.Body, err != nil)
		}})
	}
	for _, r := range runs {
		if !c.BeginS(r.name) {
			continue
		}
		want := r.do(func(doc string, v interface{}) error { return stdjson.Unmarshal([]byte(doc), v) })
		for _, lib := range vwLibs() {
			var got string
			p, msg := util.Safe(func() {
				got = r.do(func(doc string, v interface{}) error { return lib.unmarshal([]byte(doc), v) })
			})
			c.Count("view_scenarios", 1)
			c.Outcome(got)
			switch {
			case p:
				c.Violation(fmt.Sprintf("shared byte arrays : %s : %s : panic", lib.name, strings.SplitN(r.name, ":", 2)[0]), r.name, msg)
			case got != want:
				c.Violation(fmt.Sprintf("shared byte arrays : %s : scenario %s : some view differs from encoding/json", lib.name, strings.SplitN(r.name, ":", 2)[0]), r.name,
					fmt.Sprintf("go-json: %s ; encoding/json: %s", clipS(got, 300), clipS(want, 300)))
			}
		}
		c.EndCase()
	}
}
