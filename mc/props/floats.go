package props

import (
	"bytes"
	stdjson "encoding/json"
	"fmt"
	"math"
	"math/big"
	"reflect"
	"strconv"
	"strings"

	json "github.com/goccy/go-json"

	"verif/mc/oracle"
	"verif/mc/props/util"
	"verif/mc/work"
)

// Floating-point text conversion: the part of C01 (Marshal agrees with
// encoding/json) and C02 (Unmarshal agrees with encoding/json) that the
// type/value grammar samples with a dozen values only. Both directions are
// enumerated here over families of values / literals chosen where conversion
// code takes decisions: format switch-over exponents, shortest-representation
// boundaries (neighbours of powers of two and ten), halfway cases, subnormals,
// the largest finite values, long mantissas, every short literal.

func init() {
	work.Register("C01", "c01.floats", c01Floats)
	work.Register("C02", "c02.floats", c02Floats)
}

// floatSeeds64: centres around which neighbours (±k ulp) are taken.
func floatSeeds64() []float64 {
	var out []float64
	add := func(f float64) { out = append(out, f, -f) }
	add(0)
	for e := -30; e <= 30; e++ {
		add(math.Pow(10, float64(e)))
	}
	for _, e := range []int{-324, -323, -310, -308, -307, -100, -45, -38, 38, 39, 100, 300, 307, 308} {
		add(math.Pow(10, float64(e)))
	}
	for e := -1074; e <= 1023; e += 53 {
		add(math.Ldexp(1, e))
	}
	for _, e := range []int{-1074, -1073, -1023, -1022, -1021, -150, -149, -127, -126, -53, -24, -1, 0, 1, 23, 24, 52, 53, 54, 63, 64, 127, 128, 1022, 1023} {
		add(math.Ldexp(1, e))
	}
	add(math.MaxFloat64)
	add(math.SmallestNonzeroFloat64)
	add(math.MaxFloat32)
	add(math.SmallestNonzeroFloat32)
	add(0.1)
	add(1.0 / 3)
	add(2.0 / 3)
	add(123456789.0)
	add(1234567890123456789.0)
	add(0.000001)
	add(0.0000001)
	add(1e21)
	add(1e20)
	add(999999999999999868928.0)
	add(5e-324)
	add(2.2250738585072014e-308)
	add(2.2250738585072009e-308)
	add(1.7976931348623157e308)
	add(9007199254740992)
	add(9007199254740993)
	add(4503599627370496.5)
	add(0.30000000000000004)
	add(100)
	add(1.5)
	add(16777216)
	add(16777217)
	return out
}

func c01Floats(c *work.Ctx) {
	width := 3
	if !c.Quick() {
		width = 40
	}
	type wrap struct {
		name string
		mk   func(f float64) interface{}
	}
	type s64 struct {
		F float64 `json:"f"`
	}
	type s64s struct {
		F float64 `json:"f,string"`
	}
	type s64o struct {
		F float64 `json:"f,omitempty"`
	}
	type s32 struct {
		F float32 `json:"f"`
	}
	type s32s struct {
		F float32 `json:"f,string"`
	}
	wraps := []wrap{
		{"float64", func(f float64) interface{} { return f }},
		{"*float64", func(f float64) interface{} { return &f }},
		{"[]float64", func(f float64) interface{} { return []float64{f, 1} }},
		{"[2]float64", func(f float64) interface{} { return [2]float64{1, f} }},
		{"map[string]float64", func(f float64) interface{} { return map[string]float64{"k": f} }},
		{"map[float64]int", func(f float64) interface{} { return map[float64]int{f: 1} }},
		{"struct{F float64}", func(f float64) interface{} { return s64{f} }},
		{"struct{F float64 ,string}", func(f float64) interface{} { return s64s{f} }},
		{"struct{F float64 ,omitempty}", func(f float64) interface{} { return s64o{f} }},
		{"interface{}(float64)", func(f float64) interface{} { return []interface{}{f} }},
		{"float32", func(f float64) interface{} { return float32(f) }},
		{"[]float32", func(f float64) interface{} { return []float32{float32(f)} }},
		{"struct{F float32}", func(f float64) interface{} { return s32{float32(f)} }},
		{"struct{F float32 ,string}", func(f float64) interface{} { return s32s{float32(f)} }},
		{"map[float32]int", func(f float64) interface{} { return map[float32]int{float32(f): 1} }},
		{"interface{}(float32)", func(f float64) interface{} { return map[string]interface{}{"k": float32(f)} }},
	}
	entries := []struct {
		name string
		goj  func(x interface{}) ([]byte, error)
		std  func(x interface{}) ([]byte, error)
	}{
		{"Marshal", func(x interface{}) ([]byte, error) { return json.Marshal(x) }, func(x interface{}) ([]byte, error) { return stdjson.Marshal(x) }},
		{"MarshalIndent", func(x interface{}) ([]byte, error) { return json.MarshalIndent(x, "", " ") }, func(x interface{}) ([]byte, error) { return stdjson.MarshalIndent(x, "", " ") }},
	}
	seen := map[uint64]bool{}
	var vals []float64
	push := func(f float64) {
		if math.IsNaN(f) || math.IsInf(f, 0) {
			return
		}
		b := math.Float64bits(f)
		if !seen[b] {
			seen[b] = true
			vals = append(vals, f)
		}
	}
	for _, s := range floatSeeds64() {
		push(s)
		up, dn := s, s
		for k := 0; k < width; k++ {
			up = math.Nextafter(up, math.Inf(1))
			dn = math.Nextafter(dn, math.Inf(-1))
			push(up)
			push(dn)
		}
		// the float32 neighbours as well (their float64 images)
		u32, d32 := float32(s), float32(s)
		for k := 0; k < width; k++ {
			u32 = math.Nextafter32(u32, float32(math.Inf(1)))
			d32 = math.Nextafter32(d32, float32(math.Inf(-1)))
			push(float64(u32))
			push(float64(d32))
		}
	}
	c.Count("float_values", int64(len(vals))/int64(c.NShards))
	for _, f := range vals {
		if !c.BeginS(fmt.Sprintf("encode float %s (bits %#x)", strconv.FormatFloat(f, 'g', -1, 64), math.Float64bits(f))) {
			continue
		}
		for _, w := range wraps {
			if strings.Contains(w.name, "32") && math.IsInf(float64(float32(f)), 0) {
				continue // beyond float32: the value would be an infinity (non-finite values belong to C03's space)
			}
			x := w.mk(f)
			for _, e := range entries {
				var got, want []byte
				var gerr, werr error
				p, msg := util.Safe(func() { got, gerr = e.goj(x) })
				want, werr = e.std(x)
				c.Outcome(fmt.Sprintf("%s/%v/%v", w.name, gerr != nil, werr != nil))
				region := floatRegion(f, strings.Contains(w.name, "32"))
				switch {
				case p:
					c.Violation(fmt.Sprintf("float encode : %s : %s : panic : %s", w.name, e.name, region), fmt.Sprintf("%s = %v", w.name, f), msg)
				case (gerr == nil) != (werr == nil):
					c.Violation(fmt.Sprintf("float encode : %s : %s : error-mismatch : %s", w.name, e.name, region), fmt.Sprintf("%s = %v", w.name, f), fmt.Sprintf("go-json err=%v, encoding/json err=%v", gerr, werr))
				case gerr == nil && !bytes.Equal(got, want) && oracle.TokensEqual(got, want) != "":
					// C01 tolerates another spelling of one token (1e-07 for 1e-7); the number's value must be the same
					c.Violation(fmt.Sprintf("float encode : %s : %s : %s : %s", w.name, e.name, oracle.TokensEqual(got, want), region), fmt.Sprintf("%s = %v", w.name, f), fmt.Sprintf("go-json %s, encoding/json %s", clip(got), clip(want)))
				}
			}
		}
		if c.WantSample() {
			c.Sample(fmt.Sprintf("float %v in %d positions x %d entry points", f, len(wraps), len(entries)))
		}
		c.EndCase()
	}
}

// floatRegion names the formatting regime of a value (encoding/json switches to exponent form below 1e-6 and from 1e21).
func floatRegion(f float64, is32 bool) string {
	a := math.Abs(f)
	if is32 {
		a = math.Abs(float64(float32(f)))
	}
	switch {
	case a == 0:
		if math.Signbit(f) {
			return "negative zero"
		}
		return "zero"
	case a < 1e-6:
		return "below 1e-6 (exponent form)"
	case a >= 1e21:
		return "from 1e21 (exponent form)"
	case a == math.Trunc(a):
		return "integral"
	}
	return "fraction"
}

// ---- decode -------------------------------------------------------------------------------------

func c02Floats(c *work.Ctx) {
	maxLen := 6
	if !c.Quick() {
		maxLen = 7
	}
	var lits []string
	seen := map[string]bool{}
	push := func(s string) {
		if !seen[s] && stdjson.Valid([]byte(s)) { // JSON number literals only (FormatFloat of an infinity is not one)
			seen[s] = true
			lits = append(lits, s)
		}
	}
	// (1) every valid number literal over a small alphabet up to maxLen
	alpha := []byte("-019.eE+")
	var gen func(cur []byte)
	gen = func(cur []byte) {
		if len(cur) > 0 && stdjson.Valid(cur) {
			push(string(cur))
		}
		if len(cur) == maxLen {
			return
		}
		for _, a := range alpha {
			gen(append(cur, a))
		}
	}
	gen(nil)
	// (2) shortest and exact decimal expansions of boundary values and their neighbours, halfway points
	width := 2
	if !c.Quick() {
		width = 12
	}
	for _, s := range floatSeeds64() {
		fs := []float64{s}
		up, dn := s, s
		for k := 0; k < width; k++ {
			up = math.Nextafter(up, math.Inf(1))
			dn = math.Nextafter(dn, math.Inf(-1))
			fs = append(fs, up, dn)
		}
		for _, f := range fs {
			if math.IsInf(f, 0) || math.IsNaN(f) {
				continue
			}
			push(strconv.FormatFloat(f, 'g', -1, 64))
			push(strconv.FormatFloat(f, 'e', -1, 64))
			push(strconv.FormatFloat(f, 'e', 20, 64))
			if a := math.Abs(f); a < 1e25 && a > 1e-25 || a == 0 {
				push(strconv.FormatFloat(f, 'f', -1, 64))
				push(strconv.FormatFloat(f, 'f', 30, 64))
			}
			push(strconv.FormatFloat(float64(float32(f)), 'g', -1, 32))
		}
	}
	// (3) long mantissas and exponents around the range limits
	for _, m := range []string{"1", "9", "17976931348623157", "17976931348623158", "17976931348623159", "22250738585072014", "22250738585072011", "4940656458412465", "2470328229206232", "2470328229206233", "24703282292062327208", "24703282292062328", "123456789012345678", "9007199254740993", "99999999999999999999", "100000000000000000001", "340282346638528859811704183484516925440", "340282356779733661637539395458142568447", "340282356779733661637539395458142568448", "1401298464324817", "7006492321624085"} {
		push(m)
		push("-" + m)
		push(m + ".0")
		push("0." + m)
		push("0.0000000000000000000000000" + m)
		for _, e := range []int{-400, -345, -343, -342, -341, -340, -326, -325, -324, -323, -322, -310, -308, -307, -60, -46, -45, -44, -39, -38, -37, -16, 0, 15, 16, 22, 23, 37, 38, 39, 291, 292, 293, 307, 308, 309, 310, 400} {
			push(fmt.Sprintf("%se%d", m, e))
			push(fmt.Sprintf("%c.%sE%+d", m[0], m[1:]+"0", e+len(m)-1))
		}
	}
	// (4) rounding midpoints: for every binade of float32 (and a sample of float64 binades), the exact decimal
	// expansion of the point half-way between two neighbouring values, and that expansion one unit of its last
	// digit up and down. A conversion that goes through a wider or narrower type first (float64 then float32, an
	// integer fast path) rounds twice and lands on the wrong neighbour exactly here. Integers are written plainly
	// (that is what a fast path looks at), fractions positionally or with an exponent.
	midpoints := func(mantBits, minExp, maxExp, step int) {
		one := big.NewInt(1)
		for e := minExp; e <= maxExp; e += step {
			for _, mant := range []int64{0, 1, 2, (1 << uint(mantBits)) - 2, (1 << uint(mantBits)) - 1, 0x2AAAAA & ((1 << uint(mantBits)) - 1)} {
				// value = (2^mantBits + mant + 1/2) * 2^(e-mantBits) = (2*(2^mantBits+mant)+1) * 2^(e-mantBits-1)
				num := new(big.Int).Add(new(big.Int).Lsh(big.NewInt((1<<uint(mantBits))+mant), 1), one)
				sh := e - mantBits - 1
				r := new(big.Rat)
				if sh >= 0 {
					r.SetInt(new(big.Int).Lsh(num, uint(sh)))
				} else {
					r.SetFrac(num, new(big.Int).Lsh(one, uint(-sh)))
				}
				var txt string
				if r.IsInt() {
					txt = r.Num().String()
				} else {
					txt = r.FloatString(-sh) // exact: the denominator is a power of two
				}
				if len(txt) > 120 {
					continue
				}
				digits := []byte(txt)
				for _, d := range []int{0, 1, -1} {
					t := append([]byte(nil), digits...)
					// perturb the last digit (with carry/borrow over the digits, the point is skipped)
					i := len(t) - 1
					for d != 0 && i >= 0 {
						if t[i] == '.' {
							i--
							continue
						}
						v := int(t[i]-'0') + d
						switch {
						case v > 9:
							t[i] = '0'
							i--
						case v < 0:
							t[i] = '9'
							i--
						default:
							t[i] = byte('0' + v)
							d = 0
						}
					}
					if d != 0 {
						continue
					}
					lit := strings.TrimLeft(string(t), "0")
					if lit == "" || lit[0] == '.' {
						lit = "0" + lit
					}
					push(lit)
					push("-" + lit)
				}
			}
		}
	}
	if c.Quick() {
		midpoints(23, -30, 127, 1)
		midpoints(52, -10, 1000, 97)
	} else {
		midpoints(23, -126, 127, 1)
		midpoints(52, -300, 1023, 13)
	}
	type s64 struct {
		F float64 `json:"f"`
	}
	type s64s struct {
		F float64 `json:"f,string"`
	}
	type s32 struct {
		F float32 `json:"f"`
	}
	type dest struct {
		name string
		t    reflect.Type
		doc  func(l string) string
		num  bool
	}
	dests := []dest{
		{"float64", reflect.TypeOf(float64(0)), func(l string) string { return l }, false},
		{"float32", reflect.TypeOf(float32(0)), func(l string) string { return l }, false},
		{"*float64", reflect.TypeOf((*float64)(nil)), func(l string) string { return " " + l + " " }, false},
		{"[]float64", reflect.TypeOf([]float64(nil)), func(l string) string { return "[" + l + "," + l + "]" }, false},
		{"[1]float32", reflect.TypeOf([1]float32{}), func(l string) string { return "[" + l + "]" }, false},
		{"struct{F float64}", reflect.TypeOf(s64{}), func(l string) string { return `{"f":` + l + `}` }, false},
		{"struct{F float64 ,string}", reflect.TypeOf(s64s{}), func(l string) string { return `{"f":"` + l + `"}` }, false},
		{"struct{F float32}", reflect.TypeOf(s32{}), func(l string) string { return `{"f":` + l + `}` }, false},
		{"map[string]float64", reflect.TypeOf(map[string]float64(nil)), func(l string) string { return `{"k":` + l + `}` }, false},
		{"interface{}", reflect.TypeOf((*interface{})(nil)).Elem(), func(l string) string { return l }, false},
		{"[]interface{}", reflect.TypeOf([]interface{}(nil)), func(l string) string { return "[" + l + "]" }, false},
		{"map[string]interface{}", reflect.TypeOf(map[string]interface{}(nil)), func(l string) string { return `{"k":` + l + `}` }, false},
		{"interface{}+UseNumber", reflect.TypeOf((*interface{})(nil)).Elem(), func(l string) string { return "[" + l + "]" }, true},
		{"Number", reflect.TypeOf(stdjson.Number("")), func(l string) string { return l }, false},
	}
	render := func(v reflect.Value, err error) string {
		if err != nil {
			return "error"
		}
		return floatCanon(v)
	}
	c.Count("float_literals", int64(len(lits))/int64(c.NShards))
	for _, l := range lits {
		if !c.BeginS("decode float literal " + l) {
			continue
		}
		for _, d := range dests {
			doc := d.doc(l)
			for _, stream := range []bool{false, true} {
				if d.num && !stream {
					continue
				}
				pw := reflect.New(d.t)
				var werr error
				if stream {
					sd := stdjson.NewDecoder(strings.NewReader(doc))
					if d.num {
						sd.UseNumber()
					}
					werr = sd.Decode(pw.Interface())
				} else {
					werr = stdjson.Unmarshal([]byte(doc), pw.Interface())
				}
				want := render(pw.Elem(), werr)
				pg := reflect.New(d.t)
				var gerr error
				p, msg := util.Safe(func() {
					if stream {
						gd := json.NewDecoder(strings.NewReader(doc))
						if d.num {
							gd.UseNumber()
						}
						gerr = gd.Decode(pg.Interface())
					} else {
						gerr = json.Unmarshal([]byte(doc), pg.Interface())
					}
				})
				ch := "Unmarshal"
				if stream {
					ch = "Decoder"
				}
				if p {
					c.Violation(fmt.Sprintf("float decode : %s : %s : panic : %s", d.name, ch, litShape(l)), doc, msg)
					continue
				}
				got := render(pg.Elem(), gerr)
				c.Outcome(d.name + ch + fmt.Sprint(got == want))
				if got != want {
					kind := "value-differs"
					if got == "error" {
						kind = "rejects"
					} else if want == "error" {
						kind = "accepts"
					}
					c.Violation(fmt.Sprintf("float decode : %s : %s : %s : %s", d.name, ch, kind, litReason(l, strings.Contains(d.name, "32"))), doc, fmt.Sprintf("go-json %s, encoding/json %s", got, want))
				}
			}
		}
		if c.WantSample() {
			c.Sample("float literal " + l)
		}
		c.EndCase()
	}
}

// floatCanon renders a decoded value with floats by their bits.
func floatCanon(v reflect.Value) string {
	switch v.Kind() {
	case reflect.Float64:
		return fmt.Sprintf("f64:%#x", math.Float64bits(v.Float()))
	case reflect.Float32:
		return fmt.Sprintf("f32:%#x", math.Float32bits(float32(v.Float())))
	case reflect.Ptr, reflect.Interface:
		if v.IsNil() {
			return "nil"
		}
		return floatCanon(v.Elem())
	case reflect.Slice, reflect.Array:
		var p []string
		for i := 0; i < v.Len(); i++ {
			p = append(p, floatCanon(v.Index(i)))
		}
		return "[" + strings.Join(p, ",") + "]"
	case reflect.Struct:
		return "{" + floatCanon(v.Field(0)) + "}"
	case reflect.Map:
		var p []string
		for _, k := range v.MapKeys() {
			p = append(p, floatCanon(v.MapIndex(k)))
		}
		return "map{" + strings.Join(p, ",") + "}"
	case reflect.String:
		return "s:" + v.String()
	}
	return fmt.Sprint(v.Interface())
}

// litShape classifies a literal: sign, number of mantissa digits (bucketed), fraction, exponent sign and magnitude bucket.
func litShape(l string) string {
	s := l
	sign := ""
	if strings.HasPrefix(s, "-") {
		sign = "negative "
		s = s[1:]
	}
	mant, exp := s, ""
	if i := strings.IndexAny(s, "eE"); i >= 0 {
		mant, exp = s[:i], s[i+1:]
	}
	digits := len(strings.ReplaceAll(mant, ".", ""))
	db := "1-15 digits"
	switch {
	case digits > 19:
		db = "20+ digits"
	case digits > 15:
		db = "16-19 digits"
	}
	fr := ""
	if strings.Contains(mant, ".") {
		fr = " with fraction"
	}
	eb := ""
	if exp != "" {
		n, _ := strconv.Atoi(strings.TrimLeft(exp, "+"))
		switch {
		case n < -307:
			eb = " exponent below -307"
		case n < -22:
			eb = " exponent -307..-23"
		case n < 0:
			eb = " exponent -22..-1"
		case n <= 22:
			eb = " exponent 0..22"
		case n <= 308:
			eb = " exponent 23..308"
		default:
			eb = " exponent above 308"
		}
	}
	return sign + db + fr + eb
}

// litReason: literals beyond the destination's range are one cause whatever their spelling; other
// literals are described by their shape.
func litReason(l string, is32 bool) string {
	if _, err := strconv.ParseFloat(l, 64); err != nil {
		return "literal beyond the float64 range"
	}
	if is32 {
		if _, err := strconv.ParseFloat(l, 32); err != nil {
			return "literal beyond the float32 range"
		}
	}
	return litShape(l)
}

// ---- base64 payloads -----------------------------------------------------------------------------

func init() {
	work.Register("C02", "c02.bytes", c02Bytes)
}

// c02Bytes: every string of at most 4 (thorough 5) atoms over the base64 alphabets, padding,
// white space and escapes, decoded into []byte positions; error <=> error and the same bytes as
// encoding/json (which uses the standard alphabet with padding and ignores CR and LF).
func c02Bytes(c *work.Ctx) {
	atoms := []string{"A", "Q", "Zg", "=", "-", "_", "+", "/", `\n`, `\r`, " ", `\u0041`, `\/`, "é"}
	maxLen := 4
	if !c.Quick() {
		maxLen = 5
	}
	type sB struct {
		B []byte `json:"b"`
	}
	type named []byte
	dests := []struct {
		name string
		t    reflect.Type
		doc  func(s string) string
	}{
		{"[]byte", reflect.TypeOf([]byte(nil)), func(s string) string { return `"` + s + `"` }},
		{"struct{B []byte}", reflect.TypeOf(sB{}), func(s string) string { return `{"b":"` + s + `"}` }},
		{"[][]byte", reflect.TypeOf([][]byte(nil)), func(s string) string { return `["` + s + `","QUJD"]` }},
		{"map[string][]byte", reflect.TypeOf(map[string][]byte(nil)), func(s string) string { return `{"k":"` + s + `"}` }},
		{"named []byte", reflect.TypeOf(named(nil)), func(s string) string { return `"` + s + `"` }},
	}
	var gen func(cur []string, n int)
	run := func(parts []string) {
		body := strings.Join(parts, "")
		if !c.BeginS("base64 payload " + body) {
			return
		}
		defer c.EndCase()
		for _, d := range dests {
			doc := d.doc(body)
			if !stdjson.Valid([]byte(doc)) {
				continue
			}
			for _, stream := range []bool{false, true} {
				pw, pg := reflect.New(d.t), reflect.New(d.t)
				var werr, gerr error
				if stream {
					werr = stdjson.NewDecoder(strings.NewReader(doc)).Decode(pw.Interface())
				} else {
					werr = stdjson.Unmarshal([]byte(doc), pw.Interface())
				}
				p, msg := util.Safe(func() {
					if stream {
						gerr = json.NewDecoder(strings.NewReader(doc)).Decode(pg.Interface())
					} else {
						gerr = json.Unmarshal([]byte(doc), pg.Interface())
					}
				})
				ch := "Unmarshal"
				if stream {
					ch = "Decoder"
				}
				shape := b64Shape(parts)
				if p {
					c.Violation(fmt.Sprintf("base64 decode : %s : %s : panic : %s", d.name, ch, shape), doc, msg)
					continue
				}
				c.Outcome(fmt.Sprintf("%s%s%v%v", d.name, ch, werr != nil, gerr != nil))
				switch {
				case (werr == nil) != (gerr == nil):
					kind := "accepts"
					if gerr != nil {
						kind = "rejects"
					}
					c.Violation(fmt.Sprintf("base64 decode : %s : %s : %s : %s", d.name, ch, kind, shape), doc, fmt.Sprintf("go-json err=%v ; encoding/json err=%v", gerr, werr))
				case werr == nil && fmt.Sprintf("%#v", pw.Elem().Interface()) != fmt.Sprintf("%#v", pg.Elem().Interface()):
					c.Violation(fmt.Sprintf("base64 decode : %s : %s : value-differs : %s", d.name, ch, shape), doc, fmt.Sprintf("go-json %#v ; encoding/json %#v", pg.Elem().Interface(), pw.Elem().Interface()))
				}
			}
		}
		if c.WantSample() {
			c.Sample("base64 payload " + body)
		}
	}
	gen = func(cur []string, n int) {
		run(cur)
		if n == 0 {
			return
		}
		for _, a := range atoms {
			gen(append(cur, a), n-1)
		}
	}
	gen(nil, maxLen)
}

// b64Shape: which features a payload has (the order of the atoms is left out).
func b64Shape(parts []string) string {
	f := map[string]bool{}
	for _, p := range parts {
		switch p {
		case "A", "Q", "Zg":
			f["std-alphabet"] = true
		case "=":
			f["padding"] = true
		case "-", "_":
			f["url-alphabet"] = true
		case "+", "/", `\/`:
			f["plus-or-slash"] = true
		case `\n`, `\r`:
			f["CR-or-LF"] = true
		case " ":
			f["space"] = true
		case `\u0041`:
			f["escaped-letter"] = true
		case "é":
			f["non-ascii"] = true
		}
	}
	var k []string
	for _, n := range []string{"std-alphabet", "padding", "url-alphabet", "plus-or-slash", "CR-or-LF", "space", "escaped-letter", "non-ascii"} {
		if f[n] {
			k = append(k, n)
		}
	}
	if len(k) == 0 {
		return "empty"
	}
	return strings.Join(k, "+")
}
