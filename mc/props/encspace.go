package props

import (
	"fmt"
	json "github.com/goccy/go-json"
	"reflect"
	"sort"

	"verif/mc/explore"
	"verif/mc/universe"
	"verif/mc/work"
)

// encSpace enumerates (type, value) pairs of the run-time type grammar:
// every type of the grammar at the given level, and for each type every value
// with at most D non-default positions. Types are distributed over the shards.
func encSpace(c *work.Ctx, types []reflect.Type, D int, opts *universe.ValOpts, check func(t reflect.Type, v reflect.Value, id string)) {
	c.SelfSharded = true
	for ti, t := range types {
		if ti%c.NShards != c.Shard {
			continue
		}
		if c.TimeUp() {
			c.NotExhaustive(fmt.Sprintf("deadline reached at type %d of %d", ti, len(types)))
			return
		}
		bound := D
		if !c.Quick() {
			bound = thoroughBound(D, ti, c.NShards)
		}
		ex := &explore.Explorer{Bound: bound}
		ex.Run(func(ch *explore.Chooser) {
			v := universe.Build(t, ch, opts, 0)
			id := fmt.Sprintf("type#%d %s choices=%v", ti, t.String(), ch.Choices())
			if len(id) > 600 {
				id = id[:600]
			}
			if !c.BeginS(id) {
				return
			}
			encPrologue()
			check(t, v, id)
			c.EndCase()
		})
	}
}

// components returns the immediate sub-values of v.
func components(v reflect.Value) []reflect.Value {
	var out []reflect.Value
	switch v.Kind() {
	case reflect.Ptr, reflect.Interface:
		if !v.IsNil() {
			out = append(out, v.Elem())
		}
	case reflect.Slice, reflect.Array:
		if v.Kind() == reflect.Slice && v.Type().Elem().Kind() == reflect.Uint8 {
			return nil
		}
		for i := 0; i < v.Len(); i++ {
			out = append(out, v.Index(i))
		}
	case reflect.Map:
		keys := v.MapKeys()
		sort.Slice(keys, func(i, j int) bool { return fmt.Sprint(keys[i]) < fmt.Sprint(keys[j]) })
		for _, k := range keys {
			out = append(out, v.MapIndex(k))
		}
	case reflect.Struct:
		if v.Type() == universe.TTime {
			return nil
		}
		for i := 0; i < v.NumField(); i++ {
			f := v.Type().Field(i)
			if f.PkgPath != "" && !f.Anonymous {
				continue
			}
			out = append(out, v.Field(i))
		}
	}
	return out
}

// blame descends into the first component that still fails on its own and
// returns the smallest failing sub-value (the "blame node").
func blame(v reflect.Value, fails func(v reflect.Value) bool, memo map[string]bool) reflect.Value {
	for depth := 0; depth < 8; depth++ {
		found := false
		for _, cv := range components(v) {
			if !cv.IsValid() || !cv.CanInterface() {
				continue
			}
			key := cv.Type().String() + "|" + universe.DescVal(cv, 6)
			f, ok := memo[key]
			if !ok || memo == nil {
				f = fails(cv)
				if memo != nil {
					memo[key] = f
				}
			}
			if f {
				v = cv
				found = true
				break
			}
		}
		if !found {
			break
		}
	}
	return v
}

// sig is the class signature of a blame node.
func sig(v reflect.Value) string {
	return universe.Desc(v.Type(), 2) + " @ " + universe.DescVal(v, 2)
}

// encPrologue: every case of the encoder space runs on pooled state that has just served calls with OTHER
// settings — an indenting encode with a non-white-space prefix and indent over marshalers at depths 0..3 (what a
// context remembers about prefixes must not reach the next call), a coloured one, an unordered one, a failing one.
type encProM struct{ N int }

func (m encProM) MarshalJSON() ([]byte, error) { return []byte(`{"m":[1,{"k":2}]}`), nil }

type encProFail struct{}

func (encProFail) MarshalJSON() ([]byte, error) { return nil, fmt.Errorf("prologue marshaler fails") }

var encProValue = []interface{}{encProM{}, []interface{}{encProM{}, map[string]interface{}{"a": encProM{}, "b": []encProM{{1}}}}, struct{ F encProM }{}}

func encPrologue() {
	defer func() { _ = recover() }()
	_, _ = json.MarshalIndent(encProM{}, "//", "##")
	_, _ = json.MarshalIndent(encProValue, "//", "##")
	_, _ = json.MarshalIndentWithOption(encProValue, "<", ">", json.Colorize(json.DefaultColorScheme), json.UnorderedMap())
	_, _ = json.MarshalWithOption(encProValue, json.Colorize(json.DefaultColorScheme), json.DisableHTMLEscape(), json.DisableNormalizeUTF8())
	_, _ = json.MarshalIndent([]interface{}{encProValue, encProFail{}}, "!!", "??")
}

// thoroughBound: the thorough tier's third deviation is spent on every eighth type of a shard (a fixed subset, so
// that two runs explore the same space); the other types keep the quick bound. The full depth-3 space of the grown
// grammars takes hours and was not completed in the time available (DESIGN.md §9).
func thoroughBound(D, typeIndex, nshards int) int {
	if D > 2 && (typeIndex/nshards)%8 != 0 {
		return D - 1
	}
	return D
}
