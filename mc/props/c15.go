package props

import (
	"bytes"
	"context"
	stdjson "encoding/json"
	"fmt"
	"reflect"
	"strings"
	"unicode/utf8"

	json "github.com/goccy/go-json"

	"verif/mc/props/util"
	"verif/mc/work"
)

// C15 — object keys select struct fields exactly as Go's JSON rules prescribe.

func init() {
	work.Register("C15", "c15.keys", c15Keys)
	work.Register("C15", "c15.embedded", c15Embedded)
}

var c15Alpha = []string{"a", "A", "b", "B", "1", "_", "é", "É", "<"}

func c15Names(maxLen int) []string {
	var out []string
	var rec func(cur string, l int)
	rec = func(cur string, l int) {
		if l > 0 {
			out = append(out, cur)
		}
		if l == maxLen {
			return
		}
		for _, a := range c15Alpha {
			rec(cur+a, l+1)
		}
	}
	rec("", 0)
	return out
}

// c15Struct builds struct{F0 int `json:"n0"`; F1 int `json:"n1"`; ... fillers}.
func c15Struct(names []string, total int) reflect.Type {
	var fs []reflect.StructField
	for i, n := range names {
		tag := fmt.Sprintf(`json:%q`, n)
		fs = append(fs, reflect.StructField{Name: fmt.Sprintf("F%d", i), Type: reflect.TypeOf(0), Tag: reflect.StructTag(tag)})
	}
	for i := len(names); i < total; i++ {
		fs = append(fs, reflect.StructField{Name: fmt.Sprintf("Z%d", i), Type: reflect.TypeOf(0), Tag: reflect.StructTag(fmt.Sprintf(`json:"zq%d"`, i))})
	}
	return reflect.StructOf(fs)
}

func c15Escape(s string, which int) string {
	// which <0: every character escaped; otherwise only the which-th rune
	var sb strings.Builder
	i := 0
	for _, r := range s {
		if which < 0 || i == which {
			if r > 0xFFFF {
				sb.WriteString(string(r))
			} else {
				fmt.Fprintf(&sb, `\u%04x`, r)
			}
		} else {
			sb.WriteRune(r)
		}
		i++
	}
	return sb.String()
}

func c15Rel(key, name string) string {
	switch {
	case name == "":
		return "none"
	case key == name:
		return "exact"
	case strings.EqualFold(key, name):
		if isASCIIStr(key) && isASCIIStr(name) {
			return "case-fold-ascii"
		}
		return "case-fold-unicode"
	case strings.HasPrefix(strings.ToLower(name), strings.ToLower(key)) && key != "":
		return "key-is-prefix"
	case strings.HasPrefix(strings.ToLower(key), strings.ToLower(name)):
		return "key-is-extension"
	case key == "":
		return "empty-key"
	}
	return "unrelated"
}

func isASCIIStr(s string) bool {
	for i := 0; i < len(s); i++ {
		if s[i] >= 0x80 {
			return false
		}
	}
	return true
}

// c15Decode decodes doc into a fresh struct of type t (fields preset to 100+i) and
// reports which fields changed, as "index=value" pairs.
func c15Decode(t reflect.Type, doc []byte, std, stream bool) (string, error) {
	return c15DecodePieces(t, doc, std, stream, 0)
}

// c15DecodePieces: piece > 0 makes the stream's reader hand the document out in pieces of that many bytes (a key
// may arrive in two Reads).
func c15DecodePieces(t reflect.Type, doc []byte, std, stream bool, piece int) (string, error) {
	p := reflect.New(t)
	for i := 0; i < t.NumField(); i++ {
		if p.Elem().Field(i).Kind() == reflect.Int {
			p.Elem().Field(i).SetInt(int64(100 + i))
		}
	}
	var err error
	switch {
	case std && !stream:
		err = stdjson.Unmarshal(doc, p.Interface())
	case std:
		err = stdjson.NewDecoder(bytes.NewReader(doc)).Decode(p.Interface())
	case !stream:
		err = json.Unmarshal(append([]byte(nil), doc...), p.Interface())
	case piece > 0:
		err = json.NewDecoder(&pieceReader{data: append([]byte(nil), doc...), n: piece}).Decode(p.Interface())
	default:
		err = json.NewDecoder(bytes.NewReader(doc)).Decode(p.Interface())
	}
	var sb strings.Builder
	for i := 0; i < t.NumField(); i++ {
		f := p.Elem().Field(i)
		if f.Kind() == reflect.Int && f.Int() != int64(100+i) {
			fmt.Fprintf(&sb, "%d=%d ", i, f.Int())
		}
	}
	return sb.String(), err
}

func c15Keys(c *work.Ctx) {
	nameLen, keyLen := 2, 2
	names := c15Names(nameLen)
	var shapes [][]string
	for _, n := range names {
		shapes = append(shapes, []string{n})
	}
	for _, a := range names {
		for _, b := range names {
			if a == b {
				continue
			}
			if c.Quick() {
				// quick: pairs of one-character names, and pairs related by case or by prefix
				la, lb := utf8.RuneCountInString(a), utf8.RuneCountInString(b)
				related := strings.EqualFold(a, b) || strings.HasPrefix(strings.ToLower(b), strings.ToLower(a)) || strings.HasPrefix(strings.ToLower(a), strings.ToLower(b))
				if !(la == 1 && lb == 1) && !related {
					continue
				}
			}
			shapes = append(shapes, []string{a, b})
		}
	}
	// names with a character that has a two-character escape (the solidus): a key matcher that steps over
	// escapes has one path for \uXXXX and one for the simple escapes
	shapes = append(shapes, []string{"a/b", "a/cd", "ab"}, []string{"/", "//"}, []string{"a/", "a/b"})
	keys := c15Names(keyLen)
	keys = append(keys, "", "a/", "a/b", "a/c", "a/cd", "a/cde", "/", "//", "///", "A/B", "a/B")
	paddings := []struct {
		name  string
		total int
	}{{"<=8 fields", 0}, {"9..16 fields", 9}, {">16 fields", 17}, {">64 fields", 70}}
	long64 := strings.Repeat("x", 64)
	long65 := strings.Repeat("x", 65)
	c.SelfSharded = true
	for si, shape := range shapes {
		if si%c.NShards != c.Shard {
			continue
		}
		if !c.BeginS("names " + strings.Join(shape, ",")) {
			continue
		}
		c15Prologue()
		// keys: all short keys, plus extensions and prefixes of the field names, plus very long names
		ks := append([]string(nil), keys...)
		for _, n := range shape {
			ks = append(ks, n+"a", n+"A", n+"1", strings.ToUpper(n), strings.ToLower(n))
			// the same characters with a higher code point whose low byte is the character's (U+0161 for 'a',
			// U+1F661 likewise): a matcher that keeps one byte of an escaped rune takes them for the name
			if r := []rune(n); len(r) > 0 && r[0] < 0x80 {
				ks = append(ks, string(rune(0x100+int(r[0])))+string(r[1:]), string(rune(0x1F600+int(r[0])))+string(r[1:]), string(r[:len(r)-1])+string(rune(0x2000+int(r[len(r)-1]))))
			}
			if r := []rune(n); len(r) > 1 {
				ks = append(ks, string(r[:1]))
			}
		}
		for _, pad := range paddings {
			t := c15Struct(shape, pad.total)
			var tLong reflect.Type
			if pad.total == 0 {
				tLong = c15Struct(append(append([]string(nil), shape...), long64, long65), 0)
			}
			for _, k := range ks {
				spellings := []struct{ name, text string }{{"raw", c15Escape(k, 99)}, {"escaped", c15Escape(k, -1)}}
				if utf8.RuneCountInString(k) > 1 {
					spellings = append(spellings, struct{ name, text string }{"first-escaped", c15Escape(k, 0)}, struct{ name, text string }{"last-escaped", c15Escape(k, utf8.RuneCountInString(k)-1)})
				}
				if strings.Contains(k, "/") {
					spellings = append(spellings, struct{ name, text string }{"simple-escaped", strings.ReplaceAll(k, "/", `\/`)})
				}
				for _, sp := range spellings {
					doc := []byte(`{"` + sp.text + `":5}`)
					c15One(c, t, shape, k, doc, pad.name, sp.name)
					if tLong != nil && sp.name == "raw" {
						c15One(c, tLong, append(append([]string(nil), shape...), long64, long65), k, doc, "<=8 fields incl. 64/65-byte names", sp.name)
					}
				}
			}
			// duplicates: ordered pairs of keys that fold to the same field name
			for _, n := range shape {
				for _, k2 := range []string{n, strings.ToUpper(n), strings.ToLower(n)} {
					doc := []byte(fmt.Sprintf(`{"%s":1,"%s":2}`, c15Escape(n, 99), c15Escape(k2, 99)))
					c15One(c, t, shape, n+"+"+k2, doc, pad.name, "duplicate")
				}
			}
			// the first-win option (the library's own extension): which field a key selects is the same, the
			// FIRST key that selects a field provides its value; the model is built from encoding/json's
			// single-key answers for the same type
			if len(shape) >= 2 {
				c15FirstWin(c, t, shape, pad.name)
			}
			// encoding side: member names and order
			v := reflect.New(t).Elem()
			for i := 0; i < t.NumField(); i++ {
				v.Field(i).SetInt(int64(i + 1))
			}
			g, gerr := json.Marshal(v.Interface())
			w, werr := stdjson.Marshal(v.Interface())
			if (gerr == nil) != (werr == nil) || (gerr == nil && !bytes.Equal(g, w)) {
				c.Violation("encode member names : "+pad.name, strings.Join(shape, ","), fmt.Sprintf("go-json %s err=%v; encoding/json %s", clip(g), gerr, clip(w)))
			}
		}
		// 64/65-byte names are keys too
		for _, k := range []string{long64, long65, long64[:63]} {
			t := c15Struct(append(append([]string(nil), shape...), long64, long65), 0)
			c15One(c, t, append(append([]string(nil), shape...), long64, long65), k, []byte(`{"`+k+`":5}`), "<=8 fields incl. 64/65-byte names", "raw")
		}
		if c.WantSample() {
			c.Sample("struct with field names " + strings.Join(shape, ","))
		}
		c.EndCase()
	}
}

// c15FirstWin decodes documents with repeated and case-varied keys under DecodeFieldPriorityFirstWin.
func c15FirstWin(c *work.Ctx, t reflect.Type, shape []string, pad string) {
	n1, n2 := shape[0], shape[1]
	variants := func(n string) []string { return []string{n, strings.ToUpper(n), strings.ToLower(n)} }
	fieldOf := func(k string) int { // index of the field encoding/json gives the key to, -1 if none
		got, err := c15Decode(t, []byte(`{"`+c15Escape(k, 99)+`":5}`), true, false)
		if err != nil || got == "" {
			return -1
		}
		var idx int
		fmt.Sscanf(got, "%d=", &idx)
		return idx
	}
	for _, k1 := range variants(n1) {
		for _, k2 := range variants(n2) {
			keys := []string{"zz", k1, k2, k1, k2, n1, n2}
			var sb strings.Builder
			sb.WriteString("{")
			want := map[int]int{}
			for i, k := range keys {
				if i > 0 {
					sb.WriteString(",")
				}
				fmt.Fprintf(&sb, `"%s":%d`, c15Escape(k, 99), i+1)
				if f := fieldOf(k); f >= 0 {
					if _, seen := want[f]; !seen {
						want[f] = i + 1
					}
				}
			}
			sb.WriteString("}")
			doc := sb.String()
			var ws strings.Builder
			for i := 0; i < t.NumField(); i++ {
				if v, ok := want[i]; ok {
					fmt.Fprintf(&ws, "%d=%d ", i, v)
				}
			}
			for mode := 0; mode < 2; mode++ {
				p := reflect.New(t)
				for i := 0; i < t.NumField(); i++ {
					if p.Elem().Field(i).Kind() == reflect.Int {
						p.Elem().Field(i).SetInt(int64(100 + i))
					}
				}
				var err error
				pn, msg := util.Safe(func() {
					if mode == 0 {
						err = json.UnmarshalWithOption([]byte(doc), p.Interface(), json.DecodeFieldPriorityFirstWin())
					} else {
						err = json.NewDecoder(strings.NewReader(doc)).DecodeWithOption(p.Interface(), json.DecodeFieldPriorityFirstWin())
					}
				})
				c.Count("first_win_decodes", 1)
				var gs strings.Builder
				for i := 0; i < t.NumField(); i++ {
					f := p.Elem().Field(i)
					if f.Kind() == reflect.Int && f.Int() != int64(100+i) {
						fmt.Fprintf(&gs, "%d=%d ", i, f.Int())
					}
				}
				m := []string{"Unmarshal", "Decoder"}[mode]
				switch {
				case pn:
					c.Violation(fmt.Sprintf("first-win : %s : panic : %s", pad, util.ErrClass(msg)), doc, msg)
				case err != nil || gs.String() != ws.String():
					rel := "names unrelated"
					if strings.EqualFold(n1, n2) {
						rel = "names differ only in case"
					}
					c.Violation(fmt.Sprintf("first-win : %s : %s : %s : not the first key of every field", pad, m, rel), fmt.Sprintf("fields %q <- %s", shape, doc),
						fmt.Sprintf("%s with the first-win option of %s into a struct with fields %q (%s): sets [%s] err=%v; the first key of every field gives [%s]", m, doc, shape, pad, gs.String(), err, ws.String()))
				}
			}
		}
	}
}

func c15One(c *work.Ctx, t reflect.Type, shape []string, key string, doc []byte, pad, spelling string) {
	for mode := 0; mode < 5; mode++ {
		stream := mode >= 1
		piece := []int{0, 0, 1, 2, 3}[mode]
		want, werr := c15Decode(t, doc, true, stream)
		var got string
		var gerr error
		if p, msg := util.Safe(func() { got, gerr = c15DecodePieces(t, doc, false, stream, piece) }); p {
			c.Violation(fmt.Sprintf("panic : %s : %s", pad, util.ErrClass(msg)), string(doc), msg)
			continue
		}
		c.Count("decodes", 1)
		if (werr == nil) == (gerr == nil) && (werr != nil || got == want) {
			c.Outcome("agree")
			continue
		}
		m := "Unmarshal"
		if stream {
			m = "Decoder"
		}
		nameOf := func(s string) string {
			if s == "" {
				return ""
			}
			var idx int
			fmt.Sscanf(s, "%d=", &idx)
			if idx < len(shape) {
				return shape[idx]
			}
			return "<filler>"
		}
		rel := fmt.Sprintf("expected %s, got %s", c15Rel(key, nameOf(want)), c15Rel(key, nameOf(got)))
		if (werr == nil) != (gerr == nil) {
			rel = fmt.Sprintf("error mismatch (go-json err=%v, encoding/json err=%v)", gerr != nil, werr != nil)
		}
		c.Outcome(rel)
		c.Violation(fmt.Sprintf("%s : %s key : %s : %s", pad, spelling, m, rel), fmt.Sprintf("fields %q <- %s", shape, doc),
			fmt.Sprintf("%s of %s into a struct with fields %q (%s): go-json sets [%s] err=%v; encoding/json sets [%s] err=%v", m, doc, shape, pad, got, gerr, want, werr))
	}
}

// ---- embedded structs with colliding names ------------------------------------------------------

type c15E1 struct{ X int }
type c15E2 struct{ X int }
type c15E3 struct {
	X int `json:"x"`
}
type c15Deep struct{ c15E1 }
type c15T1 struct {
	c15E1
	c15E2
} // ambiguous X at the same depth: dropped
type c15T2 struct {
	c15E1
	X int
} // shallower wins
type c15T3 struct {
	c15E1
	c15E3
} // X vs tagged x at the same depth
type c15T4 struct {
	*c15E1
	Y int
}
type c15T5 struct {
	c15Deep
	c15E2
} // deeper vs shallower
type c15T6 struct {
	c15E3
	X int `json:"x"`
}
type c15T7 struct {
	c15Deep
	*c15E3
	Z int `json:"X"`
}
type c15T8 struct {
	A int `json:"a"`
	B int `json:"A"`
	C int `json:"-"`
	d int
	E int `json:"-,"`
}
type c15T9 struct {
	c15T1
	c15E3
}

func c15Embedded(c *work.Ctx) {
	types := []reflect.Type{reflect.TypeOf(c15T1{}), reflect.TypeOf(c15T2{}), reflect.TypeOf(c15T3{}), reflect.TypeOf(c15T4{}), reflect.TypeOf(c15T5{}), reflect.TypeOf(c15T6{}), reflect.TypeOf(c15T7{}), reflect.TypeOf(c15T8{}), reflect.TypeOf(c15T9{}), reflect.TypeOf(c15Deep{})}
	keys := []string{"X", "x", "Y", "y", "Z", "z", "a", "A", "C", "c", "d", "D", "-", "E", "c15E1", "C15E1", "", "Xx", "\\u0058", "\\u0078"}
	for _, t := range types {
		for _, k := range keys {
			for _, k2 := range append([]string{"<none>"}, keys[:6]...) {
				doc := fmt.Sprintf(`{"%s":5}`, k)
				if k2 != "<none>" {
					doc = fmt.Sprintf(`{"%s":5,"%s":6}`, k, k2)
				}
				if !c.BeginS(t.Name() + " <- " + doc) {
					continue
				}
				c15Prologue()
				for mode := 0; mode < 2; mode++ {
					dec := func(std bool) (string, error) {
						p := reflect.New(t)
						var err error
						b := []byte(doc)
						switch {
						case std && mode == 0:
							err = stdjson.Unmarshal(b, p.Interface())
						case std:
							err = stdjson.NewDecoder(bytes.NewReader(b)).Decode(p.Interface())
						case mode == 0:
							err = json.Unmarshal(b, p.Interface())
						default:
							err = json.NewDecoder(bytes.NewReader(b)).Decode(p.Interface())
						}
						out, _ := stdjson.Marshal(p.Interface())
						return fmt.Sprintf("%+v", string(out)) + fmt.Sprintf(" %#v", p.Elem().Interface()), err
					}
					want, werr := dec(true)
					var got string
					var gerr error
					if p, msg := util.Safe(func() { got, gerr = dec(false) }); p {
						c.Violation("embedded : panic : "+t.Name(), doc, msg)
						continue
					}
					// pointer addresses differ between runs: compare the re-encoded form only
					wj, gj := strings.SplitN(want, " ", 2)[0], strings.SplitN(got, " ", 2)[0]
					c.Outcome(fmt.Sprint(wj == gj))
					if (werr == nil) != (gerr == nil) || wj != gj {
						c.Violation(fmt.Sprintf("embedded : %s : key %q : mode %d", t.Name(), k, mode), t.Name()+" <- "+doc, fmt.Sprintf("go-json %s err=%v; encoding/json %s err=%v", gj, gerr, wj, werr))
					}
				}
				c.EndCase()
			}
		}
		// encoding side
		v := reflect.New(t)
		fillInts(v.Elem(), 1)
		g, gerr := json.Marshal(v.Interface())
		w, werr := stdjson.Marshal(v.Interface())
		if (gerr == nil) != (werr == nil) || !bytes.Equal(g, w) {
			c.Violation("embedded : encode member set : "+t.Name(), t.Name(), fmt.Sprintf("go-json %s err=%v; encoding/json %s", g, gerr, w))
		}
		c.Sample("embedded type " + t.Name())
	}
}

func fillInts(v reflect.Value, n int) int {
	switch v.Kind() {
	case reflect.Int:
		if v.CanSet() {
			v.SetInt(int64(n))
			n++
		}
	case reflect.Ptr:
		if v.CanSet() {
			p := reflect.New(v.Type().Elem())
			n = fillInts(p.Elem(), n)
			v.Set(p)
		}
	case reflect.Struct:
		for i := 0; i < v.NumField(); i++ {
			n = fillInts(v.Field(i), n)
		}
	}
	return n
}

// c15Prologue: the rules of C15 hold whatever the process did before. Before every case the pooled decoding
// state serves one call with the first-win option (the only option that changes which duplicate wins), one
// call that fails inside an object, and one call with a context: a call without options must not inherit them.
func c15Prologue() {
	var v struct{ A, B int }
	_ = json.UnmarshalWithOption([]byte(`{"A":1,"A":2,"B":3,"B":4}`), &v, json.DecodeFieldPriorityFirstWin())
	_ = json.Unmarshal([]byte(`{"A":1,"B":`), &v)
	_ = json.UnmarshalContext(context.Background(), []byte(`{"a":5}`), &v)
	_ = json.NewDecoder(strings.NewReader(`{"A":1,"A":2}`)).DecodeWithOption(&v, json.DecodeFieldPriorityFirstWin())
}
