package props

import (
	"bytes"
	"fmt"
	"io"
	"reflect"
	"strings"

	json "github.com/goccy/go-json"

	"verif/mc/oracle"
	"verif/mc/props/util"
	"verif/mc/work"
)

// c04.stream / c09.stream — long streams of many values, all results kept.
//
// Round trip "through Encoder/Decoder streams" is a statement about the values a program HOLDS: N values are
// written by one Encoder, read back by one Decoder into N fresh destinations that are all kept, and compared with
// the originals twice: right after their own Decode and again after the LAST Decode (the stream decoder replaces and
// refills its buffer many times on the way; strings it handed out earlier must not follow the buffer's contents).
// N from 2 to 40, string sizes from 1 to 1500 bytes (the streams are 30 bytes to 200 KiB long, far beyond the
// initial 512-byte buffer), three destination types carrying strings as fields, slice elements, map keys and
// values and interface values, the reader handing out the whole stream, 512-, 100- and 7-byte pieces, values
// separated by the Encoder's newline; also read element-wise with Token/More/Decode from one enclosing array.

func init() {
	work.Register("C04", "c04.stream", c04Stream)
	work.Register("C09", "c09.stream", c04Stream)
}

type c04Rec struct {
	ID   int               `json:"id"`
	Name string            `json:"name"`
	Tags []string          `json:"tags"`
	Attr map[string]string `json:"attr"`
	Any  interface{}       `json:"any"`
}

type pieceReader struct {
	data []byte
	n    int
}

func (r *pieceReader) Read(p []byte) (int, error) {
	if len(r.data) == 0 {
		return 0, io.EOF
	}
	k := r.n
	if k <= 0 || k > len(r.data) {
		k = len(r.data)
	}
	if k > len(p) {
		k = len(p)
	}
	copy(p, r.data[:k])
	r.data = r.data[k:]
	return k, nil
}

func c04Stream(c *work.Ctx) {
	ns := []int{2, 3, 5, 8, 13, 21, 40}
	sizes := []int{1, 10, 60, 200, 600, 1500}
	pieces := []int{0, 512, 100, 7}
	if !c.Quick() {
		ns = append(ns, 4, 6, 30, 80)
		sizes = append(sizes, 30, 100, 400, 511, 512, 513, 1024)
		pieces = append(pieces, 1, 64, 511, 513, 1000)
	}
	str := func(i, k, size int) string {
		return fmt.Sprintf("%d.%d:", i, k) + strings.Repeat(string(rune('a'+(i+k)%26)), size+(i*7+k)%13)
	}
	kinds := []struct {
		name string
		mk   func(i, size int) interface{}
		zero func() interface{}
	}{
		{"struct{ID;Name;Tags;Attr;Any}", func(i, size int) interface{} {
			return &c04Rec{ID: i, Name: str(i, 0, size), Tags: []string{str(i, 1, size/2), str(i, 2, 3)}, Attr: map[string]string{str(i, 3, 5): str(i, 4, size)}, Any: []interface{}{str(i, 5, size/3), float64(i)}}
		}, func() interface{} { return &c04Rec{} }},
		{"[]string", func(i, size int) interface{} {
			v := []string{str(i, 0, size), str(i, 1, 0), str(i, 2, size/4)}
			return &v
		}, func() interface{} { return &[]string{} }},
		{"map[string]string", func(i, size int) interface{} {
			v := map[string]string{str(i, 0, size/8): str(i, 1, size), "k": str(i, 2, 2)}
			return &v
		}, func() interface{} { var m map[string]string; return &m }},
		{"string", func(i, size int) interface{} { v := str(i, 0, size); return &v }, func() interface{} { return new(string) }},
	}
	for _, k := range kinds {
		for _, n := range ns {
			for _, size := range sizes {
				id := fmt.Sprintf("%d values of %s, strings of about %d bytes", n, k.name, size)
				if !c.BeginS(id) {
					continue
				}
				orig := make([]interface{}, n)
				var stream bytes.Buffer
				enc := json.NewEncoder(&stream)
				okEnc := true
				for i := range orig {
					orig[i] = k.mk(i, size)
					if err := enc.Encode(orig[i]); err != nil {
						okEnc = false
					}
				}
				if !okEnc {
					c.Violation("long stream : "+k.name+" : Encode fails", id, "")
					c.EndCase()
					continue
				}
				want := make([]string, n)
				for i := range orig {
					want[i] = oracle.Canon(reflect.ValueOf(orig[i]).Elem())
				}
				// the same values as the elements of one array, for the Token/More/Decode way of reading
				arr := append([]byte("["), bytes.TrimRight(bytes.Replace(stream.Bytes(), []byte("\n"), []byte(","), -1), ",")...)
				arr = append(arr, ']')
				for _, mode := range []string{"Decode", "Token+More+Decode"} {
					for _, ps := range pieces {
						data := stream.Bytes()
						if mode != "Decode" {
							data = arr
						}
						got := make([]interface{}, 0, n)
						bad := ""
						p, msg := util.Safe(func() {
							dec := json.NewDecoder(&pieceReader{data: append([]byte(nil), data...), n: ps})
							if mode != "Decode" {
								if _, err := dec.Token(); err != nil {
									bad = "opening Token: " + err.Error()
									return
								}
							}
							for i := 0; i < n; i++ {
								if mode != "Decode" && !dec.More() {
									bad = fmt.Sprintf("More reports the end before value %d", i)
									return
								}
								dst := k.zero()
								if err := dec.Decode(dst); err != nil {
									bad = fmt.Sprintf("value %d: %v", i, err)
									return
								}
								got = append(got, dst)
								if now := oracle.Canon(reflect.ValueOf(dst).Elem()); now != want[i] {
									bad = fmt.Sprintf("value %d right after its Decode is %s, written was %s", i, clip([]byte(now)), clip([]byte(want[i])))
									return
								}
							}
						})
						c.Count("stream_round_trips", 1)
						what := ""
						switch {
						case p:
							what, bad = "panic", msg
						case bad != "":
							what = "a value does not come back"
						default:
							for i := range got {
								if now := oracle.Canon(reflect.ValueOf(got[i]).Elem()); now != want[i] {
									what = "an earlier result changed while later values were read"
									bad = fmt.Sprintf("value %d of %d after the last Decode is %s, written was %s", i, n, clip([]byte(now)), clip([]byte(want[i])))
									break
								}
							}
						}
						if what != "" {
							c.Violation(fmt.Sprintf("long stream : %s : %s : %s", k.name, mode, what), fmt.Sprintf("%s, reader pieces of %d bytes", id, ps), bad)
						}
					}
				}
				c.Outcome("ok")
				c.EndCase()
			}
		}
	}
}
