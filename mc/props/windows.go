package props

import (
	"bytes"
	"context"
	stdjson "encoding/json"
	"fmt"

	json "github.com/goccy/go-json"

	"verif/mc/oracle"
	"verif/mc/props/util"
	"verif/mc/work"
)

// c01.windows / c08.windows — marshaler results that are WINDOWS of a live caller buffer.
//
// json.RawMessage.MarshalJSON returns its receiver, and a caching marshaler returns a sub-slice of its cache: the
// bytes behind such a result (its spare capacity) are live caller data, typically the next value of the same
// document. The type/value grammar only builds marshaler results that own their backing array, so an encoder
// that uses the spare capacity as scratch space is invisible there. Here every value is built from adjacent
// windows of one buffer, in every position kind, through every entry point:
//
//	C01: the output is the document encoding/json produces (token equality, error <=> error)
//	C08: the encoder writes only its own buffers — the caller's buffer, spare capacity included, is unchanged

func init() {
	work.Register("C01", "c01.windows", func(c *work.Ctx) { windows(c, true) })
	work.Register("C08", "c08.windows", func(c *work.Ctx) { windows(c, false) })
}

type winMarshaler struct{ b []byte }

func (w winMarshaler) MarshalJSON() ([]byte, error) { return w.b, nil }

type winPtrMarshaler struct{ b []byte }

func (w *winPtrMarshaler) MarshalJSON() ([]byte, error) { return w.b, nil }

type winText struct{ b []byte }

func (w winText) MarshalText() ([]byte, error) { return w.b, nil }

type winCtx struct{ b []byte }

func (w winCtx) MarshalJSON(_ context.Context) ([]byte, error) { return w.b, nil }

func windows(c *work.Ctx, compare bool) {
	// the buffer: four adjacent documents (every kind of first byte behind a window) and spare capacity
	const text = `{"a":1}[2,3]"x"4 `
	cuts := []int{0, 7, 12, 15, 16}
	type build struct {
		name string
		mk   func(w func(i int) []byte) interface{}
	}
	builds := []build{
		{"struct of RawMessages", func(w func(int) []byte) interface{} {
			return struct{ A, B, C, D json.RawMessage }{w(0), w(1), w(2), w(3)}
		}},
		{"[]RawMessage", func(w func(int) []byte) interface{} { return []json.RawMessage{w(0), w(1), w(2), w(3)} }},
		{"[]*RawMessage", func(w func(int) []byte) interface{} {
			a, b := json.RawMessage(w(0)), json.RawMessage(w(1))
			return []*json.RawMessage{&a, &b}
		}},
		{"map[string]RawMessage", func(w func(int) []byte) interface{} {
			return map[string]json.RawMessage{"a": w(0), "b": w(1), "c": w(2)}
		}},
		{"[]interface{} of RawMessage", func(w func(int) []byte) interface{} {
			return []interface{}{json.RawMessage(w(0)), json.RawMessage(w(1)), json.RawMessage(w(2))}
		}},
		{"value-receiver marshalers", func(w func(int) []byte) interface{} {
			return []winMarshaler{{w(0)}, {w(1)}, {w(2)}, {w(3)}}
		}},
		{"pointer-receiver marshalers", func(w func(int) []byte) interface{} {
			return []*winPtrMarshaler{{w(0)}, {w(1)}, {w(2)}}
		}},
		{"context-aware marshalers", func(w func(int) []byte) interface{} {
			return struct{ A, B winCtx }{winCtx{w(0)}, winCtx{w(1)}}
		}},
		{"text marshalers", func(w func(int) []byte) interface{} {
			return map[string]interface{}{"v": []winText{{w(2)[1:2]}, {w(3)}}, "p": []*winText{{w(2)[1:2]}}}
		}},
		{"a RawMessage whose window ends at the end of the data (spare capacity only)", func(w func(int) []byte) interface{} {
			return []json.RawMessage{w(3), w(0)}
		}},
	}
	entries := []struct {
		name     string
		goj, std func(x interface{}) ([]byte, error)
	}{
		{"Marshal", func(x interface{}) ([]byte, error) { return json.Marshal(x) }, func(x interface{}) ([]byte, error) { return stdjson.Marshal(x) }},
		{"MarshalIndent", func(x interface{}) ([]byte, error) { return json.MarshalIndent(x, "", " ") }, func(x interface{}) ([]byte, error) { return stdjson.MarshalIndent(x, "", " ") }},
		{"MarshalNoEscape", func(x interface{}) ([]byte, error) { return json.MarshalNoEscape(x) }, func(x interface{}) ([]byte, error) { return stdjson.Marshal(x) }},
		{"MarshalContext", func(x interface{}) ([]byte, error) { return json.MarshalContext(context.Background(), x) }, func(x interface{}) ([]byte, error) { return stdjson.Marshal(x) }},
		{"Marshal+Colorize(zero scheme)", func(x interface{}) ([]byte, error) {
			return json.MarshalWithOption(x, json.Colorize(&json.ColorScheme{}))
		}, func(x interface{}) ([]byte, error) { return stdjson.Marshal(x) }},
		{"Encoder", func(x interface{}) ([]byte, error) {
			var b bytes.Buffer
			err := json.NewEncoder(&b).Encode(x)
			return b.Bytes(), err
		}, func(x interface{}) ([]byte, error) {
			var b bytes.Buffer
			err := stdjson.NewEncoder(&b).Encode(x)
			return b.Bytes(), err
		}},
		{"Encoder+indent", func(x interface{}) ([]byte, error) {
			var b bytes.Buffer
			e := json.NewEncoder(&b)
			e.SetIndent(" ", "\t")
			err := e.Encode(x)
			return b.Bytes(), err
		}, func(x interface{}) ([]byte, error) {
			var b bytes.Buffer
			e := stdjson.NewEncoder(&b)
			e.SetIndent(" ", "\t")
			err := e.Encode(x)
			return b.Bytes(), err
		}},
	}
	for _, spare := range []int{0, 1, 9} {
		for _, bd := range builds {
			if compare && bd.name == "context-aware marshalers" {
				continue // encoding/json does not know MarshalJSON(ctx): no reference
			}
			for _, e := range entries {
				id := fmt.Sprintf("windows: %s through %s, %d spare bytes", bd.name, e.name, spare)
				if !c.BeginS(id) {
					continue
				}
				mkbuf := func() []byte { return append(make([]byte, 0, len(text)+spare), text...) }
				win := func(buf []byte) func(int) []byte {
					return func(i int) []byte { return buf[cuts[i]:cuts[i+1]] }
				}
				// the reference works on its own copy of the buffer
				var want []byte
				var werr error
				refOK := true
				if compare {
					rb := mkbuf()
					if p, _ := util.Safe(func() { want, werr = e.std(bd.mk(win(rb))) }); p {
						refOK = false
					}
				}
				buf := mkbuf()
				snap := string(buf[:cap(buf)])
				x := bd.mk(win(buf))
				var got []byte
				var gerr error
				p, msg := util.Safe(func() { got, gerr = e.goj(x) })
				c.Count("window_encodes", 1)
				switch {
				case p:
					c.Violation(fmt.Sprintf("windows : %s : panic : %s", bd.name, util.ErrClass(msg)), id, msg)
				case string(buf[:cap(buf)]) != snap:
					c.Violation(fmt.Sprintf("windows : %s : the encoder wrote into the caller's buffer", bd.name), id,
						fmt.Sprintf("buffer (to capacity) was %q, is %q after %s", snap, buf[:cap(buf)], e.name))
				case compare && refOK && (gerr == nil) != (werr == nil):
					c.Violation(fmt.Sprintf("windows : %s : error-mismatch", bd.name), id, fmt.Sprintf("%s: go-json err=%v out=%q ; encoding/json err=%v out=%q", e.name, gerr, clip(got), werr, clip(want)))
				case compare && refOK && gerr == nil:
					if d := oracle.TokensEqual(got, want); d != "" {
						c.Violation(fmt.Sprintf("windows : %s : %s", bd.name, d), id, fmt.Sprintf("%s: go-json %q ; encoding/json %q", e.name, clip(got), clip(want)))
					}
				}
				// a second encode of the same value must see the same data
				var again []byte
				var aerr error
				if p2, _ := util.Safe(func() { again, aerr = e.goj(x) }); !p && !p2 && ((aerr == nil) != (gerr == nil) || !bytes.Equal(again, got)) {
					c.Violation(fmt.Sprintf("windows : %s : a second encode of the same value differs", bd.name), id, fmt.Sprintf("%s: first %q err=%v ; second %q err=%v", e.name, clip(got), gerr, clip(again), aerr))
				}
				c.Outcome(fmt.Sprint(gerr != nil))
				if c.WantSample() {
					c.Sample(id)
				}
				c.EndCase()
			}
		}
	}
}
