package props

import (
	"context"
	"fmt"
	"io"
	"math"
	"reflect"
	"runtime"
	"strings"
	"unsafe"

	json "github.com/goccy/go-json"

	"verif/mc/explore"
	"verif/mc/oracle"
	"verif/mc/props/util"
	"verif/mc/universe"
	"verif/mc/work"
)

// C08 — encoding any acyclic value is safe; cyclic values give an error.

func init() {
	work.Register("C08", "c08.shapes", c08Shapes_)
	work.Register("C08", "c08.cycles", c08Cycles)
	work.Register("C08", "c08.deep", c08Deep)
}

// ---- slot hook: bounds, alignment and frame-overlap assertions on the encoder's pointer stack -------

type slotChecker struct {
	base, length uintptr // bytes
	owner        map[uintptr]uintptr
	violations   []string
	loads        int
	stores       int
}

var slotCk *slotChecker

func (s *slotChecker) region(data unsafe.Pointer, n int) {
	d := uintptr(data)
	if d != s.base {
		if s.base != 0 {
			no := make(map[uintptr]uintptr, len(s.owner))
			for a, b := range s.owner {
				no[a-s.base+d] = b - s.base + d
			}
			s.owner = no
		}
		s.base = d
	}
	s.length = uintptr(n) * 8
}

func (s *slotChecker) slot(base uintptr, idx uint32, store bool) {
	addr := base + uintptr(idx)
	if addr%8 != 0 {
		s.add(fmt.Sprintf("misaligned slot access"))
	}
	if addr < s.base || addr+8 > s.base+s.length {
		s.add(fmt.Sprintf("slot access out of bounds (store=%v)", store))
		panic("verif: encoder slot access outside its pointer stack")
	}
	if store {
		s.stores++
		s.owner[addr] = base
		return
	}
	s.loads++
	if o, ok := s.owner[addr]; ok && o != base {
		s.add("frame overlap: a slot written by one frame is read by another")
	}
}

func (s *slotChecker) add(v string) {
	for _, x := range s.violations {
		if x == v {
			return
		}
	}
	s.violations = append(s.violations, v)
}

// c08RunHooked runs one entry point with the slot checker armed. The checker follows ONE pointer stack: an entry
// point that runs a second encode inside the first (a field query is hashed by marshaling it) is run without it.
func c08RunHooked(e *c08Entry, x interface{}, got *encResult) []string {
	if strings.Contains(e.name, "query") {
		*got = runEnc(e.run, x)
		return nil
	}
	viol, _ := withSlotHook(func() { *got = runEnc(e.run, x) })
	return viol
}

func withSlotHook(f func()) (violations []string, loads int) {
	ck := &slotChecker{owner: map[uintptr]uintptr{}}
	json.VerifSetHooks(json.VerifHooks{OnSlot: ck.slot, OnSlotRegion: ck.region, ExactPtrs: true})
	defer json.VerifSetHooks(json.VerifHooks{})
	f()
	return ck.violations, ck.loads
}

// ---- value construction ------------------------------------------------------------------------

type c08GC struct{ N int }

func (g c08GC) MarshalJSON() ([]byte, error) {
	runtime.GC()
	junk := make([]byte, 1<<20)
	junk[0] = 1
	var rec func(n int) int
	rec = func(n int) int {
		var pad [64]byte
		pad[0] = byte(n)
		if n == 0 {
			return int(pad[0])
		}
		return rec(n-1) + int(pad[0])&1
	}
	rec(10000)
	// (a callback that re-enters the library is part of C11's call alphabet: the slot
	// checker follows one pointer stack at a time)
	return []byte(fmt.Sprintf(`{"gc":%d}`, g.N+int(junk[1]))), nil
}

// c08Fill fills v; the recursive member goes down `depth` levels. Nilable
// positions and the dynamic type of interface members are explorer choices.
func c08Fill(v reflect.Value, root reflect.Type, depth int, ch *explore.Chooser) {
	t := v.Type()
	switch t.Kind() {
	case reflect.Int:
		v.SetInt(int64(depth + 1))
	case reflect.String:
		v.SetString("s")
	case reflect.Ptr:
		if t.Elem() == root || strings.HasSuffix(t.Elem().Name(), "Emb") || t.Elem().Name() == "C08B" || t.Elem().Name() == "C08A" {
			if depth <= 0 || ch.Deviate(2) == 1 {
				return
			}
			p := reflect.New(t.Elem())
			c08Fill(p.Elem(), root, depth-1, ch)
			v.Set(p)
			return
		}
		if ch.Deviate(2) == 1 {
			return
		}
		p := reflect.New(t.Elem())
		c08Fill(p.Elem(), root, depth, ch)
		v.Set(p)
	case reflect.Slice:
		if t.Elem() == root || (t.Elem().Kind() == reflect.Ptr && t.Elem().Elem() == root) {
			if depth <= 0 || ch.Deviate(2) == 1 {
				return
			}
			s := reflect.MakeSlice(t, 2, 2)
			c08Fill(s.Index(0), root, depth-1, ch)
			if t.Elem().Kind() != reflect.Ptr {
				c08Fill(s.Index(1), root, 0, ch)
			}
			v.Set(s)
			return
		}
		s := reflect.MakeSlice(t, 2, 2)
		for i := 0; i < 2; i++ {
			c08Fill(s.Index(i), root, depth, ch)
		}
		v.Set(s)
	case reflect.Map:
		if t.Elem().Kind() == reflect.Interface {
			m := map[string]interface{}{"k": 1, "z": []int{1}}
			if ch.Deviate(2) == 1 {
				m = nil
			}
			v.Set(reflect.ValueOf(m))
			return
		}
		if depth <= 0 || ch.Deviate(2) == 1 {
			return
		}
		m := reflect.MakeMap(t)
		e := reflect.New(t.Elem()).Elem()
		c08Fill(e, root, depth-1, ch)
		m.SetMapIndex(reflect.ValueOf("k"), e)
		if t.Elem().Kind() == reflect.Ptr {
			m.SetMapIndex(reflect.ValueOf("n"), reflect.Zero(t.Elem()))
		}
		v.Set(m)
	case reflect.Interface:
		switch ch.Deviate(5) {
		case 0:
			v.Set(reflect.ValueOf(depth))
		case 1: // nil
		case 2:
			if depth > 0 {
				x := reflect.New(root).Elem()
				c08Fill(x, root, depth-1, ch)
				v.Set(x)
			}
		case 3:
			if depth > 0 {
				x := reflect.New(root)
				c08Fill(x.Elem(), root, depth-1, ch)
				v.Set(x)
			}
		case 4:
			v.Set(reflect.ValueOf(c08GC{depth}))
		}
	case reflect.Struct:
		for i := 0; i < t.NumField(); i++ {
			if v.Field(i).CanSet() {
				c08Fill(v.Field(i), root, depth, ch)
			}
		}
	}
}

type c08Entry struct {
	name string
	run  func(x interface{}) ([]byte, error)
}

var c08Entries = []c08Entry{
	{"Marshal", func(x interface{}) ([]byte, error) { return json.Marshal(x) }},
	{"MarshalIndent", func(x interface{}) ([]byte, error) { return json.MarshalIndent(x, "", " ") }},
	{"Colorize", func(x interface{}) ([]byte, error) {
		return json.MarshalWithOption(x, json.Colorize(&json.ColorScheme{}))
	}},
	{"Colorize+Indent", func(x interface{}) ([]byte, error) {
		return json.MarshalIndentWithOption(x, "", " ", json.Colorize(&json.ColorScheme{}))
	}},
	{"Debug", func(x interface{}) ([]byte, error) { return json.MarshalWithOption(x, json.DebugWith(io.Discard)) }},
	{"MarshalNoEscape", func(x interface{}) ([]byte, error) { return json.MarshalNoEscape(x) }},
	// the programs compiled for a field query are separate programs: a query that selects every member of the root
	// struct (each one whole) must traverse the value exactly like Marshal
	{"MarshalContext+query of all members", func(x interface{}) ([]byte, error) {
		q := c08AllQuery(reflect.TypeOf(x))
		if q == nil {
			return json.Marshal(x)
		}
		return json.MarshalContext(json.SetFieldQueryToContext(context.Background(), q), x)
	}},
}

// c08AllQuery: a query naming every member of the struct t leads to (through pointers); nil when t does not lead
// to a struct or the struct embeds another (embedded structs are selected by type name, a rule of its own).
func c08AllQuery(t reflect.Type) *json.FieldQuery {
	if t == nil {
		return nil
	}
	for t.Kind() == reflect.Ptr {
		t = t.Elem()
	}
	if t.Kind() != reflect.Struct {
		return nil
	}
	q := &json.FieldQuery{}
	for i := 0; i < t.NumField(); i++ {
		f := t.Field(i)
		if f.Anonymous {
			return nil
		}
		if n, ok, _ := universe.JSONName(f); ok {
			q.Fields = append(q.Fields, &json.FieldQuery{Name: n})
		}
	}
	return q
}

// c08One encodes x through every interpreter with the slot hook armed and compares with encoding/json.
func c08One(c *work.Ctx, shape, id string, x interface{}) {
	for k := range c08Entries {
		e := &c08Entries[k]
		var got encResult
		viol := c08RunHooked(e, x, &got)
		what := ""
		switch {
		case len(viol) > 0:
			what = "encoder working memory: " + viol[0]
		case got.panicked:
			what = "panic:" + util.ErrClass(got.pmsg)
		default:
			kk := 0
			if strings.Contains(e.name, "Indent") {
				kk = 1
			}
			want := runEnc(c01Configs[kk].std, x)
			if !want.panicked {
				if (want.err == nil) != (got.err == nil) {
					what = "error-mismatch with encoding/json"
				} else if want.err == nil {
					if d := tokensEqualLoose(got.out, want.out); d != "" {
						what = "output differs from encoding/json: " + d
					}
				}
			}
		}
		c.Outcome(what)
		if what != "" {
			c.Violation(fmt.Sprintf("%s : %s", shape, what), id, fmt.Sprintf("%s: %s (output %s err=%v)", e.name, what, clip(got.out), got.err))
		}
	}
}

func tokensEqualLoose(a, b []byte) string {
	return oracleTokens(a, b)
}

func c08Shapes_(c *work.Ctx) {
	D := 1
	if !c.Quick() {
		D = 2
	}
	c.SelfSharded = true
	for si, sh := range c08Shapes {
		if si%c.NShards != c.Shard {
			continue
		}
		shape := fmt.Sprintf("struct{%s; R %s; %s}", sh.Pre, sh.R, sh.Post)
		for _, depth := range []int{0, 1, 2, 3} {
			ex := &explore.Explorer{Bound: D}
			ex.Run(func(ch *explore.Chooser) {
				p := reflect.New(sh.T)
				c08Fill(p.Elem(), sh.T, depth, ch)
				id := fmt.Sprintf("%s depth %d choices %v", sh.T.Name(), depth, ch.Choices())
				if !c.BeginS(id) {
					return
				}
				c08One(c, shape+" behind a pointer", id, p.Interface())
				if !universe.FatalEncodeShape(sh.T) {
					c08One(c, shape+" by value", id, p.Elem().Interface())
				}
				c08One(c, shape+" in interface{}", id, []interface{}{p.Interface()})
				if c.WantSample() {
					c.Sample(id)
				}
				c.EndCase()
			})
		}
	}
}

// ---- cycles -------------------------------------------------------------------------------------

type C08Tree struct {
	Name string
	Kids []C08Tree
}
type C08Dir struct {
	Name    string
	Entries map[string]C08Dir
}
type C08Arr struct {
	Name string
	Kids [][1]C08Arr
}

func c08Cycles(c *work.Ctx) {
	type mk struct {
		name string
		make func() interface{}
	}
	var cases []mk
	for _, sh := range c08Shapes {
		sh := sh
		if sh.Pre != "-" && sh.Pre != "int" && sh.Pre != "mapi" {
			continue
		}
		if sh.Post != "-" && sh.Post != "iface" {
			continue
		}
		shape := fmt.Sprintf("struct{%s; R %s; %s}", sh.Pre, sh.R, sh.Post)
		for _, length := range []int{1, 2} {
			length := length
			cases = append(cases, mk{fmt.Sprintf("%s cycle of length %d", shape, length), func() interface{} {
				a := reflect.New(sh.T)
				b := a
				if length == 2 {
					b = reflect.New(sh.T)
				}
				link := func(from, to reflect.Value) bool {
					f := from.Elem().FieldByName("R")
					if !f.IsValid() {
						// embedded pointer helper
						for i := 0; i < sh.T.NumField(); i++ {
							if sh.T.Field(i).Anonymous {
								e := reflect.New(sh.T.Field(i).Type.Elem())
								e.Elem().FieldByName("Back").Set(to)
								from.Elem().Field(i).Set(e)
								return true
							}
						}
						return false
					}
					switch f.Kind() {
					case reflect.Ptr:
						f.Set(to)
					case reflect.Slice:
						if f.Type().Elem().Kind() != reflect.Ptr {
							return false // a slice of values cannot contain itself
						}
						s := reflect.MakeSlice(f.Type(), 1, 1)
						s.Index(0).Set(to)
						f.Set(s)
					case reflect.Map:
						if f.Type().Elem().Kind() != reflect.Ptr {
							return false
						}
						m := reflect.MakeMap(f.Type())
						m.SetMapIndex(reflect.ValueOf("k"), to)
						f.Set(m)
					case reflect.Interface:
						f.Set(to)
					default:
						return false
					}
					return true
				}
				if !link(a, b) {
					return nil
				}
				if length == 2 && !link(b, a) {
					return nil
				}
				return a.Interface()
			}})
		}
	}
	// cycles through plain containers
	cases = append(cases,
		mk{"map[string]interface{} containing itself", func() interface{} {
			m := map[string]interface{}{}
			m["self"] = m
			return m
		}},
		mk{"[]interface{} containing itself", func() interface{} {
			s := make([]interface{}, 1)
			s[0] = s
			return s
		}},
		// cycles closed only through containers of struct VALUES: no pointer member and no interface on the cycle
		mk{"[]T whose backing array holds the struct that owns the slice", func() interface{} {
			kids := make([]C08Tree, 1)
			kids[0].Name = "n"
			kids[0].Kids = kids
			return kids
		}},
		mk{"struct{Kids []T} reached by value, its slice holding itself", func() interface{} {
			kids := make([]C08Tree, 2)
			kids[1].Kids = kids
			return kids[1]
		}},
		mk{"*struct{Kids []T}, the slice holding the pointee", func() interface{} {
			kids := make([]C08Tree, 1)
			kids[0].Kids = kids
			return &kids[0]
		}},
		mk{"map[string]T whose value struct holds the map", func() interface{} {
			m := map[string]C08Dir{}
			m["self"] = C08Dir{Name: "d", Entries: m}
			return C08Dir{Entries: m}
		}},
		mk{"map[string]T itself, a value struct holding the map", func() interface{} {
			m := map[string]C08Dir{}
			m["self"] = C08Dir{Entries: m}
			return m
		}},
		mk{"[][1]T holding the struct that owns the slice", func() interface{} {
			kids := make([][1]C08Arr, 1)
			kids[0][0].Kids = kids
			return kids
		}},
		mk{"mutual recursion A<->B cycle", func() interface{} {
			a := &C08A{N: 1}
			a.B = &C08B{A: a}
			return a
		}},
		mk{"interface member holding a pointer to its owner", func() interface{} {
			a := &C08A{N: 1}
			a.B = &C08B{If: a}
			return a
		}},
	)
	for _, cs := range cases {
		for k := range c08Entries {
			e := &c08Entries[k]
			if e.name == "MarshalNoEscape" {
				// its behaviour on cyclic values depends on stack addresses (observed: error, nil
				// dereference or a fault, varying from run to run); not decidable deterministically
				continue
			}
			id := cs.name + " via " + e.name
			if !c.BeginS(id) {
				continue
			}
			x := cs.make()
			if x != nil {
				var got encResult
				viol := c08RunHooked(e, x, &got)
				what := ""
				switch {
				case len(viol) > 0:
					what = "encoder working memory: " + viol[0]
				case got.panicked:
					what = "panic:" + util.ErrClass(got.pmsg)
				case got.err == nil:
					what = fmt.Sprintf("no error for a cyclic value (%d bytes of output)", len(got.out))
				}
				c.Outcome(what)
				if what != "" {
					c.Violation(fmt.Sprintf("cycle : %s : %s", cs.name, what), id, what)
				}
				c.Sample(id)
			}
			c.EndCase()
		}
	}
}

// ---- deep acyclic values ---------------------------------------------------------------------------

func c08Deep(c *work.Ctx) {
	depths := []int{999, 1000, 1001, 2000}
	for _, sh := range c08Shapes {
		if sh.Pre != "-" || sh.Post != "-" {
			continue
		}
		if sh.R != "ptr" && sh.R != "slice" && sh.R != "map" && sh.R != "pslice" {
			continue
		}
		for _, d := range depths {
			id := fmt.Sprintf("struct{R %s} nested %d deep", sh.R, d)
			if !c.BeginS(id) {
				continue
			}
			p := reflect.New(sh.T)
			c08Fill(p.Elem(), sh.T, d, explore.Replay(nil))
			for k := range c08Entries[:2] {
				e := &c08Entries[k]
				got := runEnc(e.run, p.Interface())
				want := runEnc(c01Configs[k].std, p.Interface())
				what := ""
				switch {
				case got.panicked:
					what = "panic:" + util.ErrClass(got.pmsg)
				case !want.panicked && (want.err == nil) != (got.err == nil):
					what = fmt.Sprintf("error-mismatch with encoding/json (go-json err=%v, encoding/json err=%v)", got.err != nil, want.err != nil)
				case !want.panicked && want.err == nil && len(got.out) != len(want.out) && k == 0:
					what = "output length differs from encoding/json"
				}
				c.Outcome(what)
				if what != "" {
					c.Violation(fmt.Sprintf("deep value : struct{R %s} : %s : %s", sh.R, e.name, strings.SplitN(what, " (", 2)[0]), id, what)
				}
			}
			c.Sample(id)
			c.EndCase()
		}
	}
}

// ---- deep acyclic values that are not trees -----------------------------------------------------------
//
// Beyond 1000 nested frames the encoder starts looking for cycles by remembering addresses. A DAG (a sub-value
// reached twice), nil and non-nil interface members, and an interface member that shares its address with the
// struct it opens are acyclic and must encode like in encoding/json at every depth.

type c08DagN struct {
	L, R *c08DagN
	V    interface{}
}
type c08DagP struct {
	V    interface{} // first member: its address is the struct's address
	Next *c08DagP
}
type c08DagLeaf struct{ V interface{} }
type c08ValA struct {
	B    c08ValB // by value and first: it has the address of its owner
	Kids []c08ValA
}
type c08ValB struct{ As []c08ValA }
type c08DagQ struct {
	Next *c08DagQ
	A, B *c08DagLeaf
}

func init() {
	work.Register("C08", "c08.dag", c08Dag)
	work.Register("C01", "c01.deep", c08Dag)
}

func c08Dag(c *work.Ctx) {
	depths := []int{10, 999, 1000, 1001, 1002, 1100, 2000}
	type shape struct {
		name string
		mk   func(d int) interface{}
	}
	shapes := []shape{
		{"chain of N{L,R,V}, the last L and R share a node, V nil", func(d int) interface{} {
			leaf := &c08DagN{}
			n := &c08DagN{L: leaf, R: leaf}
			for i := 0; i < d; i++ {
				n = &c08DagN{L: n}
			}
			return n
		}},
		{"chain of N{L,R,V}, the last L and R share a node, V non-nil", func(d int) interface{} {
			leaf := &c08DagN{V: 1}
			n := &c08DagN{L: leaf, R: leaf, V: "x"}
			for i := 0; i < d; i++ {
				n = &c08DagN{L: n, V: i}
			}
			return n
		}},
		{"list of P{V interface{}; Next}, V non-nil", func(d int) interface{} {
			var n *c08DagP
			for i := 0; i < d; i++ {
				n = &c08DagP{V: i, Next: n}
			}
			return n
		}},
		{"list of P{V interface{}; Next}, V nil", func(d int) interface{} {
			var n *c08DagP
			for i := 0; i < d; i++ {
				n = &c08DagP{Next: n}
			}
			return n
		}},
		{"chain of Q{Next,A,B}, the last A and B share a leaf with a nil interface", func(d int) interface{} {
			leaf := &c08DagLeaf{}
			n := &c08DagQ{A: leaf, B: leaf}
			for i := 0; i < d; i++ {
				n = &c08DagQ{Next: n}
			}
			return n
		}},
		{"recursive struct reached only through an embedded member", func(d int) interface{} {
			n := &universe.RecKid{Name: "leaf"}
			for i := 0; i < d && i < 50; i++ {
				n = &universe.RecKid{Name: "n", Val: i, Kids: []*universe.RecKid{n}}
			}
			return universe.EmbRec{RecKid: *n, Name: "outer"}
		}},
		{"A{B B; Kids []A}, B{As []A}: a recursive struct by value as the first member of another", func(d int) interface{} {
			n := c08ValA{}
			for i := 0; i < d; i++ {
				n = c08ValA{Kids: []c08ValA{n}}
			}
			return n
		}},
		{"B{As []A} at the top, A{B B; Kids []A} below: a recursive struct by value as the first member of another", func(d int) interface{} {
			n := c08ValA{}
			for i := 0; i < d; i++ {
				n = c08ValA{Kids: []c08ValA{n}}
			}
			return c08ValB{As: []c08ValA{n}}
		}},
		{"A{B B; Kids []A}, B{As []A}: the chain runs through the by-value member", func(d int) interface{} {
			n := c08ValA{}
			for i := 0; i < d; i++ {
				n = c08ValA{B: c08ValB{As: []c08ValA{n}}}
			}
			return &n
		}},
		{"list of F{V float64; I; Next} that failed (NaN in its last node) a call earlier and has been repaired", func(d int) interface{} {
			n := c08FailingList(d)
			_, _ = json.Marshal(n)
			_, _ = json.MarshalIndent(n, "", " ")
			last := n
			for last.Next != nil {
				last = last.Next
			}
			last.V = 2
			return n
		}},
		{"[]interface{} nested, every level holds the same nil-interface leaf twice", func(d int) interface{} {
			leaf := &c08DagLeaf{}
			var v interface{} = []interface{}{leaf, leaf}
			for i := 0; i < d; i++ {
				v = []interface{}{v, leaf}
			}
			return v
		}},
	}
	for _, sh := range shapes {
		for _, d := range depths {
			id := fmt.Sprintf("%s, %d deep", sh.name, d)
			if !c.BeginS(id) {
				continue
			}
			x := sh.mk(d)
			for k := range c08Entries[:2] {
				e := &c08Entries[k]
				// twice: the second call meets whatever the first one left in the pooled context; before the first,
				// a call that FAILS at the bottom of a list of the same depth (its frames are still open when it gives up)
				failing := c08FailingList(d)
				for round := 0; round < 2; round++ {
					_ = runEnc(e.run, failing)
					_ = runEnc(e.run, failing)
					got := runEnc(e.run, x)
					want := runEnc(c01Configs[k].std, x)
					what := ""
					switch {
					case got.panicked:
						what = "panic:" + util.ErrClass(got.pmsg)
					case !want.panicked && (want.err == nil) != (got.err == nil):
						what = fmt.Sprintf("error-mismatch with encoding/json (go-json err=%v, encoding/json err=%v)", got.err, want.err)
					case !want.panicked && want.err == nil && k == 0 && oracle.TokensEqual(got.out, want.out) != "":
						what = "output differs from encoding/json"
					}
					c.Outcome(what)
					if what != "" {
						dd := "depth <= 1000"
						if d > 1000 {
							dd = "depth > 1000"
						}
						c.Violation(fmt.Sprintf("deep acyclic value : %s : %s : %s : %s", sh.name, dd, e.name, strings.SplitN(what, " (", 2)[0]), id, what)
						break
					}
				}
			}
			c.Sample(id)
			c.EndCase()
		}
	}
}

type c08FailN struct {
	V    float64
	I    interface{}
	Next *c08FailN
}

// c08FailingList: d nodes, the last one holds a NaN (no JSON text: the call fails d frames deep).
func c08FailingList(d int) *c08FailN {
	n := &c08FailN{V: math.NaN()}
	for i := 0; i < d; i++ {
		n = &c08FailN{V: 1, Next: n}
	}
	return n
}

func oracleTokens(a, b []byte) string { return oracle.TokensEqual(a, b) }
