package props

import (
	"bytes"
	"fmt"
	"reflect"
	"strings"

	stdjson "encoding/json"

	json "github.com/goccy/go-json"

	"verif/mc/work"
)

// c13.depth — the nesting limit is one limit.
//
// The text a Marshaler or a RawMessage returns is checked and re-formatted by a different routine in each of the
// four interpreters (compacting vs indenting, plain vs coloured). A text nested exactly as deep as the limit allows
// (10000 containers), one level less and one level more must be accepted or refused by ALL ways of requesting the
// encoding alike, and where it is accepted the relations of C13 hold (MarshalIndent == Indent(Marshal), ...).
// Texts of nested arrays, nested objects and alternating containers, delivered by a RawMessage, by a MarshalJSON
// method, and by both as struct member, slice element and map value; top level, behind a pointer, in an interface.

func init() {
	work.Register("C13", "c13.depth", c13Depth)
}

type c13DeepM struct{ text string }

func (m c13DeepM) MarshalJSON() ([]byte, error) { return []byte(m.text), nil }

func c13Depth(c *work.Ctx) {
	depths := []int{9999, 10000, 10001}
	if !c.Quick() {
		depths = append(depths, 1, 2, 4999, 5000, 9997, 9998, 10002, 10003, 20000)
	}
	shapes := []struct {
		name string
		mk   func(d int) string
	}{
		{"arrays", func(d int) string { return strings.Repeat("[", d) + "1" + strings.Repeat("]", d) }},
		{"objects", func(d int) string { return strings.Repeat(`{"a":`, d) + "1" + strings.Repeat("}", d) }},
		{"alternating", func(d int) string {
			var a, b strings.Builder
			for i := 0; i < d; i++ {
				if i%2 == 0 {
					a.WriteString("[")
				} else {
					a.WriteString(`{"k":`)
				}
			}
			for i := d - 1; i >= 0; i-- {
				if i%2 == 0 {
					b.WriteString("]")
				} else {
					b.WriteString("}")
				}
			}
			return a.String() + "null" + b.String()
		}},
	}
	for _, sh := range shapes {
		for _, d := range depths {
			text := sh.mk(d)
			vals := []struct {
				name string
				v    interface{}
			}{
				{"RawMessage", stdjson.RawMessage(text)},
				{"MarshalJSON", c13DeepM{text}},
				{"struct{A int; R RawMessage; M MarshalJSON}", struct {
					A int
					R stdjson.RawMessage
					M c13DeepM
				}{1, stdjson.RawMessage(text), c13DeepM{"7"}}},
				{"[]RawMessage", []stdjson.RawMessage{stdjson.RawMessage("1"), stdjson.RawMessage(text)}},
				{"map[string]MarshalJSON", map[string]c13DeepM{"k": {text}}},
			}
			for _, vl := range vals {
				id := fmt.Sprintf("%s whose text is %d nested %s", vl.name, d, sh.name)
				if !c.BeginS(id) {
					continue
				}
				v := reflect.ValueOf(vl.v)
				for p := 0; p < 3; p++ {
					x := place(v, p)
					report := func(rel, kind, detail string) {
						c.Outcome(rel + kind)
						c.Violation(fmt.Sprintf("nesting limit : %s : %s : %s : %s", rel, vl.name, sh.name, kind), fmt.Sprintf("%s %s", placeNames[p], id), clipS(detail, 300))
					}
					plain := runEnc(func(x interface{}) ([]byte, error) { return json.Marshal(x) }, x)
					if plain.panicked {
						report("Marshal", "panic", plain.pmsg)
						continue
					}
					// every non-indenting way: the same verdict, the same bytes (the carriers have no HTML characters and
					// at most one map member, so DisableHTMLEscape and UnorderedMap must give Marshal's bytes as well)
					vs := append([]variant{
						{"UnorderedMap", func(x interface{}) ([]byte, error) { return json.MarshalWithOption(x, json.UnorderedMap()) }, nil},
						{"DisableHTMLEscape", func(x interface{}) ([]byte, error) { return json.MarshalWithOption(x, json.DisableHTMLEscape()) }, nil},
					}, c13Variants...)
					for _, vr := range vs {
						r := runEnc(vr.run, x)
						c.Count("depth_relations", 1)
						out := r.out
						if vr.norm != nil && r.err == nil && !r.panicked {
							out = vr.norm(append([]byte(nil), out...))
						}
						switch {
						case r.panicked:
							report(vr.name, "panic", r.pmsg)
						case (r.err == nil) != (plain.err == nil):
							report(vr.name, "error-mismatch", fmt.Sprintf("%s err=%v, Marshal err=%v", vr.name, r.err, plain.err))
						case r.err == nil && !bytes.Equal(out, plain.out):
							report(vr.name, "bytes-differ", fmt.Sprintf("%s gives %d bytes, Marshal %d bytes", vr.name, len(out), len(plain.out)))
						}
					}
					// every indenting way: the same verdict as Marshal; the bytes of Indent(Marshal) (encoding/json's Indent as
					// the neutral formatter where it accepts the text, else the library's own)
					var want []byte
					if plain.err == nil {
						var wb bytes.Buffer
						if stdjson.Indent(&wb, plain.out, "", " ") == nil {
							want = wb.Bytes()
						} else {
							wb.Reset()
							if json.Indent(&wb, plain.out, "", " ") == nil {
								want = wb.Bytes()
							} else {
								c.Count("plain_output_not_indentable", 1)
							}
						}
					}
					ivs := []variant{
						{"MarshalIndent", func(x interface{}) ([]byte, error) { return json.MarshalIndent(x, "", " ") }, nil},
						{"MarshalIndent+UnorderedMap", func(x interface{}) ([]byte, error) {
							return json.MarshalIndentWithOption(x, "", " ", json.UnorderedMap())
						}, nil},
						{"MarshalIndent+Colorize(marked scheme)", func(x interface{}) ([]byte, error) {
							return json.MarshalIndentWithOption(x, "", " ", json.Colorize(c13Marked))
						}, c13Strip},
						{"Encoder.SetIndent", func(x interface{}) ([]byte, error) {
							var b bytes.Buffer
							e := json.NewEncoder(&b)
							e.SetIndent("", " ")
							err := e.Encode(x)
							return b.Bytes(), err
						}, trimNL},
					}
					for _, vr := range ivs {
						r := runEnc(vr.run, x)
						c.Count("depth_relations", 1)
						out := r.out
						if vr.norm != nil && r.err == nil && !r.panicked {
							out = vr.norm(append([]byte(nil), out...))
						}
						switch {
						case r.panicked:
							report(vr.name, "panic", r.pmsg)
						case (r.err == nil) != (plain.err == nil):
							report(vr.name, "error-mismatch", fmt.Sprintf("%s err=%v, Marshal err=%v", vr.name, r.err, plain.err))
						case r.err == nil && want != nil && !bytes.Equal(out, want):
							report(vr.name, "bytes-differ", fmt.Sprintf("%s gives %d bytes, Indent(Marshal) %d bytes", vr.name, len(out), len(want)))
						}
					}
				}
				c.Outcome("ok")
				c.EndCase()
			}
		}
	}
}

func clipS(s string, n int) string {
	if len(s) > n {
		return s[:n] + "..."
	}
	return s
}
