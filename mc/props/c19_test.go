package props

import (
	"testing"

	json "github.com/goccy/go-json"
)

type qtX struct {
	XA int
	XB string
	XC *qtY
	XD bool
	XE float32
}
type qtY struct {
	YA int
	YB string
	YC *qtZ
	YD bool
	YE float32
}
type qtZ struct {
	ZA string
	ZB bool
	ZC int
}

// The reference projector must reproduce the expectation of the repository's query_test.go.
func TestProjectAgainstRepositoryExpectation(t *testing.T) {
	q := &json.FieldQuery{Fields: []*json.FieldQuery{{Name: "XA"}, {Name: "XB"}, {Name: "XC", Fields: []*json.FieldQuery{{Name: "YA"}, {Name: "YB"}, {Name: "YC", Fields: []*json.FieldQuery{{Name: "ZA"}, {Name: "ZB"}}}}}}}
	v := &qtX{XA: 1, XB: "xb", XC: &qtY{YA: 2, YB: "yb", YC: &qtZ{ZA: "za", ZB: true, ZC: 3}, YD: true, YE: 4}, XD: true, XE: 5}
	got, err := c19Expected(v, q)
	want := `{"XA":1,"XB":"xb","XC":{"YA":2,"YB":"yb","YC":{"ZA":"za","ZB":true}}}`
	if err != nil || got != want {
		t.Fatalf("got %s err=%v want %s", got, err, want)
	}
}
