//go:build !vshim
// +build !vshim

package props

import (
	"fmt"
	"os"
	"regexp"
	"runtime"
	"strings"
	"sync"

	json "github.com/goccy/go-json"

	"verif/mc/work"
)

// C10, supplementary pass: the same call bodies as the scheduler harness, run
// by real goroutines on the real race build (-race, real sync package, no
// shim). The cooperative scheduler's hand-offs are happens-before edges, so
// the race detector is blind there; this free-running pass is what finds
// unsynchronised accesses to locations that carry no hook (a field of a cached
// decoder or opcode set, a new package-level scratch variable). It is not the
// deciding exploration (its schedules are whatever the Go scheduler produces);
// a report is nevertheless a genuine defect: the detector has no false
// positives.

func init() {
	work.Register("C10", "c10.free", func(c *work.Ctx) { c10Free(c, false) })
	work.Register("C20", "c20.free", func(c *work.Ctx) { c10Free(c, true) })
}

var reRaceFrame = regexp.MustCompile(`^\s+(github\.com/goccy/go-json[^\s(]*(?:\([^)]*\))?[^\s(]*)\(`)

// raceReports parses the detector's log: one string per report, naming for
// both accesses the kind and the innermost frame inside the library.
func raceReports(log string) []string {
	var out []string
	for _, rep := range strings.Split(log, "==================") {
		if !strings.Contains(rep, "WARNING: DATA RACE") {
			continue
		}
		var parts []string
		lines := strings.Split(rep, "\n")
		for i := 0; i < len(lines); i++ {
			l := lines[i]
			kind := ""
			switch {
			case strings.HasPrefix(l, "Write at"), strings.HasPrefix(l, "Previous write at"):
				kind = "write"
			case strings.HasPrefix(l, "Read at"), strings.HasPrefix(l, "Previous read at"):
				kind = "read"
			case strings.HasPrefix(l, "Atomic write at"), strings.HasPrefix(l, "Previous atomic write at"):
				kind = "atomic-write"
			case strings.HasPrefix(l, "Atomic read at"), strings.HasPrefix(l, "Previous atomic read at"):
				kind = "atomic-read"
			}
			if kind == "" {
				continue
			}
			fn := "outside the library"
			for j := i + 1; j < len(lines) && strings.TrimSpace(lines[j]) != ""; j++ {
				if m := reRaceFrame.FindStringSubmatch(lines[j]); m != nil {
					fn = strings.TrimPrefix(m[1], "github.com/goccy/go-json")
					fn = strings.TrimPrefix(fn, "/internal/")
					fn = strings.TrimPrefix(fn, ".")
					break
				}
			}
			parts = append(parts, kind+" in "+fn)
		}
		if len(parts) >= 2 {
			// the two accesses, order-independent
			a, b := parts[0], parts[1]
			if b < a {
				a, b = b, a
			}
			out = append(out, a+" / "+b)
		}
	}
	return out
}

func c10Free(c *work.Ctx, pathOnly bool) {
	logBase := os.Getenv("VERIF_RACELOG")
	if logBase == "" {
		c.HarnessError("VERIF_RACELOG is not set: the free-running pass needs the race detector's log")
		return
	}
	logPath := fmt.Sprintf("%s.%d", logBase, os.Getpid())
	var logOff int64
	newReports := func() []string {
		b, err := os.ReadFile(logPath)
		if err != nil || int64(len(b)) <= logOff {
			return nil
		}
		s := string(b[logOff:])
		logOff = int64(len(b))
		return raceReports(s)
	}
	calls := c10Calls()
	rounds := 6
	if !c.Quick() {
		rounds = 40
	}
	cold := make([]string, len(calls))
	for i, cl := range calls {
		json.VerifResetCaches()
		cold[i] = cl.run(nil, c10Fresh())
	}
	type scen struct{ idx []int }
	var scens []scen
	for a := 0; a < len(calls); a++ {
		for b := a; b < len(calls); b++ {
			isPath := strings.HasPrefix(calls[a].name, "Path.") && strings.HasPrefix(calls[b].name, "Path.")
			if pathOnly != isPath {
				continue
			}
			scens = append(scens, scen{[]int{a, b}})
			// four goroutines; in C10 a Path is used by one goroutine only (sharing a Path is C20's clause)
			if pathOnly || !(strings.HasPrefix(calls[a].name, "Path.") || strings.HasPrefix(calls[b].name, "Path.")) {
				scens = append(scens, scen{[]int{a, b, a, b}})
			}
		}
	}
	c.SelfSharded = true
	seenRep := map[string]bool{}
	for si, sc := range scens {
		if si%c.NShards != c.Shard {
			continue
		}
		var names []string
		for _, i := range sc.idx {
			names = append(names, calls[i].name)
		}
		sname := strings.Join(names, " || ")
		if !c.BeginS("free-running: " + sname) {
			continue
		}
		for r := 0; r < rounds; r++ {
			// even rounds start from cold caches (first use of every type inside the goroutines)
			if r%2 == 0 {
				json.VerifResetCaches()
				runtime.GC() // empties the sync.Pools
			}
			// every third round starts from what failed calls leave behind
			if r%3 == 2 {
				c10Prologue()
			}
			sh := c10Fresh()
			got := make([]string, len(sc.idx))
			start := make(chan struct{})
			var wg sync.WaitGroup
			for k, ci := range sc.idx {
				k, ci := k, ci
				wg.Add(1)
				go func() {
					defer wg.Done()
					defer func() {
						if p := recover(); p != nil {
							got[k] = fmt.Sprintf("PANIC %v", p)
						}
					}()
					<-start
					got[k] = calls[ci].run(func(string) { runtime.Gosched() }, sh)
				}()
			}
			close(start)
			wg.Wait()
			c.Count("free_running_rounds", 1)
			for k, ci := range sc.idx {
				c.Outcome(got[k])
				if got[k] != cold[ci] {
					c.Violation(fmt.Sprintf("free-running goroutines: result differs from the call alone : %s : %s", sname, calls[ci].name), sname,
						fmt.Sprintf("goroutine %d (%s) got %s ; alone it gives %s", k, calls[ci].name, clip([]byte(got[k])), clip([]byte(cold[ci]))))
				}
			}
		}
		for _, rep := range newReports() {
			c.Count("race_detector_reports", 1)
			if seenRep[rep] {
				continue // one case per report class and worker process
			}
			seenRep[rep] = true
			c.Violation("race detector: "+rep, sname, "reported by the Go race detector while running "+sname+" with free-running goroutines on the -race build")
		}
		c.EndCase()
	}
}
