//go:build vshim
// +build vshim

package props

import (
	"bytes"
	"fmt"
	"io"
	"reflect"
	"strings"

	json "github.com/goccy/go-json"

	"verif/mc/props/util"
	"verif/mc/work"
)

// c11.handles — a Decoder (Encoder) that is reused behaves, at every step, like a fresh one: every sequence of
// steps on ONE handle is compared step by step with a fresh handle given the same step. For the Decoder the fresh
// handle reads exactly the bytes the reused one has not consumed yet (what Buffered() still holds followed by
// what the underlying reader has left), so the reference needs no model of how much a failing step consumes.
//
// Steps pair a document with a destination; the destinations include the ones Decode must reject (nil pointer,
// non-pointer, nil) and several types of identical layout, so that a decoder wrongly kept from an earlier step
// decodes "successfully" into the wrong program's idea of the value.

func init() {
	work.Register("C11", "c11.handles", c11Handles)
	// C14's clause "whatever types the program has processed before": a Decoder that has decoded (or refused)
	// another type must apply the new type's own program
	work.Register("C14", "c14.handles", c11Handles)
}

type c11HA struct {
	ID   int    `json:"id"`
	Name string `json:"name"`
}

type c11HB struct {
	Seq  int    `json:"seq"`
	Note string `json:"note"`
}

type c11HC struct {
	ID   int    `json:"seq"` // B's keys, A's field names
	Name string `json:"note"`
}

type c11Dest struct {
	name string
	mk   func() interface{}
}

var c11Dests = []c11Dest{
	{"&A", func() interface{} { return &c11HA{ID: -1, Name: "pre"} }},
	{"&B", func() interface{} { return &c11HB{Seq: -1, Note: "pre"} }},
	{"&C", func() interface{} { return &c11HC{ID: -1, Name: "pre"} }},
	{"(*B)(nil)", func() interface{} { return (*c11HB)(nil) }},
	{"(*A)(nil)", func() interface{} { return (*c11HA)(nil) }},
	{"B (not a pointer)", func() interface{} { return c11HB{} }},
	{"nil", func() interface{} { return nil }},
	{"&interface{}", func() interface{} { var v interface{}; return &v }},
	{"&[]int", func() interface{} { return &[]int{9} }},
	{"&map[string]interface{}", func() interface{} { return &map[string]interface{}{} }},
}

var c11HDocs = []string{
	`{"id":1,"name":"a","seq":7,"note":"ok"}`,
	`{"seq":8,"note":"n2"} `,
	`[1,2,3]`,
	`{"id":"wrong type","seq":[1]}`,
	`{"id":1,`, // truncated: the stream ends inside this document
}

func c11Render(v interface{}, err error) string {
	var s string
	if v == nil {
		s = "<nil>"
	} else if rv := reflect.ValueOf(v); rv.Kind() == reflect.Ptr {
		if rv.IsNil() {
			s = "nil pointer"
		} else {
			s = fmt.Sprintf("%+v", rv.Elem().Interface())
		}
	} else {
		s = fmt.Sprintf("%+v", v)
	}
	if err != nil {
		return s + " error:" + util.ErrClass(err.Error())
	}
	return s
}

// posReader remembers how much of the input the decoder has pulled.
type posReader struct {
	data []byte
	pos  int
	max  int // bytes per Read
}

func (r *posReader) Read(p []byte) (int, error) {
	if r.pos >= len(r.data) {
		return 0, io.EOF
	}
	n := len(p)
	if r.max > 0 && n > r.max {
		n = r.max
	}
	n = copy(p[:n], r.data[r.pos:])
	r.pos += n
	return n, nil
}

func c11Handles(c *work.Ctx) {
	depth := 3
	if !c.Quick() {
		depth = 4
	}
	type step struct{ doc, dst int }
	var steps []step
	for d := range c11HDocs {
		for t := range c11Dests {
			steps = append(steps, step{d, t})
		}
	}
	n := len(steps)
	c.SelfSharded = true
	idx := make([]int, depth)
	var ord int
	for l := 2; l <= depth; l++ {
		for i := range idx[:l] {
			idx[i] = 0
		}
		for {
			if ord%c.NShards == c.Shard {
				for _, piece := range []int{0, 5} {
					var names []string
					var input []byte
					for _, k := range idx[:l] {
						names = append(names, fmt.Sprintf("%s<-%s", c11Dests[steps[k].dst].name, strings.TrimSpace(c11HDocs[steps[k].doc])))
						input = append(input, c11HDocs[steps[k].doc]...)
						input = append(input, ' ')
					}
					id := fmt.Sprintf("Decoder (reads of %d bytes): %s", piece, strings.Join(names, " ; "))
					if !c.BeginS(id) {
						continue
					}
					c11Reset()
					pr := &posReader{data: input, max: piece}
					dec := json.NewDecoder(pr)
					for si, k := range idx[:l] {
						// what a fresh Decoder would see
						var rest []byte
						if p, _ := util.Safe(func() { rest, _ = io.ReadAll(dec.Buffered()) }); p {
							rest = nil
						}
						rest = append(rest, input[pr.pos:]...)
						dst, ref := c11Dests[steps[k].dst].mk(), c11Dests[steps[k].dst].mk()
						var got, want string
						if p, msg := util.Safe(func() { got = c11Render(dst, dec.Decode(dst)) }); p {
							got = "PANIC:" + util.ErrClass(msg)
						}
						if p, msg := util.Safe(func() { want = c11Render(ref, json.NewDecoder(bytes.NewReader(rest)).Decode(ref)) }); p {
							want = "PANIC:" + util.ErrClass(msg)
						}
						c.Count("decoder_steps", 1)
						c.Outcome(got)
						if got != want {
							prev := "the first step"
							if si > 0 {
								prev = "after " + names[si-1]
							}
							c.Violation(fmt.Sprintf("reused Decoder : step %s %s differs from a fresh Decoder on the remaining input", names[si], prev), id,
								fmt.Sprintf("step %d of [%s]: the reused Decoder gives %s ; a fresh Decoder on the remaining input %q gives %s", si+1, id, got, clip(rest), want))
							break
						}
					}
					if json.VerifPoolDoublePuts() > 0 {
						c.Violation("pool : a Decoder sequence puts an object into a pool twice", id, id)
					}
					if c.WantSample() {
						c.Sample(id)
					}
					c.EndCase()
				}
			}
			ord++
			k := l - 1
			for k >= 0 {
				idx[k]++
				if idx[k] < n {
					break
				}
				idx[k] = 0
				k--
			}
			if k < 0 {
				break
			}
		}
	}
	c11EncoderHandles(c)
}

// c11EncoderHandles: an Encoder reused after failing or differently configured steps writes what a fresh Encoder
// with the same settings writes.
func c11EncoderHandles(c *work.Ctx) {
	type est struct {
		name string
		run  func(e *json.Encoder) error
	}
	cyc := &c11Mixed{A: 1}
	cyc.P = cyc
	val := c11HA{ID: 1, Name: "a<b"}
	steps := []est{
		{"Encode(struct)", func(e *json.Encoder) error { return e.Encode(val) }},
		{"Encode(map)", func(e *json.Encoder) error { return e.Encode(map[string]interface{}{"b": 1, "a": []int{1}}) }},
		{"Encode(marshaler error)", func(e *json.Encoder) error { return e.Encode(c11Mixed{A: 1, E: []c11Err{{1}}}) }},
		{"Encode(cyclic)", func(e *json.Encoder) error { return e.Encode(cyc) }},
		{"Encode(chan)", func(e *json.Encoder) error { return e.Encode(make(chan int)) }},
		{"SetIndent(>,tab)", func(e *json.Encoder) error { e.SetIndent(">", "\t"); return nil }},
		{"SetIndent(,)", func(e *json.Encoder) error { e.SetIndent("", ""); return nil }},
		{"SetEscapeHTML(false)", func(e *json.Encoder) error { e.SetEscapeHTML(false); return nil }},
		{"SetEscapeHTML(true)", func(e *json.Encoder) error { e.SetEscapeHTML(true); return nil }},
		{"EncodeWithOption(UnorderedMap+Colorize)", func(e *json.Encoder) error {
			return e.EncodeWithOption(map[string]int{"only": 1}, json.UnorderedMap(), json.Colorize(json.DefaultColorScheme))
		}},
	}
	depth := 3
	if !c.Quick() {
		depth = 4
	}
	n := len(steps)
	idx := make([]int, depth)
	var ord int
	for l := 2; l <= depth; l++ {
		for i := range idx[:l] {
			idx[i] = 0
		}
		for {
			if ord%c.NShards == c.Shard {
				var names []string
				for _, k := range idx[:l] {
					names = append(names, steps[k].name)
				}
				id := "Encoder: " + strings.Join(names, " ; ")
				if c.BeginS(id) {
					c11Reset()
					var w bytes.Buffer
					enc := json.NewEncoder(&w)
					for si, k := range idx[:l] {
						w.Reset()
						var got, want string
						if p, msg := util.Safe(func() { got = r2(nil, steps[k].run(enc)) + w.String() }); p {
							got = "PANIC:" + util.ErrClass(msg)
						}
						// the reference: a fresh Encoder brought to the same settings by replaying the setters only
						var w2 bytes.Buffer
						ref := json.NewEncoder(&w2)
						for _, kk := range idx[:si] {
							if strings.HasPrefix(steps[kk].name, "Set") {
								steps[kk].run(ref)
							}
						}
						if p, msg := util.Safe(func() { want = r2(nil, steps[k].run(ref)) + w2.String() }); p {
							want = "PANIC:" + util.ErrClass(msg)
						}
						c.Count("encoder_steps", 1)
						if got != want {
							c.Violation(fmt.Sprintf("reused Encoder : %s after %s differs from a fresh Encoder with the same settings", names[si], strings.Join(names[:si], " ; ")), id,
								fmt.Sprintf("step %d of [%s]: reused %q ; fresh %q", si+1, id, clip([]byte(got)), clip([]byte(want))))
							break
						}
					}
					if json.VerifPoolDoublePuts() > 0 {
						c.Violation("pool : an Encoder sequence puts an object into a pool twice", id, id)
					}
					c.EndCase()
				}
			}
			ord++
			k := l - 1
			for k >= 0 {
				idx[k]++
				if idx[k] < n {
					break
				}
				idx[k] = 0
				k--
			}
			if k < 0 {
				break
			}
		}
	}
}
