package props

import (
	"bytes"
	"context"
	stdjson "encoding/json"
	"fmt"
	"reflect"
	"strings"
	"unicode/utf8"

	json "github.com/goccy/go-json"

	"verif/mc/oracle"
	"verif/mc/props/util"
	"verif/mc/universe"
	"verif/mc/work"
)

// C03 — every successful encode is exactly one well-formed JSON text.

func init() {
	work.Register("C03", "c03.types", c03Types)
	work.Register("C03", "c03.bytes", c03Bytes)
}

type c03Entry struct {
	name     string
	normUTF8 bool
	newline  bool
	run      func(x interface{}) ([]byte, error)
}

func c03Entries() []c03Entry {
	var out []c03Entry
	optNames := []string{"DisableHTMLEscape", "DisableNormalizeUTF8", "UnorderedMap"}
	mk := []func() json.EncodeOptionFunc{json.DisableHTMLEscape, json.DisableNormalizeUTF8, json.UnorderedMap}
	for mask := 0; mask < 8; mask++ {
		var opts []json.EncodeOptionFunc
		name := ""
		for i := 0; i < 3; i++ {
			if mask&(1<<i) != 0 {
				opts = append(opts, mk[i]())
				name += "+" + optNames[i]
			}
		}
		norm := mask&2 == 0
		o := opts
		out = append(out,
			c03Entry{"MarshalWithOption" + name, norm, false, func(x interface{}) ([]byte, error) { return json.MarshalWithOption(x, o...) }},
			c03Entry{"MarshalIndentWithOption" + name, norm, false, func(x interface{}) ([]byte, error) { return json.MarshalIndentWithOption(x, "", " ", o...) }},
			c03Entry{"MarshalContext" + name, norm, false, func(x interface{}) ([]byte, error) { return json.MarshalContext(context.Background(), x, o...) }},
			c03Entry{"Encoder.EncodeWithOption" + name, norm, true, func(x interface{}) ([]byte, error) {
				var b bytes.Buffer
				err := json.NewEncoder(&b).EncodeWithOption(x, o...)
				return b.Bytes(), err
			}},
		)
	}
	out = append(out,
		c03Entry{"Marshal", true, false, func(x interface{}) ([]byte, error) { return json.Marshal(x) }},
		c03Entry{"MarshalIndent", true, false, func(x interface{}) ([]byte, error) { return json.MarshalIndent(x, " ", "\t") }},
		c03Entry{"MarshalNoEscape", true, false, func(x interface{}) ([]byte, error) { return json.MarshalNoEscape(x) }},
		c03Entry{"Encoder(indent)", true, true, func(x interface{}) ([]byte, error) {
			var b bytes.Buffer
			e := json.NewEncoder(&b)
			e.SetIndent("", "  ")
			err := e.Encode(x)
			return b.Bytes(), err
		}},
	)
	return out
}

// c03Judge checks one encode result; wantErr: the reference refuses the value.
func c03Judge(e *c03Entry, r encResult, wantErr bool) (kind, detail string) {
	if r.panicked {
		return "panic:" + util.ErrClass(r.pmsg), "panic: " + r.pmsg
	}
	if r.err != nil {
		return "", ""
	}
	out := r.out
	if e.newline {
		if len(out) == 0 || out[len(out)-1] != '\n' {
			return "encoder-output-without-newline", fmt.Sprintf("%q", clip(out))
		}
		out = out[:len(out)-1]
	}
	if !oracle.Valid(out) {
		return "ill-formed-output", fmt.Sprintf("success with output %q", clip(out))
	}
	if e.normUTF8 && !utf8.Valid(out) {
		return "invalid-utf8-output", fmt.Sprintf("success with output %q", clip(out))
	}
	if wantErr {
		return "unrepresentable-value-encoded", fmt.Sprintf("success with output %q although the value is not representable in JSON", clip(out))
	}
	return "", ""
}

func c03Types(c *work.Ctx) {
	D := 2
	if !c.Quick() {
		D = 3
	}
	types := universe.Types(2, false)
	// unsupported kinds must give an error
	types = append(types, reflect.TypeOf(make(chan int)), reflect.TypeOf(func() {}), reflect.TypeOf(complex(1, 1)),
		reflect.TypeOf(struct{ F chan int }{}), reflect.TypeOf([]func(){}), reflect.TypeOf(map[string]complex128{}),
		// key types encoding/json refuses (their text would not be a string)
		reflect.TypeOf(map[*int]int{}), reflect.TypeOf(map[*string]int{}), reflect.TypeOf(map[bool]int{}), reflect.TypeOf(map[float64]int{}),
		reflect.TypeOf([]map[*string]int{}), reflect.TypeOf(struct{ M map[*int]string }{}))
	opts := &universe.ValOpts{NonFinite: true, BadNumbers: true}
	entries := c03Entries()
	encSpace(c, types, D, opts, func(t reflect.Type, v reflect.Value, id string) {
		for p := 0; p < 3; p++ {
			if fatalPlaced(t, p) {
				c.Count("skipped_listed_fatal_shape", 1)
				continue
			}
			x := place(v, p)
			want := runEnc(func(x interface{}) ([]byte, error) { return stdjson.Marshal(x) }, x)
			wantErr := !want.panicked && want.err != nil
			if want.panicked {
				c.Count("reference_panics", 1)
			}
			kinds := make([]string, len(entries))
			details := make([]string, len(entries))
			nfail, nfailIndent, nIndent := 0, 0, 0
			for i := range entries {
				e := &entries[i]
				r := runEnc(e.run, x)
				kinds[i], details[i] = c03Judge(e, r, wantErr)
				c.Outcome(kinds[i])
				ind := strings.Contains(e.name, "ndent")
				if ind {
					nIndent++
				}
				if kinds[i] != "" {
					nfail++
					if ind {
						nfailIndent++
					}
				}
			}
			if nfail == 0 {
				continue
			}
			reported := map[string]bool{}
			for i := range entries {
				if kinds[i] == "" {
					continue
				}
				e := &entries[i]
				var label string
				switch {
				case nfail == len(entries):
					label = "all entry points"
				case nfail == nIndent && nfailIndent == nIndent:
					label = "indenting entry points"
				case nfailIndent == 0 && nfail == len(entries)-nIndent:
					label = "non-indenting entry points"
				default:
					label = strings.SplitN(e.name, "+", 2)[0]
					if strings.Contains(e.name, "DisableNormalizeUTF8") {
						label += "+DisableNormalizeUTF8"
					}
				}
				key := kinds[i] + "|" + label
				if reported[key] {
					continue
				}
				reported[key] = true
				kind := kinds[i]
				bv := blame(v, func(cv reflect.Value) bool {
					if fatalPlaced(cv.Type(), p) {
						return false // a component that alone is a listed fatal shape is not executed here
					}
					xx := place(cv, p)
					w := runEnc(func(x interface{}) ([]byte, error) { return stdjson.Marshal(x) }, xx)
					k, _ := c03Judge(e, runEnc(e.run, xx), !w.panicked && w.err != nil)
					return k != ""
				}, memoRel(e.name, p))
				c.Violation(fmt.Sprintf("%s : %s : %s", sig(bv), kind, label), fmt.Sprintf("%s %s = %s", placeNames[p], universe.Desc(t, 4), universe.DescVal(v, 4)), e.name+": "+details[i]+" ("+id+")")
			}
		}
		if c.WantSample() {
			c.Sample(id)
		}
	})
}

// ---- marshalers returning arbitrary bytes -----------------------------------------

var c03Cur []byte

type c03MJ struct{ X int }

func (c03MJ) MarshalJSON() ([]byte, error) { return c03Cur, nil }

type c03MJP struct{ X int }

func (*c03MJP) MarshalJSON() ([]byte, error) { return c03Cur, nil }

type c03MT struct{ X int }

func (c03MT) MarshalText() ([]byte, error) { return c03Cur, nil }

type c03MJC struct{ X int }

func (c03MJC) MarshalJSON(ctx context.Context) ([]byte, error) { return c03Cur, nil }

// positions in which the byte-producing member is placed
func c03Positions(b []byte) []struct {
	name string
	x    interface{}
	std  interface{}
} {
	raw := stdjson.RawMessage(append([]byte(nil), b...))
	num := stdjson.Number(string(b))
	return []struct {
		name string
		x    interface{}
		std  interface{}
	}{
		{"MarshalJSON top", c03MJ{}, c03MJ{}},
		{"MarshalJSON field", struct {
			A int
			M c03MJ
			B int
		}{1, c03MJ{}, 2}, nil},
		{"MarshalJSON elem", []c03MJ{{}, {}}, nil},
		{"MarshalJSON mapvalue", map[string]c03MJ{"k": {}}, nil},
		{"MarshalJSON ptr-receiver field", &struct{ M *c03MJP }{&c03MJP{}}, nil},
		{"MarshalJSON in interface", []interface{}{c03MJ{}}, nil},
		{"RawMessage top", raw, nil},
		{"RawMessage field", struct {
			A int
			R stdjson.RawMessage
		}{1, raw}, nil},
		{"RawMessage elem", []stdjson.RawMessage{raw}, nil},
		{"Number top", num, nil},
		{"Number field", struct{ N stdjson.Number }{num}, nil},
		{"Number field,string", struct {
			N stdjson.Number `json:",string"`
		}{num}, nil},
		{"Number mapvalue", map[string]stdjson.Number{"k": num}, nil},
		{"MarshalText top", c03MT{}, nil},
		{"MarshalText field", struct{ T c03MT }{}, nil},
		{"MarshalText mapkey", map[c03MT]int{{}: 1}, nil},
	}
}

var c03ByteEntries = []c03Entry{
	{"Marshal", true, false, func(x interface{}) ([]byte, error) { return json.Marshal(x) }},
	{"MarshalIndent", true, false, func(x interface{}) ([]byte, error) { return json.MarshalIndent(x, "", " ") }},
	{"Encoder.Encode", true, true, func(x interface{}) ([]byte, error) {
		var b bytes.Buffer
		err := json.NewEncoder(&b).Encode(x)
		return b.Bytes(), err
	}},
	{"MarshalContext", true, false, func(x interface{}) ([]byte, error) { return json.MarshalContext(context.Background(), x) }},
	{"Marshal+DisableNormalizeUTF8", false, false, func(x interface{}) ([]byte, error) { return json.MarshalWithOption(x, json.DisableNormalizeUTF8()) }},
}

func c03Bytes(c *work.Ctx) {
	max := 3
	if !c.Quick() {
		max = 4
	}
	c.SelfSharded = true
	few := false // edits of grammar texts go through three positions and two entry points only
	run := func(b []byte) {
		if !c.Begin(b) {
			return
		}
		c03Cur = append([]byte(nil), b...)
		stdClass := ""
		for pi, pos := range c03Positions(b) {
			if few && pi != 0 && pi != 1 && pi != 7 {
				continue
			}
			want := runEnc(func(x interface{}) ([]byte, error) { return stdjson.Marshal(x) }, pos.x)
			wantErr := !want.panicked && want.err != nil
			for i := range c03ByteEntries {
				e := &c03ByteEntries[i]
				if !e.normUTF8 && !isASCII(b) {
					continue
				}
				if few && i > 1 {
					continue
				}
				r := runEnc(e.run, pos.x)
				kind, detail := c03Judge(e, r, wantErr)
				c.Outcome(pos.name + kind)
				if kind == "" {
					continue
				}
				if stdClass == "" {
					stdClass = c03BytesClass(b)
				}
				group := strings.Fields(pos.name)[0]
				c.Violation(fmt.Sprintf("%s bytes : %s :: %s", group, kind, stdClass), string(b), fmt.Sprintf("%s via %s, member bytes %q: %s", pos.name, e.name, b, detail))
			}
		}
		if c.WantSample() {
			c.Sample(fmt.Sprintf("marshaler/RawMessage/Number bytes %q", b))
		}
		c.EndCase()
	}
	run(nil)
	util.ForEachString(util.Sigma, max, c.Shard, c.NShards, func(b []byte) bool {
		run(b)
		return true
	})
	// every single-byte deletion, insertion and substitution of the grammar texts as member bytes
	few = true
	var buf []byte
	for di, d := range universe.Docs(1) {
		if di%c.NShards != c.Shard {
			continue
		}
		src := []byte(d)
		for pos := 0; pos <= len(src); pos++ {
			if pos < len(src) {
				buf = append(append(buf[:0], src[:pos]...), src[pos+1:]...)
				run(buf)
				for _, s := range util.Sigma {
					if s != src[pos] {
						buf = append(buf[:0], src...)
						buf[pos] = s
						run(buf)
					}
				}
			}
			for _, s := range util.Sigma {
				buf = append(append(append(buf[:0], src[:pos]...), s), src[pos:]...)
				run(buf)
			}
		}
	}
	few = false
	// the number-literal alphabet one symbol longer
	util.ForEachString([]byte("019-+.eE "), max+2, c.Shard, c.NShards, func(b []byte) bool {
		run(b)
		return true
	})
}

func isASCII(b []byte) bool {
	for _, c := range b {
		if c >= 0x80 {
			return false
		}
	}
	return true
}

// c03BytesClass: why the member bytes are not a JSON text (per encoding/json), or "valid-json".
func c03BytesClass(b []byte) string {
	if len(b) == 0 {
		return "empty"
	}
	var x interface{}
	if err := stdjson.Unmarshal(b, &x); err != nil {
		return util.StdErrClass(err.Error())
	}
	return "valid-json"
}
