//go:build vshim
// +build vshim

package props

import (
	"bytes"
	"fmt"
	"reflect"
	"strings"

	json "github.com/goccy/go-json"

	"verif/mc/oracle"
	"verif/mc/props/util"
	"verif/mc/work"
)

// c12.slices / c07.slices — the slice decoder works in pooled scratch arrays that grow by doubling and are handed
// back and forth between calls; which array a result ends up in depends on the LENGTHS of this and of earlier
// arrays (exactly full, one more than a power of two, shorter than what the destination already holds).
//
// Every sequence of three decodes of one slice type, the array lengths taken from a ladder around the powers of
// two, each step into a nil slice or into a freshly built pre-populated slice of another ladder length, through
// Unmarshal and through one Decoder. After every step:
//   - the result is the document's array (element i of step s is the number 1000*s+i);
//   - every EARLIER result, and the rows / pointees the harness kept from earlier pre-populated destinations, are
//     what they were right after their own step (nothing decoded earlier is altered by a later call; decoding
//     writes only inside its own destination).

func init() {
	work.Register("C12", "c12.slices", func(c *work.Ctx) { sliceLadder(c) })
	work.Register("C07", "c07.slices", func(c *work.Ctx) { sliceLadder(c) })
}

type slElem struct {
	name string
	t    reflect.Type
	doc  func(v int) string
	set  func(e reflect.Value, v int) // pre-populate an element
}

type slRow struct {
	A int  `json:"a"`
	P *int `json:"p"`
}

func slElems() []slElem {
	return []slElem{
		{"int", reflect.TypeOf(0), func(v int) string { return fmt.Sprint(v) }, func(e reflect.Value, v int) { e.SetInt(int64(v)) }},
		{"string", reflect.TypeOf(""), func(v int) string { return fmt.Sprintf(`"s%d"`, v) }, func(e reflect.Value, v int) { e.SetString(fmt.Sprintf("old%d", v)) }},
		{"[]int", reflect.TypeOf([]int(nil)), func(v int) string { return fmt.Sprintf(`[%d]`, v) }, func(e reflect.Value, v int) { e.Set(reflect.ValueOf([]int{v, v})) }},
		{"*int", reflect.TypeOf((*int)(nil)), func(v int) string { return fmt.Sprint(v) }, func(e reflect.Value, v int) { x := v; e.Set(reflect.ValueOf(&x)) }},
		{"struct{A int; P *int}", reflect.TypeOf(slRow{}), func(v int) string { return fmt.Sprintf(`{"p":%d}`, v) }, func(e reflect.Value, v int) {
			x := v
			e.Set(reflect.ValueOf(slRow{A: v, P: &x}))
		}},
	}
}

func sliceLadder(c *work.Ctx) {
	lens := []int{0, 1, 2, 3, 4, 5, 8, 9, 16, 17, 32, 33, 40, 63, 64, 65, 128, 129}
	pre := []int{-1, 3, 64, 130} // -1: nil destination; otherwise a fresh pre-populated slice of that length
	lens3 := lens
	elems := slElems()
	if !c.Quick() {
		lens = append(lens, 6, 7, 15, 31, 127, 255, 256, 257, 512, 513)
		lens3 = lens
		pre = append(pre, 1, 33)
	} else {
		// quick: the third array from a short list, two kinds of destination, three element types
		lens3 = []int{0, 3, 17, 64, 65}
		pre = []int{-1, 64}
		elems = []slElem{elems[0], elems[2], elems[4]}
	}
	type holder struct {
		name string
		v    reflect.Value // addressable
		snap string
	}
	for _, el := range elems {
		st := reflect.SliceOf(el.t)
		mkdoc := func(step, n int) string {
			var sb strings.Builder
			sb.WriteByte('[')
			for i := 0; i < n; i++ {
				if i > 0 {
					sb.WriteByte(',')
				}
				sb.WriteString(el.doc(1000*step + i))
			}
			sb.WriteByte(']')
			return sb.String()
		}
		for _, mode := range []string{"Unmarshal", "Decoder"} {
			for _, n1 := range lens {
				for _, n2 := range lens {
					id := fmt.Sprintf("[]%s through %s: arrays of %d, %d, then every ladder length", el.name, mode, n1, n2)
					if !c.BeginS(id) {
						continue
					}
					for _, n3 := range lens3 {
						for _, p2 := range pre {
							for _, p3 := range pre {
								c11Reset()
								ns := []int{n1, n2, n3}
								ps := []int{-1, p2, p3}
								var holders []*holder
								var stream bytes.Buffer
								var dec *json.Decoder
								if mode == "Decoder" {
									for s, n := range ns {
										stream.WriteString(mkdoc(s+1, n))
										stream.WriteByte(' ')
									}
									dec = json.NewDecoder(&stream)
								}
								bad := ""
								for s, n := range ns {
									dst := reflect.New(st)
									if ps[s] >= 0 {
										sl := reflect.MakeSlice(st, ps[s], ps[s])
										keep := reflect.New(st)
										for i := 0; i < ps[s]; i++ {
											el.set(sl.Index(i), 900000+i)
										}
										// the harness keeps the old elements (rows, pointers) of the pre-populated destination
										keep.Elem().Set(reflect.AppendSlice(reflect.MakeSlice(st, 0, ps[s]), sl))
										dst.Elem().Set(sl)
										holders = append(holders, &holder{name: fmt.Sprintf("old elements of step %d's destination", s+1), v: keep.Elem()})
									}
									var err error
									pn, msg := util.Safe(func() {
										if dec != nil {
											err = dec.Decode(dst.Interface())
										} else {
											err = json.Unmarshal([]byte(mkdoc(s+1, n)), dst.Interface())
										}
									})
									c.Count("slice_decodes", 1)
									if pn || err != nil {
										bad = fmt.Sprintf("step %d fails: %v %s", s+1, err, msg)
										break
									}
									// the result is the document's array
									if dst.Elem().Len() != n {
										bad = fmt.Sprintf("step %d gives %d elements, the document has %d", s+1, dst.Elem().Len(), n)
										break
									}
									for i := 0; i < n && bad == ""; i++ {
										want := 1000*(s+1) + i
										e := dst.Elem().Index(i)
										ok := true
										switch el.name {
										case "int":
											ok = e.Int() == int64(want)
										case "string":
											ok = e.String() == fmt.Sprintf("s%d", want)
										case "[]int":
											ok = e.Len() == 1 && e.Index(0).Int() == int64(want)
										case "*int":
											ok = !e.IsNil() && e.Elem().Int() == int64(want)
										default:
											ok = !e.Field(1).IsNil() && e.Field(1).Elem().Int() == int64(want)
										}
										if !ok {
											bad = fmt.Sprintf("step %d element %d is %s, the document has %d", s+1, i, clip([]byte(oracle.Canon(e))), want)
										}
									}
									if bad != "" {
										break
									}
									// bystanders: everything kept from EARLIER steps is what it was (the old elements of this step's own
									// destination belong to the destination and may be decoded into)
									for _, h := range holders {
										if h.snap == "" {
											continue
										}
										if now := oracle.Canon(h.v); now != h.snap {
											bad = fmt.Sprintf("%s changed during step %d: was %s, is %s", h.name, s+1, clip([]byte(h.snap)), clip([]byte(now)))
											break
										}
									}
									if bad != "" {
										break
									}
									holders = append(holders, &holder{name: fmt.Sprintf("the result of step %d", s+1), v: dst.Elem()})
									for _, h := range holders {
										h.snap = oracle.Canon(h.v)
									}
								}
								if bad != "" {
									what := "a later decode changed an earlier result"
									if strings.HasPrefix(bad, "step") {
										what = "wrong result"
									}
									c.Violation(fmt.Sprintf("slice lengths : []%s : %s : %s", el.name, mode, what), fmt.Sprintf("[]%s %s lengths %v destinations %v", el.name, mode, ns, ps), bad)
								}
							}
						}
					}
					c.Outcome("done")
					if c.WantSample() {
						c.Sample(id)
					}
					c.EndCase()
				}
			}
		}
	}
}
