package props

import (
	"bytes"
	"context"
	stdjson "encoding/json"
	"fmt"
	"io"
	"reflect"
	"strings"

	json "github.com/goccy/go-json"

	"verif/mc/props/util"
	"verif/mc/universe"
	"verif/mc/work"
)

// C13 — all encoder variants and options describe the same document.

func init() {
	work.Register("C13", "c13.types", c13Types)
}

// markers: eight distinct private-use header/footer pairs
var c13Marked = func() *json.ColorScheme {
	mk := func(i int) json.ColorFormat {
		return json.ColorFormat{Header: string(rune(0xE000 + 2*i)), Footer: string(rune(0xE001 + 2*i))}
	}
	return &json.ColorScheme{Int: mk(0), Uint: mk(1), Float: mk(2), Bool: mk(3), String: mk(4), Binary: mk(5), ObjectKey: mk(6), Null: mk(7)}
}()

func c13Strip(b []byte) []byte {
	s := string(b)
	var sb strings.Builder
	for _, r := range s {
		if r >= 0xE000 && r < 0xE010 {
			continue
		}
		sb.WriteRune(r)
	}
	return []byte(sb.String())
}

var c13Indents = [][2]string{{"", " "}, {" ", "\t"}, {"é·", "  "}, {"", ""}}

type variant struct {
	name string
	run  func(x interface{}) ([]byte, error)
	// norm maps the variant's output to what plain Marshal must have produced
	norm func(out []byte) []byte
}

// c13StripANSI removes ESC [ ... m sequences (a raw ESC never occurs in JSON text otherwise).
func c13StripANSI(b []byte) []byte {
	out := b[:0:0]
	for i := 0; i < len(b); i++ {
		if b[i] == 0x1b && i+1 < len(b) && b[i+1] == '[' {
			j := i + 2
			for j < len(b) && b[j] != 'm' {
				j++
			}
			i = j
			continue
		}
		out = append(out, b[i])
	}
	return out
}

func trimNL(b []byte) []byte {
	if len(b) > 0 && b[len(b)-1] == '\n' {
		return b[:len(b)-1]
	}
	return append(b, "<missing newline>"...)
}

var c13Variants = []variant{
	{"Colorize(zero scheme)", func(x interface{}) ([]byte, error) {
		return json.MarshalWithOption(x, json.Colorize(&json.ColorScheme{}))
	}, nil},
	{"Colorize(marked scheme)", func(x interface{}) ([]byte, error) { return json.MarshalWithOption(x, json.Colorize(c13Marked)) }, c13Strip},
	// a scheme whose markers contain a character that JSON escapes (ESC, as in terminal colours): a marker that gets
	// into a string VALUE is escaped there and cannot be removed any more
	{"Colorize(default scheme)", func(x interface{}) ([]byte, error) {
		return json.MarshalWithOption(x, json.Colorize(json.DefaultColorScheme))
	}, c13StripANSI},
	{"MarshalNoEscape", func(x interface{}) ([]byte, error) { return json.MarshalNoEscape(x) }, nil},
	{"MarshalContext", func(x interface{}) ([]byte, error) { return json.MarshalContext(context.Background(), x) }, nil},
	{"Debug", func(x interface{}) ([]byte, error) { return json.MarshalWithOption(x, json.DebugWith(io.Discard)) }, nil},
	{"Encoder.Encode", func(x interface{}) ([]byte, error) {
		var b bytes.Buffer
		err := json.NewEncoder(&b).Encode(x)
		return b.Bytes(), err
	}, trimNL},
	{"Encoder.EncodeContext", func(x interface{}) ([]byte, error) {
		var b bytes.Buffer
		err := json.NewEncoder(&b).EncodeContext(context.Background(), x)
		return b.Bytes(), err
	}, trimNL},
}

// c13HTMLNorm maps every spelling of <, > and & (raw, escaped, and escaped
// inside a ,string-quoted string, where the backslash is itself escaped) to
// the raw character, so that two outputs differing only in that spelling
// become byte-identical.
func c13HTMLNorm(b []byte) []byte {
	s := string(b)
	for _, p := range [][2]string{{"003c", "<"}, {"003e", ">"}, {"0026", "&"}} {
		s = strings.ReplaceAll(s, `\\u`+p[0], p[1])
		s = strings.ReplaceAll(s, `\u`+p[0], p[1])
	}
	return []byte(s)
}

func hasMap(v reflect.Value, depth int) bool {
	if depth > 8 || !v.IsValid() {
		return false
	}
	switch v.Kind() {
	case reflect.Map:
		return true
	case reflect.Ptr, reflect.Interface:
		if v.IsNil() {
			return false
		}
		return hasMap(v.Elem(), depth+1)
	case reflect.Slice, reflect.Array:
		for i := 0; i < v.Len(); i++ {
			if hasMap(v.Index(i), depth+1) {
				return true
			}
		}
	case reflect.Struct:
		for i := 0; i < v.NumField(); i++ {
			if hasMap(v.Field(i), depth+1) {
				return true
			}
		}
	}
	return false
}

func c13Check(c *work.Ctx, t reflect.Type, v reflect.Value, p int, id string, report func(rel, kind, detail string)) {
	x := place(v, p)
	plain := runEnc(func(x interface{}) ([]byte, error) { return json.Marshal(x) }, x)
	if plain.panicked {
		// C01/C08 territory; the relations need a reference output
		c.Count("plain_panics", 1)
		return
	}
	for _, vr := range c13Variants {
		r := runEnc(vr.run, x)
		if r.panicked {
			report(vr.name, "panic:"+util.ErrClass(r.pmsg), "panic: "+r.pmsg)
			continue
		}
		if (r.err == nil) != (plain.err == nil) {
			report(vr.name, "error-mismatch", fmt.Sprintf("%s err=%v, Marshal err=%v", vr.name, r.err, plain.err))
			continue
		}
		if r.err != nil {
			continue
		}
		out := r.out
		if vr.norm != nil {
			out = vr.norm(append([]byte(nil), out...))
		}
		if !bytes.Equal(out, plain.out) {
			report(vr.name, "bytes-differ", fmt.Sprintf("%s gives %s ; Marshal gives %s", vr.name, clip(r.out), clip(plain.out)))
		}
	}
	// DisableHTMLEscape changes only the spelling of <, > and &
	{
		r := runEnc(func(x interface{}) ([]byte, error) { return json.MarshalWithOption(x, json.DisableHTMLEscape()) }, x)
		switch {
		case r.panicked:
			report("DisableHTMLEscape", "panic:"+util.ErrClass(r.pmsg), "panic: "+r.pmsg)
		case (r.err == nil) != (plain.err == nil):
			report("DisableHTMLEscape", "error-mismatch", fmt.Sprintf("DisableHTMLEscape err=%v, Marshal err=%v", r.err, plain.err))
		case r.err == nil:
			if !bytes.Equal(c13HTMLNorm(r.out), c13HTMLNorm(plain.out)) {
				report("DisableHTMLEscape", "differs-beyond-html-spelling", fmt.Sprintf("DisableHTMLEscape gives %s ; Marshal gives %s", clip(r.out), clip(plain.out)))
			}
			if bytes.ContainsAny(plain.out, "<>&") {
				report("HTMLEscape(default)", "raw-html-char-in-output", fmt.Sprintf("Marshal gives %s", clip(plain.out)))
			}
		}
	}
	// UnorderedMap: same document up to the order of map members
	{
		r := runEnc(func(x interface{}) ([]byte, error) { return json.MarshalWithOption(x, json.UnorderedMap()) }, x)
		switch {
		case r.panicked:
			report("UnorderedMap", "panic:"+util.ErrClass(r.pmsg), "panic: "+r.pmsg)
		case (r.err == nil) != (plain.err == nil):
			report("UnorderedMap", "error-mismatch", fmt.Sprintf("UnorderedMap err=%v, Marshal err=%v", r.err, plain.err))
		case r.err == nil:
			if !hasMap(reflect.ValueOf(x), 0) {
				if !bytes.Equal(r.out, plain.out) {
					report("UnorderedMap", "bytes-differ(no map in value)", fmt.Sprintf("UnorderedMap gives %s ; Marshal gives %s", clip(r.out), clip(plain.out)))
				}
			} else {
				var a, b interface{}
				da := stdjson.NewDecoder(bytes.NewReader(r.out))
				da.UseNumber()
				db := stdjson.NewDecoder(bytes.NewReader(plain.out))
				db.UseNumber()
				ea, eb := da.Decode(&a), db.Decode(&b)
				if ea != nil || eb != nil || !reflect.DeepEqual(a, b) || len(r.out) != len(plain.out) {
					report("UnorderedMap", "document-differs", fmt.Sprintf("UnorderedMap gives %s ; Marshal gives %s", clip(r.out), clip(plain.out)))
				}
			}
		}
	}
	// UnorderedMap under indentation: the member order is free, so the output is related to itself: it must
	// be what Indent makes of its own compaction (option combinations are where the four interpreters differ)
	if plain.err == nil && hasMap(reflect.ValueOf(x), 0) {
		pi := c13Indents[0]
		for _, colour := range []bool{false, true} {
			name := fmt.Sprintf("MarshalIndent(%q,%q)+UnorderedMap", pi[0], pi[1])
			r := runEnc(func(x interface{}) ([]byte, error) {
				return json.MarshalIndentWithOption(x, pi[0], pi[1], json.UnorderedMap())
			}, x)
			if colour {
				name += "+Colorize"
				r = runEnc(func(x interface{}) ([]byte, error) {
					return json.MarshalIndentWithOption(x, pi[0], pi[1], json.UnorderedMap(), json.Colorize(&json.ColorScheme{}))
				}, x)
			}
			switch {
			case r.panicked:
				report(name, "panic:"+util.ErrClass(r.pmsg), "panic: "+r.pmsg)
			case r.err != nil:
				report(name, "error-mismatch", fmt.Sprintf("%s err=%v, Marshal err=nil", name, r.err))
			default:
				var cmp, want bytes.Buffer
				if stdjson.Compact(&cmp, r.out) != nil || stdjson.Indent(&want, cmp.Bytes(), pi[0], pi[1]) != nil {
					report(name, "not-a-document", fmt.Sprintf("%s gives %q", name, clip(r.out)))
				} else if !bytes.Equal(r.out, want.Bytes()) {
					report(name, "bytes-differ-from-own-reindentation", fmt.Sprintf("%s gives %q ; Indent(Compact(it)) gives %q", name, clip(r.out), clip(want.Bytes())))
				} else if cmp.Len() != len(plain.out) {
					report(name, "document-differs", fmt.Sprintf("%s compacts to %s ; Marshal gives %s", name, clip(cmp.Bytes()), clip(plain.out)))
				}
			}
		}
	}
	// MarshalIndent(v,p,i) == Indent(Marshal(v),p,i), with encoding/json.Indent as the neutral formatter
	for _, pi := range c13Indents {
		r := runEnc(func(x interface{}) ([]byte, error) { return json.MarshalIndent(x, pi[0], pi[1]) }, x)
		name := fmt.Sprintf("MarshalIndent(%q,%q)", pi[0], pi[1])
		switch {
		case r.panicked:
			report(name, "panic:"+util.ErrClass(r.pmsg), "panic: "+r.pmsg)
		case (r.err == nil) != (plain.err == nil):
			report(name, "error-mismatch", fmt.Sprintf("%s err=%v, Marshal err=%v", name, r.err, plain.err))
		case r.err == nil:
			var want bytes.Buffer
			if err := stdjson.Indent(&want, plain.out, pi[0], pi[1]); err != nil {
				c.Count("plain_output_not_indentable", 1)
				continue
			}
			if !bytes.Equal(r.out, want.Bytes()) {
				report(name, "bytes-differ", fmt.Sprintf("%s gives %q ; Indent(Marshal) gives %q", name, clip(r.out), clip(want.Bytes())))
			}
			// colour + indent, zero scheme
			rc := runEnc(func(x interface{}) ([]byte, error) {
				return json.MarshalIndentWithOption(x, pi[0], pi[1], json.Colorize(c13Marked))
			}, x)
			if rc.panicked {
				report(name+"+Colorize", "panic:"+util.ErrClass(rc.pmsg), "panic: "+rc.pmsg)
			} else if rc.err != nil {
				report(name+"+Colorize", "error-mismatch", fmt.Sprintf("err=%v", rc.err))
			} else if !bytes.Equal(c13Strip(rc.out), r.out) {
				report(name+"+Colorize", "bytes-differ", fmt.Sprintf("coloured+indent stripped gives %q ; MarshalIndent gives %q", clip(c13Strip(rc.out)), clip(r.out)))
			}
		}
	}
}

func c13Types(c *work.Ctx) {
	D := 2
	if !c.Quick() {
		D = 3
	}
	types := universe.Types(2, false)
	opts := &universe.ValOpts{}
	encSpace(c, types, D, opts, func(t reflect.Type, v reflect.Value, id string) {
		var std [3]encResult
		var goj [3]encResult
		for p := 0; p < 3; p++ {
			if fatalPlaced(t, p) {
				c.Count("skipped_listed_fatal_shape", 1)
				continue
			}
			c13Check(c, t, v, p, id, func(rel, kind, detail string) {
				c.Outcome(rel + kind)
				bv := blame(v, func(cv reflect.Value) bool {
					if fatalPlaced(cv.Type(), p) {
						return false // a component that alone is a listed fatal shape is not executed here
					}
					failed := false
					c13Check(c, cv.Type(), cv, p, id, func(r2, k2, _ string) {
						if r2 == rel {
							failed = true
						}
					})
					return failed
				}, memoRel(rel, p))
				c.Violation(fmt.Sprintf("%s : %s : %s", rel, sig(bv), kind), fmt.Sprintf("%s %s = %s", placeNames[p], universe.Desc(t, 4), universe.DescVal(v, 4)), detail+" ("+id+")")
			})
			c.Outcome("ok")
			x := place(v, p)
			std[p] = runEnc(func(x interface{}) ([]byte, error) { return stdjson.Marshal(x) }, x)
			goj[p] = runEnc(func(x interface{}) ([]byte, error) { return json.Marshal(x) }, x)
		}
		// placement: required equal whenever encoding/json gives the same document for the placements
		if !fatalPlaced(t, 0) && !fatalPlaced(t, 1) && !fatalPlaced(t, 2) {
			unwrap := func(r encResult) string {
				if r.panicked {
					return "panic"
				}
				if r.err != nil {
					return "error"
				}
				return string(r.out)
			}
			s0, s1, s2 := unwrap(std[0]), unwrap(std[1]), unwrap(std[2])
			g0, g1, g2 := unwrap(goj[0]), unwrap(goj[1]), unwrap(goj[2])
			if !std[2].panicked && std[2].err == nil {
				s2 = strings.TrimSuffix(strings.TrimPrefix(s2, "["), "]")
			}
			if !goj[2].panicked && goj[2].err == nil {
				g2 = strings.TrimSuffix(strings.TrimPrefix(g2, "["), "]")
			}
			if s0 == s1 && g0 != g1 {
				c.Violation("placement direct-vs-pointer : "+universe.Desc(t, 2)+" @ "+universe.DescVal(v, 2), universe.Desc(t, 4)+" = "+universe.DescVal(v, 4),
					fmt.Sprintf("direct %s ; behind pointer %s ; encoding/json gives the same for both (%s)", clip([]byte(g0)), clip([]byte(g1)), id))
			}
			if s0 == s2 && g0 != g2 {
				c.Violation("placement direct-vs-interface : "+universe.Desc(t, 2)+" @ "+universe.DescVal(v, 2), universe.Desc(t, 4)+" = "+universe.DescVal(v, 4),
					fmt.Sprintf("direct %s ; inside interface{} %s ; encoding/json gives the same for both (%s)", clip([]byte(g0)), clip([]byte(g2)), id))
			}
		}
		if c.WantSample() {
			c.Sample(id)
		}
	})
}

var memoRelMap = map[string]map[string]bool{}

func memoRel(rel string, p int) map[string]bool {
	k := fmt.Sprintf("%s/%d", rel, p)
	m := memoRelMap[k]
	if m == nil {
		m = map[string]bool{}
		memoRelMap[k] = m
	}
	return m
}
