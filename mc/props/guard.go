//go:build unix

package props

import (
	"bytes"
	"fmt"
	"reflect"
	"runtime/debug"
	"syscall"
	"unsafe"

	stdjson "encoding/json"

	json "github.com/goccy/go-json"

	"verif/mc/props/util"
	"verif/mc/work"
)

// c08.guard / c07.guard — values at the very end of readable (writable) memory.
//
// "Reads only memory that belongs to the value" and "writes only inside the destination" are not observable on
// the ordinary heap: the bytes next to a value are readable, and a few stray bytes are masked or overwritten
// again. Here every value sits so that its LAST byte is the last byte of a mapped page and the next page is
// PROT_NONE: an access that is one byte too wide faults, and the fault is turned into a panic
// (debug.SetPanicOnFault) that the harness reports. Values are placed at every alignment their type allows.
//
//	C08: encoding a value of every scalar kind and width, arrays and packed structs of them, strings and byte
//	     slices whose DATA ends at the page end, through every entry point; output equals encoding/json's
//	C07: decoding into destinations of every pointer-free kind and width placed the same way (the destination's
//	     bytes are the only writable ones), and decoding documents whose private copy cannot be observed but
//	     whose destination strings' backing arrays end at the page end

func init() {
	work.Register("C08", "c08.guard", guardEncode)
	work.Register("C07", "c07.guard", guardDecode)
}

type guardPage struct {
	mem  []byte
	page int
}

// newGuardPage maps two pages and makes the second one inaccessible.
func newGuardPage() (*guardPage, error) {
	page := syscall.Getpagesize()
	mem, err := syscall.Mmap(-1, 0, 2*page, syscall.PROT_READ|syscall.PROT_WRITE, syscall.MAP_ANON|syscall.MAP_PRIVATE)
	if err != nil {
		return nil, err
	}
	if err := syscall.Mprotect(mem[page:], syscall.PROT_NONE); err != nil {
		return nil, err
	}
	return &guardPage{mem: mem, page: page}, nil
}

// at returns a pointer to size bytes that end exactly at the end of the accessible page.
func (g *guardPage) at(size uintptr) unsafe.Pointer {
	return unsafe.Pointer(&g.mem[g.page-int(size)])
}

type gPacked struct {
	A int8
	B uint8
	C int16
}
type gPacked2 struct {
	A int32
	B uint16
	C int8
	D bool
}
type gOdd struct {
	A [3]int8
}

func guardScalarTypes() []reflect.Type {
	return []reflect.Type{
		reflect.TypeOf(int8(0)), reflect.TypeOf(uint8(0)), reflect.TypeOf(int16(0)), reflect.TypeOf(uint16(0)),
		reflect.TypeOf(int32(0)), reflect.TypeOf(uint32(0)), reflect.TypeOf(int64(0)), reflect.TypeOf(uint64(0)),
		reflect.TypeOf(int(0)), reflect.TypeOf(uint(0)), reflect.TypeOf(uintptr(0)),
		reflect.TypeOf(float32(0)), reflect.TypeOf(float64(0)), reflect.TypeOf(false),
		reflect.TypeOf([3]int8{}), reflect.TypeOf([4]int16{}), reflect.TypeOf([3]uint16{}), reflect.TypeOf([2]int32{}), reflect.TypeOf([5]bool{}), reflect.TypeOf([3]float32{}), reflect.TypeOf([1]uint8{}),
		reflect.TypeOf(gPacked{}), reflect.TypeOf(gPacked2{}), reflect.TypeOf(gOdd{}),
		reflect.TypeOf([2]gPacked{}), reflect.TypeOf(struct {
			X uint8 `json:"x,string"`
			Y int8  `json:"y,omitempty"`
		}{}),
	}
}

// fill writes a non-trivial bit pattern into a pointer-free value.
func guardFill(v reflect.Value, seed int64) {
	switch v.Kind() {
	case reflect.Bool:
		v.SetBool(seed%2 == 0)
	case reflect.Int8, reflect.Int16, reflect.Int32, reflect.Int64, reflect.Int:
		v.SetInt(-(seed*37 + 5) % 100)
	case reflect.Uint8, reflect.Uint16, reflect.Uint32, reflect.Uint64, reflect.Uint, reflect.Uintptr:
		v.SetUint(uint64(seed*41+7) % 200)
	case reflect.Float32, reflect.Float64:
		v.SetFloat(float64(seed) + 0.5)
	case reflect.Array:
		for i := 0; i < v.Len(); i++ {
			guardFill(v.Index(i), seed+int64(i)+1)
		}
	case reflect.Struct:
		for i := 0; i < v.NumField(); i++ {
			guardFill(v.Field(i), seed+int64(i)*3+1)
		}
	}
}

func guardEncode(c *work.Ctx) {
	g, err := newGuardPage()
	if err != nil {
		c.HarnessError("mmap: " + err.Error())
		return
	}
	old := debug.SetPanicOnFault(true)
	defer debug.SetPanicOnFault(old)
	entries := []struct {
		name string
		run  func(x interface{}) ([]byte, error)
	}{
		{"Marshal", func(x interface{}) ([]byte, error) { return json.Marshal(x) }},
		{"MarshalIndent", func(x interface{}) ([]byte, error) { return json.MarshalIndent(x, "", " ") }},
		{"MarshalNoEscape", func(x interface{}) ([]byte, error) { return json.MarshalNoEscape(x) }},
		{"Marshal+Colorize", func(x interface{}) ([]byte, error) { return json.MarshalWithOption(x, json.Colorize(&json.ColorScheme{})) }},
		{"Encoder", func(x interface{}) ([]byte, error) {
			var b bytes.Buffer
			err := json.NewEncoder(&b).Encode(x)
			return bytes.TrimSuffix(b.Bytes(), []byte("\n")), err
		}},
	}
	check := func(id string, kind string, x interface{}, want []byte) {
		for _, e := range entries {
			var got []byte
			var gerr error
			p, msg := util.Safe(func() { got, gerr = e.run(x) })
			c.Count("guarded_encodes", 1)
			switch {
			case p:
				c.Violation(fmt.Sprintf("value at the end of a page : %s : %s : fault or panic", kind, e.name), id, fmt.Sprintf("%s: %s", e.name, msg))
			case gerr != nil:
				c.Violation(fmt.Sprintf("value at the end of a page : %s : %s : error", kind, e.name), id, gerr.Error())
			case e.name != "MarshalIndent" && !bytes.Equal(got, want):
				c.Violation(fmt.Sprintf("value at the end of a page : %s : %s : output differs", kind, e.name), id, fmt.Sprintf("got %q, want %q", clip(got), clip(want)))
			}
		}
	}
	// (1) pointer-free values whose last byte is the last accessible byte: behind a pointer, as the element of a
	// slice header that lives on the heap, as a map value
	for ti, t := range guardScalarTypes() {
		id := "encode " + t.String() + " ending at the page end"
		if !c.BeginS(id) {
			continue
		}
		p := g.at(t.Size())
		v := reflect.NewAt(t, p).Elem()
		guardFill(v, int64(ti)+1)
		want, werr := stdjson.Marshal(v.Addr().Interface())
		if werr != nil {
			c.EndCase()
			continue
		}
		check(id, t.String()+" behind a pointer", v.Addr().Interface(), want)
		// a slice of two elements whose second element ends at the page end
		if 2*t.Size() < uintptr(g.page) {
			sp := g.at(2 * t.Size())
			sl := reflect.NewAt(reflect.ArrayOf(2, t), sp).Elem()
			guardFill(sl, int64(ti)+7)
			wantS, _ := stdjson.Marshal(sl.Slice(0, 2).Interface())
			check(id, "[]"+t.String(), sl.Slice(0, 2).Interface(), wantS)
		}
		c.Sample(id)
		c.EndCase()
	}
	// (2) strings and byte slices whose data ends at the page end (lengths around the 8-byte scanning window)
	for _, n := range []int{1, 2, 3, 5, 7, 8, 9, 15, 16, 17, 23, 24, 25, 31, 33, 64, 65} {
		for _, tail := range []string{"", "\"", "\\", "<", "é", "\xff", "\xe2\x80", "\n"} {
			id := fmt.Sprintf("encode string of %d bytes + %q ending at the page end", n, tail)
			if !c.BeginS(id) {
				continue
			}
			content := bytes.Repeat([]byte("a"), n)
			content = append(content, tail...)
			p := g.at(uintptr(len(content)))
			dst := (*[1 << 20]byte)(p)[:len(content):len(content)]
			copy(dst, content)
			var s string
			sh := (*[2]uintptr)(unsafe.Pointer(&s))
			sh[0], sh[1] = uintptr(p), uintptr(len(content))
			for _, x := range []interface{}{s, []string{s}, map[string]string{s: s}, struct{ S string }{s}, dst, struct {
				S string `json:"s,string"`
			}{s}} {
				want, werr := stdjson.Marshal(x)
				if werr != nil {
					continue
				}
				check(id, fmt.Sprintf("%T", x), x, want)
			}
			c.EndCase()
		}
	}
}

func guardDecode(c *work.Ctx) {
	g, err := newGuardPage()
	if err != nil {
		c.HarnessError("mmap: " + err.Error())
		return
	}
	old := debug.SetPanicOnFault(true)
	defer debug.SetPanicOnFault(old)
	entries := []struct {
		name string
		run  func(doc []byte, dst interface{}) error
	}{
		{"Unmarshal", func(doc []byte, dst interface{}) error { return json.Unmarshal(doc, dst) }},
		{"UnmarshalNoEscape", func(doc []byte, dst interface{}) error { return json.UnmarshalNoEscape(doc, dst) }},
		{"Decoder", func(doc []byte, dst interface{}) error { return json.NewDecoder(bytes.NewReader(doc)).Decode(dst) }},
	}
	for ti, t := range guardScalarTypes() {
		id := "decode into " + t.String() + " ending at the page end"
		if !c.BeginS(id) {
			continue
		}
		// documents: the value's own encoding, null, a wrong kind, a longer array, an object with unknown members
		src := reflect.New(t).Elem()
		guardFill(src, int64(ti)+3)
		own, _ := stdjson.Marshal(src.Interface())
		docs := [][]byte{own, []byte("null"), []byte(`"x"`), []byte(`[1,2,3,4,5,6,7,8,9]`), []byte(`[]`), []byte(`{"A":1,"B":2,"C":3,"D":true,"x":"7","y":-1,"zz":[1]}`), []byte(`{}`), []byte(`300`), []byte(`-1`), []byte(`1.5`), []byte(`true`), []byte(`[true,false,true,false,true,true]`)}
		p := g.at(t.Size())
		for _, doc := range docs {
			for _, e := range entries {
				dst := reflect.NewAt(t, p)
				// reference on the ordinary heap
				ref := reflect.New(t)
				werr := stdjson.Unmarshal(doc, ref.Interface())
				for i := uintptr(0); i < t.Size(); i++ {
					*(*byte)(unsafe.Pointer(uintptr(p) + i)) = 0
				}
				var gerr error
				pn, msg := util.Safe(func() { gerr = e.run(append([]byte(nil), doc...), dst.Interface()) })
				c.Count("guarded_decodes", 1)
				if pn {
					c.Violation(fmt.Sprintf("destination at the end of a page : %s : %s : fault or panic", t.String(), e.name), fmt.Sprintf("%s <- %s", id, doc), msg)
					continue
				}
				if werr == nil && gerr == nil && !reflect.DeepEqual(dst.Elem().Interface(), ref.Elem().Interface()) {
					// value agreement is C02's subject; only report it when the heap gives another answer than the page
					heap := reflect.New(t)
					if json.Unmarshal(append([]byte(nil), doc...), heap.Interface()) == nil && !reflect.DeepEqual(heap.Elem().Interface(), dst.Elem().Interface()) {
						c.Violation(fmt.Sprintf("destination at the end of a page : %s : %s : differs from the same decode on the heap", t.String(), e.name), fmt.Sprintf("%s <- %s", id, doc),
							fmt.Sprintf("page %v heap %v", dst.Elem().Interface(), heap.Elem().Interface()))
					}
				}
			}
		}
		c.Sample(id)
		c.EndCase()
	}
}
