package props

import (
	"fmt"
	"reflect"

	"verif/mc/universe"
	"verif/mc/work"
)

// enc.fatal runs one representative of every shape excluded from the general
// enumerations by universe.FatalEncodeShape. Each is a separate case; the ones
// that kill the process are attributed through the journal by the coordinator.
func init() {
	work.Register("C01", "enc.fatal", encFatal)
}

func ptrN(t reflect.Type, n int) reflect.Type {
	for i := 0; i < n; i++ {
		t = reflect.PtrTo(t)
	}
	return t
}

func s1(t reflect.Type) reflect.Type {
	return reflect.StructOf([]reflect.StructField{{Name: "F", Type: t}})
}

// FatalRepresentatives lists the shapes, simplest first.
func FatalRepresentatives() []reflect.Type {
	m := reflect.MapOf(universe.TString, universe.TInt)
	return []reflect.Type{
		ptrN(m, 2), ptrN(m, 3), s1(ptrN(m, 2)),
		ptrN(universe.TRaw, 3), ptrN(universe.TTime, 3), ptrN(universe.TString, 3), ptrN(universe.TInt, 3),
		s1(ptrN(universe.TString, 2)), s1(ptrN(universe.TInt, 2)), s1(s1(ptrN(universe.TString, 2))), s1(ptrN(reflect.SliceOf(universe.TInt), 2)), s1(ptrN(universe.TBytes, 2)),
		reflect.ArrayOf(1, ptrN(universe.TString, 1)), reflect.ArrayOf(1, ptrN(universe.TInt, 1)), reflect.ArrayOf(1, m), reflect.ArrayOf(1, ptrN(universe.TBytes, 1)),
		s1(ptrN(universe.TIface, 1)), s1(s1(ptrN(universe.TIface, 1))), s1(ptrN(universe.TIface, 2)),
	}
}

type zeroCh struct{}

func (zeroCh) Deviate(n int) int { return 0 }

func encFatal(c *work.Ctx) {
	for _, t := range FatalRepresentatives() {
		desc := universe.Desc(t, 6)
		if !universe.FatalEncodeShape(t) {
			c.HarnessError("representative not covered by FatalEncodeShape: " + desc)
			continue
		}
		if !c.BeginS(desc) {
			continue
		}
		v := universe.Build(t, zeroCh{}, &universe.ValOpts{}, 0)
		kind, detail := c01Compare(0, v.Interface())
		c.Outcome(desc + kind)
		if kind != "" {
			c.Violation(fmt.Sprintf("pointer-chain shape %s : wrong output, panic or process death", desc), desc, kind+": "+detail)
		}
		c.Sample(desc)
		c.EndCase()
	}
}
