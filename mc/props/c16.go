package props

import (
	"bytes"
	stdjson "encoding/json"
	"fmt"
	"io"
	"math/big"
	"reflect"
	"strconv"
	"strings"

	json "github.com/goccy/go-json"

	"verif/mc/props/util"
	"verif/mc/work"
)

// C16 — integer text conversion is exact; out-of-range input is an error.

func init() {
	work.Register("C16", "c16.encode", c16Encode)
	work.Register("C16", "c16.decode", c16Decode)
}

type intType struct {
	name   string
	t      reflect.Type
	bits   int
	signed bool
}

var c16IntTypes = []intType{
	{"int8", reflect.TypeOf(int8(0)), 8, true}, {"uint8", reflect.TypeOf(uint8(0)), 8, false},
	{"int16", reflect.TypeOf(int16(0)), 16, true}, {"uint16", reflect.TypeOf(uint16(0)), 16, false},
	{"int32", reflect.TypeOf(int32(0)), 32, true}, {"uint32", reflect.TypeOf(uint32(0)), 32, false},
	{"int64", reflect.TypeOf(int64(0)), 64, true}, {"uint64", reflect.TypeOf(uint64(0)), 64, false},
	{"int", reflect.TypeOf(int(0)), 64, true}, {"uint", reflect.TypeOf(uint(0)), 64, false},
	{"uintptr", reflect.TypeOf(uintptr(0)), 64, false},
}

func (it intType) min() *big.Int {
	if !it.signed {
		return big.NewInt(0)
	}
	return new(big.Int).Neg(new(big.Int).Lsh(big.NewInt(1), uint(it.bits-1)))
}

func (it intType) max() *big.Int {
	if it.signed {
		return new(big.Int).Sub(new(big.Int).Lsh(big.NewInt(1), uint(it.bits-1)), big.NewInt(1))
	}
	return new(big.Int).Sub(new(big.Int).Lsh(big.NewInt(1), uint(it.bits)), big.NewInt(1))
}

// centres of the windows: 0, the type's limits, +-2^k and +-10^k
func c16Centres() []*big.Int {
	var out []*big.Int
	out = append(out, big.NewInt(0))
	for k := 1; k <= 65; k++ {
		p := new(big.Int).Lsh(big.NewInt(1), uint(k))
		out = append(out, p, new(big.Int).Neg(p))
	}
	for k := 1; k <= 21; k++ {
		p := new(big.Int).Exp(big.NewInt(10), big.NewInt(int64(k)), nil)
		out = append(out, p, new(big.Int).Neg(p))
	}
	return out
}

// ---- encode -------------------------------------------------------------------

func setInt(v reflect.Value, x *big.Int) {
	if v.Kind() >= reflect.Uint && v.Kind() <= reflect.Uintptr {
		v.SetUint(x.Uint64())
	} else {
		v.SetInt(x.Int64())
	}
}

func c16Encode(c *work.Ctx) {
	W := int64(1 << 10)
	if !c.Quick() {
		W = 1 << 14
	}
	for _, it := range c16IntTypes {
		// the values to encode: everything for 8/16 bits, windows otherwise
		var vals []*big.Int
		if it.bits <= 16 {
			for x := new(big.Int).Set(it.min()); x.Cmp(it.max()) <= 0; x = new(big.Int).Add(x, big.NewInt(1)) {
				vals = append(vals, x)
			}
		} else {
			seen := map[string]bool{}
			for _, ctr := range c16Centres() {
				for d := -W; d <= W; d++ {
					x := new(big.Int).Add(ctr, big.NewInt(d))
					if x.Cmp(it.min()) < 0 || x.Cmp(it.max()) > 0 {
						continue
					}
					k := x.String()
					if !seen[k] {
						seen[k] = true
						vals = append(vals, x)
					}
				}
			}
		}
		// batches of 512 values through every position
		for lo := 0; lo < len(vals); lo += 512 {
			hi := lo + 512
			if hi > len(vals) {
				hi = len(vals)
			}
			batch := vals[lo:hi]
			if !c.BeginS(fmt.Sprintf("encode %s [%s..%s]", it.name, batch[0], batch[len(batch)-1])) {
				continue
			}
			c16EncodeBatch(c, it, batch)
			c.EndCase()
		}
	}
}

func c16EncodeBatch(c *work.Ctx, it intType, batch []*big.Int) {
	n := len(batch)
	report := func(pos string, x *big.Int, got string) {
		c.Violation(fmt.Sprintf("encode %s %s : wrong text", it.name, pos), x.String(), fmt.Sprintf("%s value %s in position %s encoded as %s", it.name, x, pos, got))
	}
	// plain values, one Marshal each
	for _, x := range batch {
		v := reflect.New(it.t).Elem()
		setInt(v, x)
		out, err := json.Marshal(v.Interface())
		if err != nil || string(out) != x.String() {
			report("top-level", x, fmt.Sprintf("%q err=%v", out, err))
		}
		p := reflect.New(it.t)
		setInt(p.Elem(), x)
		out, err = json.Marshal(p.Interface())
		if err != nil || string(out) != x.String() {
			report("pointer", x, fmt.Sprintf("%q err=%v", out, err))
		}
		c.Count("values_encoded", 1)
	}
	// the colour interpreters have number writers of their own: with a scheme that marks nothing (and one that
	// marks only signed integers) the text of every value, as a map key and under the string tag too, is the same
	{
		type holder struct {
			V interface{}            `json:"v"`
			M map[string]interface{} `json:"m"`
		}
		onlyInt := &json.ColorScheme{Int: json.ColorFormat{Header: "<i>", Footer: "</i>"}}
		strip := strings.NewReplacer("<i>", "", "</i>", "")
		for _, x := range batch {
			v := reflect.New(it.t).Elem()
			setInt(v, x)
			mk := reflect.MakeMap(reflect.MapOf(it.t, it.t))
			mk.SetMapIndex(v, v)
			st := reflect.New(reflect.StructOf([]reflect.StructField{{Name: "S", Type: it.t, Tag: `json:"s,string"`}})).Elem()
			setInt(st.Field(0), x)
			val := holder{V: v.Interface(), M: map[string]interface{}{"k": mk.Interface(), "s": st.Interface(), "l": []interface{}{v.Interface()}}}
			want := fmt.Sprintf(`{"v":%s,"m":{"k":{"%s":%s},"l":[%s],"s":{"s":"%s"}}}`, x, x, x, x, x)
			for _, sc := range []struct {
				name string
				s    *json.ColorScheme
			}{{"empty scheme", &json.ColorScheme{}}, {"scheme marking signed integers only", onlyInt}} {
				out, err := json.MarshalWithOption(val, json.Colorize(sc.s))
				if got := strip.Replace(string(out)); err != nil || got != want {
					report("Colorize("+sc.name+")", x, fmt.Sprintf("%q err=%v, want %s", clip(out), err, want))
				}
				out, err = json.MarshalIndentWithOption(val, "", "", json.Colorize(sc.s))
				var cb bytes.Buffer
				if err == nil {
					err = stdjson.Compact(&cb, []byte(strip.Replace(string(out))))
				}
				if err != nil || cb.String() != want {
					report("Colorize("+sc.name+")+indent", x, fmt.Sprintf("%q err=%v, want %s", clip(out), err, want))
				}
			}
		}
	}
	// slice ([]uint8 is base64 text by definition: use an array there)
	sl := reflect.MakeSlice(reflect.SliceOf(it.t), n, n)
	if it.t.Kind() == reflect.Uint8 {
		sl = reflect.New(reflect.ArrayOf(n, it.t)).Elem()
	}
	for i, x := range batch {
		setInt(sl.Index(i), x)
	}
	out, err := json.Marshal(sl.Interface())
	if err != nil {
		report("slice", batch[0], err.Error())
	} else {
		parts := strings.Split(strings.Trim(string(out), "[]"), ",")
		if len(parts) != n {
			report("slice", batch[0], clip(out))
		} else {
			for i, x := range batch {
				if parts[i] != x.String() {
					report("slice element", x, parts[i])
				}
			}
		}
	}
	// ,string field and omitempty field in a struct slice
	st := reflect.StructOf([]reflect.StructField{
		{Name: "S", Type: it.t, Tag: `json:"s,string"`},
		{Name: "O", Type: it.t, Tag: `json:"o,omitempty"`},
		{Name: "P", Type: reflect.PtrTo(it.t), Tag: `json:"p"`},
	})
	ss := reflect.MakeSlice(reflect.SliceOf(st), n, n)
	for i, x := range batch {
		setInt(ss.Index(i).Field(0), x)
		setInt(ss.Index(i).Field(1), x)
		p := reflect.New(it.t)
		setInt(p.Elem(), x)
		ss.Index(i).Field(2).Set(p)
	}
	out, err = json.Marshal(ss.Interface())
	if err != nil {
		report("struct fields", batch[0], err.Error())
	} else {
		var sb strings.Builder
		sb.WriteByte('[')
		for i, x := range batch {
			if i > 0 {
				sb.WriteByte(',')
			}
			sb.WriteString(`{"s":"` + x.String() + `"`)
			if x.Sign() != 0 {
				sb.WriteString(`,"o":` + x.String())
			}
			sb.WriteString(`,"p":` + x.String() + `}`)
		}
		sb.WriteByte(']')
		if sb.String() != string(out) {
			// find the first differing element
			want := strings.Split(sb.String(), "},{")
			got := strings.Split(string(out), "},{")
			for i := range want {
				if i >= len(got) || got[i] != want[i] {
					g := ""
					if i < len(got) {
						g = got[i]
					}
					report("struct field (,string / omitempty / pointer)", batch[i], g)
					break
				}
			}
		}
	}
	// map keys
	m := reflect.MakeMap(reflect.MapOf(it.t, reflect.TypeOf(0)))
	for i, x := range batch {
		k := reflect.New(it.t).Elem()
		setInt(k, x)
		m.SetMapIndex(k, reflect.ValueOf(i))
	}
	out, err = json.Marshal(m.Interface())
	if err != nil {
		report("map key", batch[0], err.Error())
	} else {
		var back map[string]int
		if e := stdjson.Unmarshal(out, &back); e != nil || len(back) != n {
			report("map key", batch[0], clip(out))
		} else {
			for i, x := range batch {
				if j, ok := back[x.String()]; !ok || j != i {
					report("map key", x, "missing or wrong key in "+clip(out))
				}
			}
		}
	}
	c.Outcome(it.name)
	if c.WantSample() {
		c.Sample(fmt.Sprintf("encode %s %s in 6 positions", it.name, batch[0]))
	}
}

// ---- decode -------------------------------------------------------------------

var c16NonInteger = []string{"-", "-0", "00", "01", "-01", "1.0", "1e0", "1E+1", "+1", "0x1", "", "1 ", " 1", "1.5", "0.0", "-0.0", "1e-1", "10e1", "1_0", "１"}

type c16Pos struct {
	name string
	doc  func(lit string) string
	dst  func(t reflect.Type) reflect.Value           // pointer to destination
	get  func(t reflect.Type, d reflect.Value) string // canonical reading of the decoded integer
}

func c16Positions() []c16Pos {
	stOf := func(t reflect.Type) reflect.Type {
		return reflect.StructOf([]reflect.StructField{{Name: "V", Type: t, Tag: `json:",string"`}})
	}
	rd := func(v reflect.Value) string {
		if v.Kind() >= reflect.Uint && v.Kind() <= reflect.Uintptr {
			return strconv.FormatUint(v.Uint(), 10)
		}
		return strconv.FormatInt(v.Int(), 10)
	}
	return []c16Pos{
		{"plain", func(l string) string { return l },
			func(t reflect.Type) reflect.Value { p := reflect.New(t); setInt(p.Elem(), big.NewInt(7)); return p },
			func(t reflect.Type, d reflect.Value) string { return rd(d.Elem()) }},
		{"pointer", func(l string) string { return l },
			func(t reflect.Type) reflect.Value { return reflect.New(reflect.PtrTo(t)) },
			func(t reflect.Type, d reflect.Value) string {
				if d.Elem().IsNil() {
					return "nil"
				}
				return rd(d.Elem().Elem())
			}},
		{"map key", func(l string) string { return `{"` + l + `":1}` },
			func(t reflect.Type) reflect.Value { return reflect.New(reflect.MapOf(t, reflect.TypeOf(0))) },
			func(t reflect.Type, d reflect.Value) string {
				var ks []string
				if !d.Elem().IsNil() {
					for _, k := range d.Elem().MapKeys() {
						ks = append(ks, rd(k))
					}
				}
				return fmt.Sprint(ks)
			}},
		{",string", func(l string) string { return `{"V":"` + l + `"}` },
			func(t reflect.Type) reflect.Value {
				p := reflect.New(stOf(t))
				setInt(p.Elem().Field(0), big.NewInt(7))
				return p
			},
			func(t reflect.Type, d reflect.Value) string { return rd(d.Elem().Field(0)) }},
	}
}

// c16EscapedPositions: the quoted positions again, the literal's characters spelled with \uXXXX escapes (all of
// them / only the last one): the text between the quotes is then longer than the number it denotes.
func c16EscapedPositions(base []c16Pos) []c16Pos {
	esc := func(l string, all bool) string {
		var sb strings.Builder
		for i := 0; i < len(l); i++ {
			if all || i == len(l)-1 {
				fmt.Fprintf(&sb, `\u%04x`, l[i])
			} else {
				sb.WriteByte(l[i])
			}
		}
		return sb.String()
	}
	var out []c16Pos
	for _, p := range base {
		if p.name != "map key" && p.name != ",string" {
			continue
		}
		p := p
		for _, all := range []bool{true, false} {
			all := all
			q := p
			q.name = p.name + map[bool]string{true: " (every character escaped)", false: " (last character escaped)"}[all]
			q.doc = func(l string) string { return p.doc(esc(l, all)) }
			out = append(out, q)
		}
	}
	return out
}

func c16Form(lit string, it intType) string {
	x, ok := new(big.Int).SetString(lit, 10)
	isInt := ok && lit != "" && lit != "-" && !strings.HasPrefix(lit, "+") &&
		!(len(lit) > 1 && lit[0] == '0') && !(len(lit) > 2 && lit[0] == '-' && lit[1] == '0')
	if !isInt {
		switch {
		case lit == "":
			return "empty"
		case lit == "-":
			return "bare-minus"
		case strings.ContainsAny(lit, "eE") && !strings.Contains(lit, "x"):
			return "exponent"
		case strings.Contains(lit, "."):
			return "fraction"
		case strings.HasPrefix(lit, "+"):
			return "plus-sign"
		case strings.HasPrefix(lit, "0") || strings.HasPrefix(lit, "-0"):
			return "leading-zero"
		case strings.Contains(lit, " "):
			return "space"
		}
		return "other-non-integer"
	}
	switch {
	case x.Cmp(it.max()) > 0:
		if len(lit) > 20 {
			return "above-range(long)"
		}
		return "above-range"
	case x.Cmp(it.min()) < 0:
		if len(lit) > 20 {
			return "below-range(long)"
		}
		return "below-range"
	}
	if lit == "-0" {
		return "minus-zero"
	}
	return "in-range"
}

func c16Decode(c *work.Ctx) {
	W := int64(1 << 9)
	if !c.Quick() {
		W = 1 << 13
	}
	positions := c16Positions()
	positions = append(positions, c16EscapedPositions(positions)...)
	for _, it := range c16IntTypes {
		// literals
		seen := map[string]bool{}
		var lits []string
		add := func(s string) {
			if !seen[s] {
				seen[s] = true
				lits = append(lits, s)
			}
		}
		lo := new(big.Int).Sub(it.min(), big.NewInt(W))
		hi := new(big.Int).Add(it.max(), big.NewInt(W))
		if it.bits <= 16 {
			for x := new(big.Int).Set(lo); x.Cmp(hi) <= 0; x = new(big.Int).Add(x, big.NewInt(1)) {
				add(x.String())
			}
		}
		ctrs := append(c16Centres(), it.min(), it.max())
		for _, ctr := range ctrs {
			w := W
			if it.bits <= 16 {
				w = 8
			}
			for d := -w; d <= w; d++ {
				add(new(big.Int).Add(ctr, big.NewInt(d)).String())
			}
		}
		for k := 1; k <= 25; k++ {
			add("1" + strings.Repeat("0", k-1))
			add(strings.Repeat("9", k))
			add("-1" + strings.Repeat("0", k-1))
			add("-" + strings.Repeat("9", k))
			add(strings.Repeat("1", k))
		}
		for _, s := range c16NonInteger {
			add(s)
		}
		for _, lit := range lits {
			if !c.BeginS(it.name + " <- " + lit) {
				continue
			}
			form := c16Form(lit, it)
			if tl := strings.TrimSpace(lit); form == "space" && tl != "" && c16Form(tl, it) == "in-range" {
				form = "in-range(padded)"
			}
			// the property's own rule: a JSON integer that fits decodes to exactly that
			// value; anything else is an error and the destination keeps its contents
			var wantVal *big.Int
			if form == "in-range" || form == "minus-zero" {
				wantVal, _ = new(big.Int).SetString(lit, 10)
			}
			padded := form == "in-range(padded)"
			for _, pos := range positions {
				doc := []byte(pos.doc(lit))
				if (strings.HasPrefix(pos.name, "map key") || strings.HasPrefix(pos.name, ",string")) && strings.ContainsAny(lit, "\"\\") {
					continue
				}
				if padded {
					// white space around a top-level document is legal; inside quotes it is not
					if pos.name == "plain" || pos.name == "pointer" {
						wantVal, _ = new(big.Int).SetString(strings.TrimSpace(lit), 10)
					} else {
						wantVal = nil
					}
				}
				for mode := 0; mode < 2; mode++ {
					if mode == 1 && pos.name == "pointer" {
						continue
					}
					mname := []string{"Unmarshal", "Decoder"}[mode]
					if mode == 1 && pos.name == "plain" && wantVal == nil && form != "bare-minus" && form != "empty" {
						// a stream legitimately ends a value where the next one may begin (00 is 0 then 0);
						// whole-document verdicts of streams are C05/C09's subject
						continue
					}
					fresh := pos.get(it.t, pos.dst(it.t))
					gd := pos.dst(it.t)
					var gerr error
					in := append([]byte(nil), doc...)
					p, msg := util.Safe(func() {
						if mode == 0 {
							gerr = json.Unmarshal(in, gd.Interface())
						} else {
							gerr = json.NewDecoder(bytes.NewReader(in)).Decode(gd.Interface())
						}
					})
					if p {
						c.Violation(fmt.Sprintf("decode %s %s %s : panic : %s", it.name, pos.name, mname, form), lit, msg)
						continue
					}
					got := pos.get(it.t, gd)
					kind := ""
					want := fresh
					if wantVal != nil {
						want = wantVal.String()
						if strings.HasPrefix(pos.name, "map key") {
							want = "[" + want + "]"
						}
					}
					switch {
					case wantVal != nil && gerr != nil:
						if form == "minus-zero" && !it.signed {
							break // -0 into an unsigned type: either verdict is defensible
						}
						kind = "rejected"
					case wantVal != nil && got != want:
						kind = "wrong-value"
					case wantVal == nil && gerr == nil:
						kind = "accepted"
					case wantVal == nil && got != fresh && !(pos.name == "pointer" && got == "0"):
						kind = "stored-on-error"
					}
					c.Outcome(pos.name + mname + kind + form)
					if kind != "" {
						c.Violation(fmt.Sprintf("decode %s %s %s : %s : %s", it.name, pos.name, mname, form, kind), lit,
							fmt.Sprintf("%s of %s into %s (%s): err=%v stored=%s, expected %s", mname, doc, it.name, pos.name, gerr, got, map[bool]string{true: "value " + want, false: "an error and the destination unchanged (" + fresh + ")"}[wantVal != nil]))
					}
				}
			}
			if c.WantSample() {
				c.Sample(it.name + " <- " + lit)
			}
			c.EndCase()
		}
	}
}

// ---- stream placement ---------------------------------------------------------------------------------
//
// c16.stream: the stream decoders scan digits across buffer refills with loops of their own. Every integer type
// x boundary literals (min, max, one beyond, a long one, powers of ten) is placed so that the literal ENDS at
// each offset 507..516 and 1019..1028 of the stream (the initial 512-byte buffer and its first doubling): at top
// level behind white space, as an array element and as an object member, read from a reader that delivers
// everything at once and from readers of 1, 3, 511, 512, 513 bytes per Read. Oracle: the exact value when the
// literal is a JSON integer in range, an error otherwise (math/big).

func init() {
	work.Register("C16", "c16.stream", c16Stream)
}

func c16Stream(c *work.Ctx) {
	ends := []int{507, 508, 509, 510, 511, 512, 513, 514, 515, 516, 1019, 1020, 1021, 1022, 1023, 1024, 1025, 1026, 1027, 1028}
	if !c.Quick() {
		for e := 2040; e <= 2056; e++ {
			ends = append(ends, e)
		}
		for e := 4090; e <= 4102; e++ {
			ends = append(ends, e)
		}
	}
	type form struct {
		name string
		doc  func(pad int, lit string) string
		dst  func(t reflect.Type) reflect.Value
		get  func(v reflect.Value) (string, bool) // decoded value as decimal text
		head int                                  // bytes before the padding
	}
	forms := []form{
		{"top level", func(p int, l string) string { return strings.Repeat(" ", p) + l + " " }, func(t reflect.Type) reflect.Value { return reflect.New(t) },
			func(v reflect.Value) (string, bool) { return fmt.Sprint(v.Elem().Interface()), true }, 0},
		{"array element", func(p int, l string) string { return "[" + strings.Repeat(" ", p) + l + ",7]" }, func(t reflect.Type) reflect.Value { return reflect.New(reflect.SliceOf(t)) },
			func(v reflect.Value) (string, bool) {
				if v.Elem().Len() != 2 {
					return "", false
				}
				return fmt.Sprint(v.Elem().Index(0).Interface()), fmt.Sprint(v.Elem().Index(1).Interface()) == "7"
			}, 1},
		{"object member", func(p int, l string) string { return `{"k":` + strings.Repeat(" ", p) + l + `,"j":7}` }, func(t reflect.Type) reflect.Value { return reflect.New(reflect.MapOf(reflect.TypeOf(""), t)) },
			func(v reflect.Value) (string, bool) {
				k := v.Elem().MapIndex(reflect.ValueOf("k"))
				j := v.Elem().MapIndex(reflect.ValueOf("j"))
				if !k.IsValid() || !j.IsValid() {
					return "", false
				}
				return fmt.Sprint(k.Interface()), fmt.Sprint(j.Interface()) == "7"
			}, 5},
	}
	for _, it := range c16IntTypes {
		one := big.NewInt(1)
		lits := []string{it.max().String(), new(big.Int).Add(it.max(), one).String(), it.min().String(), new(big.Int).Sub(it.min(), one).String(),
			"1234567890123456789012", "100", "12", "9", new(big.Int).Rsh(it.max(), 1).String(), new(big.Int).Mul(it.max(), big.NewInt(10)).String()}
		for _, lit := range lits {
			form16 := c16Form(lit, it)
			var wantVal *big.Int
			if form16 == "in-range" || form16 == "minus-zero" {
				wantVal, _ = new(big.Int).SetString(lit, 10)
			}
			for _, f := range forms {
				id := fmt.Sprintf("stream %s <- %s %s", it.name, f.name, lit)
				if !c.BeginS(id) {
					continue
				}
				for _, end := range ends {
					pad := end - len(lit) - f.head
					if pad < 0 {
						continue
					}
					doc := []byte(f.doc(pad, lit))
					for _, ps := range []int{0, 1, 3, 511, 512, 513} {
						var r io.Reader = bytes.NewReader(doc)
						if ps > 0 {
							r = &chunkReader{data: doc, pieceSize: ps, zeroAt: -1, failAt: -1}
						}
						dst := f.dst(it.t)
						var err error
						p, msg := util.Safe(func() { err = json.NewDecoder(r).Decode(dst.Interface()) })
						c.Count("stream_decodes", 1)
						kind := ""
						switch {
						case p:
							kind = "panic:" + util.ErrClass(msg)
						case wantVal != nil && err != nil:
							kind = "rejected"
						case wantVal == nil && err == nil:
							kind = "accepted"
						case wantVal != nil:
							if got, rest := f.get(dst); got != wantVal.String() || !rest {
								kind = "wrong-value"
							}
						}
						c.Outcome(kind)
						if kind != "" {
							got, _ := f.get(dst)
							c.Violation(fmt.Sprintf("stream decode %s : %s : %s : literal ending at buffer offset %d : %s", it.name, f.name, form16, end%512, kind),
								fmt.Sprintf("%s ending at %d, %d bytes per Read", id, end, ps), fmt.Sprintf("err=%v stored=%s", err, got))
						}
					}
				}
				if c.WantSample() {
					c.Sample(id)
				}
				c.EndCase()
			}
		}
	}
}
