package props

import (
	"bytes"
	stdjson "encoding/json"
	"fmt"
	"reflect"

	json "github.com/goccy/go-json"

	"verif/mc/oracle"
	"verif/mc/props/util"
	"verif/mc/universe"
	"verif/mc/work"
)

// C04 — Marshal followed by Unmarshal reproduces the value.

func init() {
	work.Register("C04", "c04.types", c04Types)
}

type rtChannel struct {
	name string
	enc  func(x interface{}) ([]byte, error)
	dec  func(b []byte, dst interface{}) error
}

var c04Channels = []rtChannel{
	{"Marshal->Unmarshal",
		func(x interface{}) ([]byte, error) { return json.Marshal(x) },
		func(b []byte, dst interface{}) error { return json.Unmarshal(b, dst) }},
	{"MarshalIndent->Unmarshal",
		func(x interface{}) ([]byte, error) { return json.MarshalIndent(x, " ", "\t") },
		func(b []byte, dst interface{}) error { return json.Unmarshal(b, dst) }},
	{"Encoder->Decoder",
		func(x interface{}) ([]byte, error) {
			var b bytes.Buffer
			err := json.NewEncoder(&b).Encode(x)
			return b.Bytes(), err
		},
		func(b []byte, dst interface{}) error { return json.NewDecoder(bytes.NewReader(b)).Decode(dst) }},
}

// RTTypes: the round-trippable sub-grammar.
func RTTypes() []reflect.Type {
	leaves := []reflect.Type{
		universe.TInt, universe.TString, universe.TBool, universe.TFloat64, universe.TIface, universe.TBytes,
		universe.TInt8, universe.TInt16, universe.TInt32, universe.TInt64, universe.TUint, universe.TUint8, universe.TUint16, universe.TUint32, universe.TUint64, universe.TUintptr, universe.TFloat32,
		universe.TNumber, universe.TRaw, universe.TTime, universe.TEmpty,
		reflect.TypeOf(universe.UJ{}), reflect.TypeOf(universe.UT{}), reflect.TypeOf(universe.Plain{}), reflect.TypeOf(universe.RecP{}),
		reflect.TypeOf(universe.EmbPtr{}), reflect.TypeOf(universe.EmbCase{}), reflect.TypeOf(universe.EmbCaseV{}),
		reflect.TypeOf(universe.ShBundle{}), reflect.TypeOf(universe.ShAmbUse{}),
	}
	seen := map[reflect.Type]bool{}
	var out []reflect.Type
	add := func(t reflect.Type) {
		if !seen[t] {
			seen[t] = true
			out = append(out, t)
		}
	}
	tags := []string{``, `json:"x"`, `json:",string"`}
	w1 := func(t reflect.Type, tags []string) []reflect.Type {
		r := []reflect.Type{reflect.PtrTo(t), reflect.SliceOf(t), reflect.ArrayOf(2, t), reflect.MapOf(universe.TString, t)}
		for _, tag := range tags {
			r = append(r, reflect.StructOf([]reflect.StructField{{Name: "F", Type: t, Tag: reflect.StructTag(tag)}}))
		}
		return r
	}
	for _, l := range leaves {
		add(l)
	}
	var l1 []reflect.Type
	for _, l := range leaves {
		for _, w := range w1(l, tags) {
			add(w)
			l1 = append(l1, w)
		}
	}
	for _, k := range []reflect.Type{universe.TInt, universe.TInt8, universe.TUint64, universe.TInt64, universe.TUint8} {
		add(reflect.MapOf(k, universe.TString))
	}
	for _, t := range l1 {
		for _, w := range w1(t, []string{``}) {
			add(w)
		}
	}
	small := []reflect.Type{universe.TInt, universe.TString, universe.TIface, universe.TFloat64, universe.TBytes, reflect.PtrTo(universe.TInt), reflect.SliceOf(universe.TString), reflect.MapOf(universe.TString, universe.TInt)}
	for _, a := range small {
		for _, b := range small {
			add(reflect.StructOf([]reflect.StructField{{Name: "F", Type: a}, {Name: "G", Type: b, Tag: `json:"g"`}}))
		}
	}
	return out
}

func c04RoundTrip(ch *rtChannel, t reflect.Type, x interface{}) (canon string, failure string) {
	var data []byte
	var err error
	if p, msg := util.Safe(func() { data, err = ch.enc(x) }); p {
		return "", "panic in encode: " + util.ErrClass(msg)
	}
	if err != nil {
		return "", "encode error: " + util.ErrClass(err.Error())
	}
	dst := reflect.New(t)
	if p, msg := util.Safe(func() { err = ch.dec(append([]byte(nil), data...), dst.Interface()) }); p {
		return "", "panic in decode: " + util.ErrClass(msg)
	}
	if err != nil {
		return "", "decode error: " + util.ErrClass(err.Error())
	}
	return oracle.Canon(dst.Elem()), ""
}

func c04Types(c *work.Ctx) {
	D := 3
	if !c.Quick() {
		D = 4
	}
	types := RTTypes()
	opts := &universe.ValOpts{RoundTrip: true}
	stdChs := []rtChannel{
		{"std", func(x interface{}) ([]byte, error) { return stdjson.Marshal(x) },
			func(b []byte, dst interface{}) error { return stdjson.Unmarshal(b, dst) }},
		{"std-indent", func(x interface{}) ([]byte, error) { return stdjson.MarshalIndent(x, " ", "\t") },
			func(b []byte, dst interface{}) error { return stdjson.Unmarshal(b, dst) }},
		{"std-stream", func(x interface{}) ([]byte, error) {
			var b bytes.Buffer
			err := stdjson.NewEncoder(&b).Encode(x)
			return b.Bytes(), err
		}, func(b []byte, dst interface{}) error { return stdjson.NewDecoder(bytes.NewReader(b)).Decode(dst) }},
	}
	encSpace(c, types, D, opts, func(t reflect.Type, v reflect.Value, id string) {
		if fatalPlaced(t, 0) {
			c.Count("skipped_listed_fatal_shape", 1)
			return
		}
		x := v.Interface()
		for i := range c04Channels {
			ch := &c04Channels[i]
			stdCh := stdChs[i]
			want, fail := c04RoundTrip(&stdCh, t, x)
			if fail != "" {
				c.Count("reference_round_trip_fails", 1)
				continue
			}
			if want != oracle.Canon(v) {
				c.Count("reference_round_trip_not_identity", 1)
			}
			got, fail := c04RoundTrip(ch, t, x)
			kind := ""
			switch {
			case fail != "":
				kind = fail
			case oracle.BadHeader(got):
				kind = "ill-formed header after decode"
			case got != want:
				kind = "value-differs"
			}
			c.Outcome(ch.name + kind)
			if kind == "" {
				continue
			}
			bv := blame(v, func(cv reflect.Value) bool {
				if fatalPlaced(cv.Type(), 0) {
					return false // a component that alone is a listed fatal shape is not executed here
				}
				w, f := c04RoundTrip(&stdCh, cv.Type(), cv.Interface())
				if f != "" {
					return false
				}
				g, f2 := c04RoundTrip(ch, cv.Type(), cv.Interface())
				return f2 != "" || g != w
			}, memoRel(ch.name, 0))
			c.Violation(fmt.Sprintf("%s : %s : %s", ch.name, sig(bv), kind), universe.Desc(t, 4)+" = "+universe.DescVal(v, 4),
				fmt.Sprintf("after %s got %s, encoding/json's own round trip gives %s (%s)", ch.name, clip([]byte(got)), clip([]byte(want)), id))
		}
		if c.WantSample() {
			c.Sample(id)
		}
	})
}
