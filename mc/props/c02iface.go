package props

import (
	"bytes"
	stdjson "encoding/json"
	"fmt"
	"reflect"

	json "github.com/goccy/go-json"

	"verif/mc/oracle"
	"verif/mc/props/util"
	"verif/mc/universe"
	"verif/mc/work"
)

// c02.iface / c06.iface — what an interface-typed destination position already HOLDS decides how it is decoded
// (encoding/json decodes into a non-nil pointer it finds there and replaces anything else, a typed nil pointer
// included). The type-directed documents of c02.types only ever pre-populate interfaces with a string, so this
// harness enumerates the held value: typed nil pointers, non-nil pointers (to scalars, structs, maps, slices,
// pointers, unmarshalers), non-pointer values, in four holders (top level, struct member, slice element, map
// value) x documents of every kind x {Unmarshal, Decoder}.
//
//	C02: error <=> error and canonical destination equality with encoding/json
//	C06: the call returns (no panic, no crash)

func init() {
	work.Register("C02", "c02.iface", func(c *work.Ctx) { ifaceHeld(c, true) })
	work.Register("C06", "c06.iface", func(c *work.Ctx) { ifaceHeld(c, false) })
}

type heldVal struct {
	name string
	mk   func() interface{}
}

func heldValues() []heldVal {
	return []heldVal{
		{"(*int)(nil)", func() interface{} { return (*int)(nil) }},
		{"(*string)(nil)", func() interface{} { return (*string)(nil) }},
		{"(*Plain)(nil)", func() interface{} { return (*universe.Plain)(nil) }},
		{"(*map[string]int)(nil)", func() interface{} { return (*map[string]int)(nil) }},
		{"(*[]int)(nil)", func() interface{} { return (*[]int)(nil) }},
		{"(**int)(nil)", func() interface{} { return (**int)(nil) }},
		{"(*interface{})(nil)", func() interface{} { return (*interface{})(nil) }},
		{"(*UJ)(nil)", func() interface{} { return (*universe.UJ)(nil) }},
		{"(*UT)(nil)", func() interface{} { return (*universe.UT)(nil) }},
		{"&int", func() interface{} { x := 7; return &x }},
		{"&string", func() interface{} { x := "pre"; return &x }},
		{"&Plain", func() interface{} { return &universe.Plain{A: 7} }},
		{"&map[string]int", func() interface{} { return &map[string]int{"old": 7} }},
		{"&[]int", func() interface{} { return &[]int{7, 7, 7} }},
		{"&&int", func() interface{} { x := 7; p := &x; return &p }},
		{"&(*int)(nil)", func() interface{} { var p *int; return &p }},
		{"&interface{}(nil)", func() interface{} { var v interface{}; return &v }},
		{"&interface{}(&int)", func() interface{} { x := 7; var v interface{} = &x; return &v }},
		{"&UJ", func() interface{} { return &universe.UJ{B: `"pre"`} }},
		{"&UT", func() interface{} { return &universe.UT{S: "pre"} }},
		{"int", func() interface{} { return 5 }},
		{"Plain", func() interface{} { return universe.Plain{A: 7} }},
		{"map[string]interface{}", func() interface{} { return map[string]interface{}{"old": 1.0} }},
		{"[]interface{}", func() interface{} { return []interface{}{"old"} }},
		{"nil", func() interface{} { return nil }},
	}
}

var heldDocs = []string{`null`, `1`, `-0`, `"s"`, `{"A":1,"c":2}`, `{"X":1}`, `{"old":null,"k":2}`, `{}`, `[1,2]`, `[]`, `[null]`, `true`, `1.5`, `"2006-01-02T15:04:05Z"`}

type heldHolder struct {
	name string
	mk   func(inner interface{}) interface{} // the pointer handed to Unmarshal
	wrap func(doc string) string
}

type heldStruct struct {
	A int
	I interface{}
	Z string
}

var heldHolders = []heldHolder{
	{"*interface{}", func(in interface{}) interface{} { v := in; return &v }, func(d string) string { return d }},
	{"*struct{A int; I interface{}; Z string}", func(in interface{}) interface{} { return &heldStruct{A: 1, I: in, Z: "z"} }, func(d string) string { return `{"A":2,"I":` + d + `,"Z":"y"}` }},
	{"*[]interface{}", func(in interface{}) interface{} { return &[]interface{}{in, in} }, func(d string) string { return `[` + d + `,` + d + `]` }},
	{"*map[string]interface{}", func(in interface{}) interface{} { return &map[string]interface{}{"k": in} }, func(d string) string { return `{"k":` + d + `}` }},
	{"*[1]interface{}", func(in interface{}) interface{} { return &[1]interface{}{in} }, func(d string) string { return `[` + d + `]` }},
}

func ifaceHeld(c *work.Ctx, compare bool) {
	entries := []struct {
		name     string
		std, goj func(b []byte, dst interface{}) error
	}{
		{"Unmarshal", func(b []byte, d interface{}) error { return stdjson.Unmarshal(b, d) }, func(b []byte, d interface{}) error { return json.Unmarshal(b, d) }},
		{"Decoder", func(b []byte, d interface{}) error { return stdjson.NewDecoder(bytes.NewReader(b)).Decode(d) }, func(b []byte, d interface{}) error { return json.NewDecoder(bytes.NewReader(b)).Decode(d) }},
	}
	for _, h := range heldHolders {
		for _, hv := range heldValues() {
			for _, doc := range heldDocs {
				text := h.wrap(doc)
				id := fmt.Sprintf("%s holding %s <- %s", h.name, hv.name, text)
				if !c.BeginS(id) {
					continue
				}
				for _, e := range entries {
					wantDst := h.mk(hv.mk())
					var werr error
					var want string
					if compare {
						if p, _ := util.Safe(func() { werr = e.std([]byte(text), wantDst); want = oracle.Canon(reflect.ValueOf(wantDst).Elem()) }); p {
							continue
						}
					}
					gotDst := h.mk(hv.mk())
					var gerr error
					if p, msg := util.Safe(func() { gerr = e.goj([]byte(text), gotDst) }); p {
						c.Violation(fmt.Sprintf("panic : %s : interface holding %s <- %s : %s", e.name, hv.name, oracle.DocKind(doc), util.ErrClass(msg)), id, fmt.Sprintf("%s panics: %s", e.name, msg))
						c.Outcome("panic")
						continue
					}
					c.Count("held_decodes", 1)
					if !compare {
						c.Outcome("returned")
						continue
					}
					got := oracle.Canon(reflect.ValueOf(gotDst).Elem())
					kind, detail := "", ""
					switch {
					case oracle.BadHeader(got):
						kind, detail = "ill-formed-header", "destination after decode: "+clip([]byte(got))
					case (gerr == nil) != (werr == nil) && gerr != nil:
						kind, detail = "err-vs-ok", fmt.Sprintf("go-json error %q; encoding/json succeeds with %s", gerr, clip([]byte(want)))
					case (gerr == nil) != (werr == nil):
						kind, detail = "ok-vs-err", fmt.Sprintf("go-json succeeds with %s; encoding/json error %q", clip([]byte(got)), werr)
					case gerr == nil && got != want:
						kind, detail = "value-differs", fmt.Sprintf("go-json %s; encoding/json %s", clip([]byte(got)), clip([]byte(want)))
					}
					c.Outcome(kind)
					if kind != "" {
						c.Violation(fmt.Sprintf("interface holding %s <- %s : %s : %s", hv.name, oracle.DocKind(doc), kind, e.name), id, e.name+": "+detail)
					}
				}
				if c.WantSample() {
					c.Sample(id)
				}
				c.EndCase()
			}
		}
	}
}
