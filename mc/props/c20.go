package props

import (
	"bytes"
	stdjson "encoding/json"
	"fmt"
	"reflect"
	"strings"

	json "github.com/goccy/go-json"

	"verif/mc/oracle"
	"verif/mc/props/util"
	"verif/mc/work"
)

// C20 — JSON Path extraction is a pure, correct function of path and document.

func init() {
	work.Register("C20", "c20.paths", c20Paths)
	work.Register("C20", "c20.reuse", c20Reuse)
}

var c20Alpha = []byte("$.[]*'\"01ab")

// c20Docs: documents over keys {a,b}, depth <= 3, width <= 2.
func c20Docs() []string {
	d0 := []string{`1`, `"s"`}
	var d1 []string
	d1 = append(d1, d0...)
	for _, x := range d0 {
		d1 = append(d1, `{"a":`+x+`}`, `[`+x+`]`)
		for _, y := range d0 {
			d1 = append(d1, `{"a":`+x+`,"b":`+y+`}`, `[`+x+`,`+y+`]`)
		}
	}
	small := []string{`1`, `{"a":1}`, `[1]`, `{"a":1,"b":"s"}`, `[1,"s"]`, `{"b":1}`}
	seen := map[string]bool{}
	var out []string
	add := func(s string) {
		if !seen[s] {
			seen[s] = true
			out = append(out, s)
		}
	}
	for _, s := range d1 {
		add(s)
	}
	for _, x := range d1 {
		add(`{"a":` + x + `}`)
		add(`{"b":` + x + `}`)
		add(`[` + x + `]`)
	}
	for _, x := range small {
		for _, y := range small {
			add(`{"a":` + x + `,"b":` + y + `}`)
			add(`[` + x + `,` + y + `]`)
		}
	}
	for _, x := range []string{`{"a":{"a":{"a":1,"b":2},"b":[{"a":3}]},"b":{"a":4}}`, `[[[1,2],[3]],{"a":[{"b":1},{"b":2}]}]`, `{"a":[{"b":1,"a":{"b":5}},{"b":2},3],"b":{"b":{"b":4}}}`, ` { "a" : [ 1 , { "b" : 2 } ] } `, `{}`, `[]`, `null`, `{"a":null}`, `{"a.b":{"a":1},"0":2,"":3}`, `{"\u0061":{"\u0062":1,"b\u0000":2},"a\/b":3}`, `[{"\u0061":1},{"a":2},{"\u0041":3}]`, `{"a":{"\"":1,"\\":2,"b":3}}`} {
		add(x)
	}
	return out
}

type extractResult struct {
	parts    []string
	err      error
	panicked bool
	pmsg     string
}

func c20Extract(p *json.Path, doc []byte) (r extractResult) {
	r.panicked, r.pmsg = util.Safe(func() {
		res, err := p.Extract(append([]byte(nil), doc...))
		r.err = err
		for _, x := range res {
			var b bytes.Buffer
			if stdjson.Compact(&b, x) != nil {
				r.parts = append(r.parts, "!invalid:"+string(x))
				continue
			}
			r.parts = append(r.parts, b.String())
		}
	})
	return
}

func (r extractResult) String() string {
	if r.panicked {
		return "PANIC " + r.pmsg
	}
	if r.err != nil {
		return "error"
	}
	return fmt.Sprintf("%q", r.parts)
}

func c20StepKinds(steps []oracle.PathStep) string {
	var sb strings.Builder
	sb.WriteByte('$')
	for _, s := range steps {
		switch s.Kind {
		case 'n':
			sb.WriteString(".n")
		case 'r':
			sb.WriteString("..n")
		case 'i':
			sb.WriteString("[d]")
		default:
			sb.WriteString("[*]")
		}
	}
	return sb.String()
}

// c20Compare judges one (path, document) evaluation against the reference.
func c20Compare(steps []oracle.PathStep, got extractResult, doc []byte) (kind string) {
	want, ok := oracle.EvalPath(steps, doc)
	switch {
	case got.panicked:
		return "panic:" + util.ErrClass(got.pmsg)
	case !ok:
		if got.err == nil {
			return "accepts-invalid-document"
		}
		return ""
	case got.err != nil:
		if len(want) == 0 {
			return "" // an error returns no sub-document; that equals the empty selection
		}
		return "error-instead-of-selection"
	case len(got.parts) == 0 && len(want) > 0:
		return "selects-nothing"
	case len(want) == 0 && len(got.parts) > 0:
		return "selects-where-reference-selects-nothing"
	case len(got.parts) != len(want):
		if len(got.parts) < len(want) {
			return "selects-too-few"
		}
		return "selects-too-many"
	}
	same := true
	for i := range want {
		if want[i] != got.parts[i] {
			same = false
		}
	}
	if same {
		return ""
	}
	a := append([]string(nil), want...)
	b := append([]string(nil), got.parts...)
	sortStrings(a)
	sortStrings(b)
	if reflect.DeepEqual(a, b) {
		return "wrong-order"
	}
	return "selects-other-parts"
}

func sortStrings(s []string) {
	for i := 1; i < len(s); i++ {
		for j := i; j > 0 && s[j] < s[j-1]; j-- {
			s[j], s[j-1] = s[j-1], s[j]
		}
	}
}

// c20V reports a violation; when the harness runs for C06 (no panic, crash or
// hang) only panics are that property's business.
func c20V(c *work.Ctx, class, witness, detail string) {
	if c.Prop == "C06" && !strings.HasPrefix(class, "panic") {
		return
	}
	c.Violation(class, witness, detail)
}

func c20Paths(c *work.Ctx) {
	max := 5
	if !c.Quick() {
		max = 6
	}
	docs := c20Docs()
	c.SelfSharded = true
	// typed sources for Path.Get
	type srcT struct {
		A interface{} `json:"a"`
		B []int       `json:"b"`
	}
	one := 1
	sources := []interface{}{
		map[string]interface{}{"a": map[string]interface{}{"b": []interface{}{1.0, "s"}}, "b": 2.0},
		[]interface{}{1.0, map[string]interface{}{"a": 1.0}},
		srcT{A: map[string]int{"b": 1}, B: []int{1, 2}},
		&srcT{A: 1, B: nil},
		map[string]*int{"a": &one, "b": nil},
		[]map[string][]int{{"a": {1, 2}}},
		1, "s", nil, (*srcT)(nil),
	}
	util.ForEachString(c20Alpha, max, c.Shard, c.NShards, func(pb []byte) bool {
		if pb[0] != '$' && len(pb) > 2 {
			// a path that does not start with $ is rejected at once; one representative per length suffices
			if pb[0] != 'a' || pb[1] != '.' {
				return true
			}
		}
		ps := string(pb)
		if !c.Begin(pb) {
			return true
		}
		defer c.EndCase()
		var path *json.Path
		var err error
		if p, msg := util.Safe(func() { path, err = json.CreatePath(ps) }); p {
			c20V(c, "panic : CreatePath : "+oracle.PathShape(ps), ps, msg)
			return true
		}
		steps, refOK := oracle.ParsePath(ps)
		c.RefCheck(0)
		switch {
		case err == nil && !refOK:
			c20V(c, "path accepts-malformed : "+oracle.PathShape(ps), ps, fmt.Sprintf("CreatePath(%q) succeeds; the documented grammar does not derive it (PathString %q)", ps, path.PathString()))
			c.Outcome("accepts-malformed")
		case err != nil && refOK:
			c20V(c, "path rejects-documented : "+oracle.PathShape(ps), ps, fmt.Sprintf("CreatePath(%q) fails with %v; the documented grammar derives it", ps, err))
			c.Outcome("rejects-documented")
		case err != nil:
			c.Outcome("rejected")
		}
		if err != nil {
			return true
		}
		// evaluation: a fresh Path per document (reuse is c20.reuse's subject)
		for _, doc := range docs {
			fresh, e2 := json.CreatePath(ps)
			if e2 != nil {
				break
			}
			got := c20Extract(fresh, []byte(doc))
			c.Count("evaluations", 1)
			if !refOK {
				if got.panicked {
					c20V(c, "panic : Extract (malformed path accepted) : "+oracle.PathShape(ps), ps+" on "+doc, got.pmsg)
				}
				continue
			}
			kind := c20Compare(steps, got, []byte(doc))
			c.Outcome(c20StepKinds(steps) + kind)
			if kind != "" {
				want, _ := oracle.EvalPath(steps, []byte(doc))
				c20V(c, fmt.Sprintf("Extract : %s : %s", c20StepKinds(steps), kind), ps+" on "+doc, fmt.Sprintf("Extract gives %s; the reference selects %q", got, want))
				continue
			}
			// Path.Unmarshal decodes the same parts
			if got.err == nil {
				fresh2, _ := json.CreatePath(ps)
				var v []interface{}
				var uerr error
				if p, msg := util.Safe(func() { uerr = fresh2.Unmarshal([]byte(doc), &v) }); p {
					c20V(c, "panic : Path.Unmarshal : "+c20StepKinds(steps), ps+" on "+doc, msg)
				} else if uerr == nil {
					var want []interface{}
					for _, part := range got.parts {
						var x interface{}
						stdjson.Unmarshal([]byte(part), &x)
						want = append(want, x)
					}
					if len(want) > 0 && !reflect.DeepEqual(v, want) {
						c20V(c, "Path.Unmarshal : differs from Extract : "+c20StepKinds(steps), ps+" on "+doc, fmt.Sprintf("Unmarshal gives %v; Extract parts %q", v, got.parts))
					}
				} else if len(got.parts) > 0 {
					c20V(c, "Path.Unmarshal : error where Extract selects : "+c20StepKinds(steps), ps+" on "+doc, uerr.Error())
				}
			}
		}
		// Path.Get must return (C06) for every source
		for si, src := range sources {
			fresh, _ := json.CreatePath(ps)
			var dst interface{}
			if p, msg := util.Safe(func() { fresh.Get(src, &dst) }); p {
				c20V(c, fmt.Sprintf("panic : Path.Get : source %T : %s", src, util.ErrClass(msg)), fmt.Sprintf("%s on source #%d %T", ps, si, src), msg)
			}
			var dst2 []int
			if p, msg := util.Safe(func() { fresh.Get(src, &dst2) }); p {
				c20V(c, fmt.Sprintf("panic : Path.Get into []int : source %T : %s", src, util.ErrClass(msg)), fmt.Sprintf("%s on source #%d %T", ps, si, src), msg)
			}
		}
		if c.WantSample() {
			c.Sample(ps)
		}
		return true
	})
}

// ---- reuse histories: one Path, several Extract calls, some of them failing ---------------------

func c20Reuse(c *work.Ctx) {
	paths := []string{"$.a", "$.a.b", "$.a.a.a", "$.a[0]", "$.a[1].b", "$.a[*]", "$.a[*].b", "$..b", "$..a.b", "$.a..b", "$[0]", "$[*].a", "$[1][0]", "$['a'].b", `$."a".b`, "$.b.b.b", "$.a[0].a[0]", "$"}
	docs := []string{
		`{"a":{"b":1,"a":{"a":2}},"b":{"b":{"b":3}}}`, // matches object paths
		`{"a":[{"b":1,"a":[5]},{"b":2}],"b":3}`,       // matches array paths
		`[{"a":1},[2,3]]`,                             // top-level array
		`{"a":{"b":[1,`,                               // fails in the middle of evaluation (truncated)
		`{"a":{"b":tru}}`,                             // fails in the middle (bad literal)
		`{"x":1}`,                                     // selects nothing
		`{"a":1}`,                                     // scalar where a container is expected
		`x`,                                           // invalid at once
	}
	depth := 3
	if !c.Quick() {
		depth = 4
	}
	for _, ps := range paths {
		steps, ok := oracle.ParsePath(ps)
		if !ok {
			c.HarnessError("reference grammar rejects harness path " + ps)
			continue
		}
		// fresh-Path result per document
		fresh := make([]string, len(docs))
		for i, d := range docs {
			p, err := json.CreatePath(ps)
			if err != nil {
				c.Violation("path rejects-documented : "+oracle.PathShape(ps), ps, err.Error())
				continue
			}
			fresh[i] = c20Extract(p, []byte(d)).String()
		}
		idx := make([]int, depth)
		for l := 1; l <= depth; l++ {
			for i := range idx[:l] {
				idx[i] = 0
			}
			for {
				id := fmt.Sprintf("%s history %v", ps, idx[:l])
				if c.BeginS(id) {
					p, err := json.CreatePath(ps)
					if err == nil {
						for step, di := range idx[:l] {
							got := c20Extract(p, []byte(docs[di])).String()
							c.Outcome(got)
							if got != fresh[di] {
								// canonical minimal history: the earliest earlier call that alone causes it
								cause := -1
								for _, pj := range idx[:step] {
									q, _ := json.CreatePath(ps)
									c20Extract(q, []byte(docs[pj]))
									if c20Extract(q, []byte(docs[di])).String() != fresh[di] {
										cause = pj
										break
									}
								}
								c.Violation(fmt.Sprintf("reuse : %s : after a call on %s the call on %s differs from a fresh Path", c20StepKinds(steps), c20DocRole(cause), c20DocRole(di)), id,
									fmt.Sprintf("path %s, documents %v: call %d on %s gives %s, a fresh Path gives %s", ps, idx[:l], step, docs[di], got, fresh[di]))
								break
							}
						}
					}
					if c.WantSample() {
						c.Sample(id)
					}
					c.EndCase()
				}
				k := l - 1
				for k >= 0 {
					idx[k]++
					if idx[k] < len(docs) {
						break
					}
					idx[k] = 0
					k--
				}
				if k < 0 {
					break
				}
			}
		}
	}
}

func c20DocRole(i int) string {
	switch i {
	case 0:
		return "an object document"
	case 1:
		return "an array-bearing document"
	case 2:
		return "a top-level array"
	case 3:
		return "a truncated document"
	case 4:
		return "a document with a bad literal"
	case 5:
		return "a document selecting nothing"
	case 6:
		return "a scalar member"
	case 7:
		return "an invalid document"
	}
	return "several earlier calls"
}

// ---- long flat documents and truncated documents ---------------------------------------------------------
//
// c20.long: (1) documents with N sibling containers (N around the library's nesting limit of 10000 and beyond),
// evaluated with paths that select a member behind them, a member of one of them, and all of them; (2) every
// truncation of a set of small documents, for every accepted path of up to three selectors over {a, b, 0, 1, *}:
// the reference says "not a document" for a truncation, so the library must return an error — it must in
// particular return (c20V passes only panics on to C06).

func init() {
	work.Register("C20", "c20.long", c20Long)
	work.Register("C06", "c06.pathtrunc", c20Long)
}

func c20Long(c *work.Ctx) {
	ns := []int{10, 4999, 5001, 9999, 10000, 10001, 12000}
	if !c.Quick() {
		ns = append(ns, 20001, 50000)
	}
	type fam struct {
		name string
		doc  func(n int) string
	}
	rep := func(open, inner, close string, n int) string {
		var sb strings.Builder
		sb.WriteString(open)
		for i := 0; i < n; i++ {
			if i > 0 {
				sb.WriteByte(',')
			}
			sb.WriteString(strings.Replace(inner, "#", fmt.Sprint(i), -1))
		}
		sb.WriteString(close)
		return sb.String()
	}
	fams := []fam{
		{"object with N objects in an array, then a member", func(n int) string { return rep(`{"a":[`, `{"b":#}`, `],"b":1}`, n) }},
		{"object with N arrays in an object, then a member", func(n int) string { return rep(`{"a":{`, `"k#":[#]`, `},"b":1}`, n) }},
		{"array of N objects", func(n int) string { return rep(`[`, `{"a":#,"b":[#]}`, `]`, n) }},
	}
	paths := []string{"$.b", "$.a", "$.a[0].b", "$.a[1]", "$.a[*].b", "$[0].a", "$[1].b[0]", "$[*].a", "$.a.k0", "$.a.k1[0]"}
	for _, f := range fams {
		for _, n := range ns {
			doc := []byte(f.doc(n))
			for _, ps := range paths {
				id := fmt.Sprintf("long: %s, N=%d, path %s", f.name, n, ps)
				if !c.BeginS(id) {
					continue
				}
				p, err := json.CreatePath(ps)
				steps, ok := oracle.ParsePath(ps)
				if err != nil || !ok {
					c.EndCase()
					continue
				}
				got := c20Extract(p, doc)
				c.Count("long_extractions", 1)
				if kind := c20Compare(steps, got, doc); kind != "" {
					nb := "N below 10000"
					if n >= 10000 {
						nb = "N from 10000"
					}
					c20V(c, fmt.Sprintf("%s : long document : %s : %s : %s", strings.SplitN(kind, ":", 2)[0], f.name, c20StepKinds(steps), nb), id, fmt.Sprintf("%s gives %s", ps, clip([]byte(got.String()))))
				}
				c.Outcome("done")
				c.EndCase()
			}
		}
	}
	// (1b) index selectors written with many digits: the number a path text names is its decimal value. An index
	// the library cannot represent may be refused by CreatePath; an accepted one selects what the same value written
	// plainly selects (nothing, when it is beyond the array) — never another element.
	{
		type hv struct {
			text  string
			plain string // the same value (or, beyond every array, the first index past the end) written plainly
			fits  bool   // the value fits an int64
		}
		huge := []hv{
			{"0000000000000000000000001", "1", true}, {"00000000000000000000000000000000", "0", true},
			{"9223372036854775807", "3", true}, {"9223372036854775808", "3", false}, {"18446744073709551615", "3", false},
			{"18446744073709551616", "3", false}, {"18446744073709551617", "3", false}, {"18446744073709551618", "3", false},
			{"36893488147419103233", "3", false}, {"100000000000000000000", "3", false}, {"4294967296", "3", true}, {"4294967297", "3", true},
			{"340282366920938463463374607431768211457", "3", false},
		}
		hdocs := []struct{ pre, post, doc string }{
			{"$[", "]", `[10,20,30]`}, {"$.a[", "]", `{"a":[10,20,30]}`}, {"$.a[", "].b", `{"a":[{"b":1},{"b":2},{"b":3}]}`}, {"$[1][", "]", `[[7],[10,20,30]]`},
		}
		for _, h := range huge {
			for _, hd := range hdocs {
				ps := hd.pre + h.text + hd.post
				id := "long index: " + ps + " on " + hd.doc
				if !c.BeginS(id) {
					continue
				}
				var path *json.Path
				var err error
				if pn, msg := util.Safe(func() { path, err = json.CreatePath(ps) }); pn {
					c20V(c, "panic : CreatePath : index of many digits", id, msg)
					c.EndCase()
					continue
				}
				c.Count("long_extractions", 1)
				switch {
				case err != nil && h.fits:
					c20V(c, "path rejects-documented : index of many digits that fits 64 bits", id, err.Error())
				case err == nil:
					ref, _ := json.CreatePath(hd.pre + h.plain + hd.post)
					got, want := c20Extract(path, []byte(hd.doc)), c20Extract(ref, []byte(hd.doc))
					if got.String() != want.String() {
						c20V(c, "Extract : index of many digits : selects another element than its value names", id,
							fmt.Sprintf("%s gives %s ; the same value written as %s gives %s", ps, got, h.plain, want))
					}
				}
				c.Outcome("done")
				c.EndCase()
			}
		}
	}
	// (2) truncations: the library's verdicts on documents it only partly reads are listed under C20 already
	// (c20.paths); here only "it returns" is judged, which is C06's subject
	if c.Prop != "C06" {
		return
	}
	docs := []string{`{"a":{"b":[10,20]},"b":[1,{"a":2}]}`, `[1,[2,3],{"a":[4]}]`, `{"a":[{"b":10},{"b":"x\"y"}]}`, ` { "a" : [ true , null ] } `}
	syms := []string{".a", ".b", "[0]", "[1]", "[*]", "..a"}
	var tpaths []string
	var rec func(cur string, d int)
	rec = func(cur string, d int) {
		if d > 0 {
			tpaths = append(tpaths, cur)
		}
		if d == 3 {
			return
		}
		for _, s := range syms {
			rec(cur+s, d+1)
		}
	}
	rec("$", 0)
	for _, ps := range tpaths {
		id := "truncations: path " + ps
		if !c.BeginS(id) {
			continue
		}
		p, err := json.CreatePath(ps)
		steps, ok := oracle.ParsePath(ps)
		if err == nil && ok {
			for _, d := range docs {
				for k := 0; k <= len(d); k++ {
					doc := []byte(d[:k])
					got := c20Extract(p, doc)
					c.Count("truncated_extractions", 1)
					kind := c20Compare(steps, got, doc)
					// Path.Unmarshal on the same input must return as well
					var v interface{}
					if pn, msg := util.Safe(func() { _ = p.Unmarshal(append([]byte(nil), doc...), &v) }); pn && kind == "" {
						kind = "panic:Path.Unmarshal:" + util.ErrClass(msg)
					}
					if kind != "" {
						where := "truncated"
						if k == len(d) {
							where = "complete"
						}
						c20V(c, fmt.Sprintf("%s : %s document : %s", strings.SplitN(kind, ":", 2)[0], where, c20StepKinds(steps)), fmt.Sprintf("%s on %q", ps, doc), fmt.Sprintf("%s on %q gives %s (%s)", ps, doc, clip([]byte(got.String())), kind))
					}
				}
			}
		}
		c.Outcome("done")
		c.EndCase()
	}
}
