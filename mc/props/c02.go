package props

import (
	"bytes"
	stdjson "encoding/json"
	"fmt"
	"reflect"
	"strings"
	"unicode/utf8"

	json "github.com/goccy/go-json"

	"verif/mc/explore"
	"verif/mc/oracle"
	"verif/mc/props/util"
	"verif/mc/universe"
	"verif/mc/work"
)

// C02 — Unmarshal agrees with encoding/json on every valid document and target.

func init() {
	work.Register("C02", "c02.types", c02Types)
}

type decEntry struct {
	name string
	std  func(b []byte, dst interface{}) error
	goj  func(b []byte, dst interface{}) error
}

var c02Entries = []decEntry{
	{"Unmarshal",
		func(b []byte, dst interface{}) error { return stdjson.Unmarshal(b, dst) },
		func(b []byte, dst interface{}) error { return json.Unmarshal(b, dst) }},
	{"Decoder",
		func(b []byte, dst interface{}) error { return stdjson.NewDecoder(bytes.NewReader(b)).Decode(dst) },
		func(b []byte, dst interface{}) error { return json.NewDecoder(bytes.NewReader(b)).Decode(dst) }},
	{"Decoder+UseNumber",
		func(b []byte, dst interface{}) error {
			d := stdjson.NewDecoder(bytes.NewReader(b))
			d.UseNumber()
			return d.Decode(dst)
		},
		func(b []byte, dst interface{}) error {
			d := json.NewDecoder(bytes.NewReader(b))
			d.UseNumber()
			return d.Decode(dst)
		}},
	{"Decoder+DisallowUnknownFields",
		func(b []byte, dst interface{}) error {
			d := stdjson.NewDecoder(bytes.NewReader(b))
			d.DisallowUnknownFields()
			return d.Decode(dst)
		},
		func(b []byte, dst interface{}) error {
			d := json.NewDecoder(bytes.NewReader(b))
			d.DisallowUnknownFields()
			return d.Decode(dst)
		}},
}

func newDest(t reflect.Type, prefilled bool) reflect.Value {
	p := reflect.New(t)
	if prefilled {
		universe.Prefill(p.Elem(), 0)
	}
	return p
}

// c02Compare decodes text into a destination of type t through entry e with
// both libraries. kind=="" means agreement.
func c02Compare(e *decEntry, t reflect.Type, text []byte, prefilled bool) (kind, detail string) {
	wantDst := newDest(t, prefilled)
	var werr error
	if p, _ := util.Safe(func() { werr = e.std(append([]byte(nil), text...), wantDst.Interface()) }); p {
		return "", "" // reference fails on this run-time type: inapplicable
	}
	want := oracle.Canon(wantDst.Elem())
	gotDst := newDest(t, prefilled)
	var gerr error
	if p, msg := util.Safe(func() { gerr = e.goj(append([]byte(nil), text...), gotDst.Interface()) }); p {
		return "panic:" + util.ErrClass(msg), "go-json panics: " + msg
	}
	got := oracle.Canon(gotDst.Elem())
	if oracle.BadHeader(got) {
		return "ill-formed-header", "destination after decode: " + clip([]byte(got))
	}
	if (gerr == nil) != (werr == nil) {
		if gerr != nil {
			return "err-vs-ok", fmt.Sprintf("go-json error %q; encoding/json succeeds with %s", gerr, clip([]byte(want)))
		}
		return "ok-vs-err", fmt.Sprintf("go-json succeeds with %s; encoding/json error %q", clip([]byte(got)), werr)
	}
	if gerr != nil {
		return "", ""
	}
	if got != want {
		return "value-differs", fmt.Sprintf("go-json %s; encoding/json %s", clip([]byte(got)), clip([]byte(want)))
	}
	return "", ""
}

// subPairs returns the immediate (type, sub-document) pairs of a document node.
func subPairs(d *universe.Doc) []*universe.Doc {
	switch d.Kind {
	case 'a':
		return d.Arr
	case 'o':
		var out []*universe.Doc
		for _, m := range d.Obj {
			out = append(out, m.Val)
		}
		return out
	}
	return nil
}

func elemTypeFor(parent reflect.Type, child *universe.Doc) reflect.Type {
	if child.For != nil {
		return child.For
	}
	return nil
}

// c02Blame reduces a failing (type, document) pair: it first shrinks the
// document (drops members / elements, restores canonical key spellings) while
// the same kind of difference persists, then descends into the first
// sub-pair that fails alone, and repeats.
func c02Blame(e *decEntry, d *universe.Doc, kind string, prefilled bool, memo map[string]bool) *universe.Doc {
	fails := func(t reflect.Type, x *universe.Doc) bool {
		txt := x.String()
		key := t.String() + "|" + txt
		f, ok := memo[key]
		if !ok {
			k, _ := c02Compare(e, t, []byte(txt), prefilled)
			f = k == kind
			memo[key] = f
		}
		return f
	}
	for depth := 0; depth < 6; depth++ {
		// shrink at this level
		for changed := true; changed; {
			changed = false
			switch d.Kind {
			case 'o':
				for i := range d.Obj {
					nd := *d
					nd.Obj = append(append([]universe.Member(nil), d.Obj[:i]...), d.Obj[i+1:]...)
					if fails(d.For, &nd) {
						d = &nd
						changed = true
						break
					}
				}
				if !changed && d.For.Kind() == reflect.Struct {
					for i, m := range d.Obj {
						canon := ""
						for fi := 0; fi < d.For.NumField(); fi++ {
							if n, ok, _ := universe.JSONName(d.For.Field(fi)); ok && strings.EqualFold(`"`+n+`"`, m.Key) && `"`+n+`"` != m.Key {
								canon = `"` + n + `"`
							}
						}
						if canon == "" {
							continue
						}
						nd := *d
						nd.Obj = append([]universe.Member(nil), d.Obj...)
						nd.Obj[i].Key = canon
						if fails(d.For, &nd) {
							d = &nd
							changed = true
							break
						}
					}
				}
			case 'a':
				for i := range d.Arr {
					nd := *d
					nd.Arr = append(append([]*universe.Doc(nil), d.Arr[:i]...), d.Arr[i+1:]...)
					if fails(d.For, &nd) {
						d = &nd
						changed = true
						break
					}
				}
			}
		}
		// descend
		found := false
		for _, sd := range subPairs(d) {
			if sd.For == nil {
				continue
			}
			if fails(sd.For, sd) {
				d = sd
				found = true
				break
			}
		}
		if !found {
			break
		}
	}
	return d
}

func c02Types(c *work.Ctx) {
	D := 2
	if !c.Quick() {
		D = 3
	}
	types := universe.Types(2, true)
	c.SelfSharded = true
	memos := map[string]map[string]bool{}
	for ti, t := range types {
		if ti%c.NShards != c.Shard {
			continue
		}
		if c.TimeUp() {
			c.NotExhaustive(fmt.Sprintf("deadline reached at type %d of %d", ti, len(types)))
			return
		}
		bound := D
		if !c.Quick() {
			bound = thoroughBound(D, ti, c.NShards)
		}
		ex := &explore.Explorer{Bound: bound}
		ex.Run(func(ch *explore.Chooser) {
			doc := universe.GenDoc(t, ch, 0)
			doc.For = t
			ws := ""
			if ch.Deviate(2) == 1 {
				ws = " \n"
			}
			var sb strings.Builder
			sb.WriteString(ws)
			doc.Render(&sb, ws)
			sb.WriteString(ws)
			text := []byte(sb.String())
			id := fmt.Sprintf("type#%d %s <- %s", ti, t.String(), text)
			if len(id) > 600 {
				id = id[:600]
			}
			if !c.BeginS(id) {
				return
			}
			defer c.EndCase()
			if !utf8.Valid(text) || !oracle.Valid(text) {
				c.Count("generated_texts_outside_the_property", 1)
				return
			}
			c.RefCheck(1)
			if !stdjson.Valid(text) {
				c.HarnessError(fmt.Sprintf("recogniser accepts %q, encoding/json.Valid does not", text))
				return
			}
			// the full (initial destination x entry point) matrix first, then one report per
			// distinct difference kind with the set of failing combinations folded into labels
			type cell struct {
				kind, detail string
				pre          bool
				e            int
			}
			var cells []cell
			for _, pre := range []bool{false, true} {
				for i := range c02Entries {
					kind, detail := c02Compare(&c02Entries[i], t, text, pre)
					c.Outcome(c02Entries[i].name + kind)
					cells = append(cells, cell{kind, detail, pre, i})
				}
			}
			seenKind := map[string]bool{}
			for _, first := range cells {
				if first.kind == "" || seenKind[first.kind] {
					continue
				}
				seenKind[first.kind] = true
				var nz, np int
				ents := map[int]bool{}
				for _, x := range cells {
					if x.kind == first.kind {
						if x.pre {
							np++
						} else {
							nz++
						}
						ents[x.e] = true
					}
				}
				init := "any dst"
				if np == 0 {
					init = "zero dst"
				} else if nz == 0 {
					init = "prefilled dst"
				}
				ep := ""
				switch {
				case len(ents) == len(c02Entries):
					ep = "all entry points"
				case !ents[0] && len(ents) == len(c02Entries)-1:
					ep = "Decoder entry points"
				default:
					for i := range c02Entries {
						if ents[i] {
							ep += "+" + c02Entries[i].name
						}
					}
					ep = strings.TrimPrefix(ep, "+")
				}
				e := &c02Entries[first.e]
				mk := fmt.Sprintf("%s/%v", e.name, first.pre)
				if memos[mk] == nil {
					memos[mk] = map[string]bool{}
				}
				bd := c02Blame(e, doc, first.kind, first.pre, memos[mk])
				bt := bd.For
				for bt.Kind() == reflect.Ptr && bd.Kind == 'l' && bd.Lit != "null" {
					bt = bt.Elem()
				}
				c.Violation(fmt.Sprintf("%s <- %s : %s : %s : %s", universe.Desc(bt, 2), bd.Skeleton(2), first.kind, init, ep),
					fmt.Sprintf("%s <- %s", universe.Desc(t, 4), text), e.name+": "+first.detail)
			}
			if c.WantSample() {
				c.Sample(id)
			}
		})
	}
}
