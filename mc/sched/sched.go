//go:build vshim
// +build vshim

// Package sched is a cooperative scheduler for the library under test.
//
// T goroutines run, exactly one at a time. Control changes hands only at the
// library's synchronisation operations (through the vsync shim) and at the
// shared-access points (verifhook.Point). At every point the next goroutine is
// a choice of the explorer: the running goroutine first (answer 0), switching
// away from a goroutine that could continue costs one preemption. A goroutine
// that cannot proceed waits inside the scheduler, so "nothing enabled" is a
// visible deadlock, and every execution has a step horizon.
//
// Every execution also carries vector clocks. Shim operations are
// happens-before edges; two accesses to the same hooked location, at least
// one a write, with no happens-before path are reported as a race on the
// explored schedule.
package sched

import (
	"fmt"
	"unsafe"

	json "github.com/goccy/go-json"

	"verif/mc/explore"
)

type thread struct {
	id      int
	resume  chan bool
	done    bool
	blocked func() bool
	what    string
	vc      []int
	panicV  interface{}
}

type access struct {
	thread int
	clock  int
}

type loc struct {
	lastWrite access
	hasWrite  bool
	reads     []access
}

// Result of one execution.
type Result struct {
	Deadlock   bool
	Horizon    bool
	Races      []string
	Panics     []string
	Steps      int
	Switches   int
	BlockedOn  []string
	PointTrace []string
}

type Sched struct {
	ch       *explore.Chooser
	threads  []*thread
	cur      *thread
	yield    chan struct{}
	res      Result
	horizon  int
	syncVC   map[unsafe.Pointer][]int
	locs     map[unsafe.Pointer]*loc
	raceSeen map[string]bool
	Trace    bool
	// PoolFresh makes every Pool.Get return a fresh object (pool answer 1) instead of the most recent one.
	PoolFresh bool
}

// atomicPoints are the hooked locations the library accesses with sync/atomic
// (FieldQuery.hash since the fix that publishes it atomically). The free-running
// race-detector pass is what notices if one of them becomes a plain access again.
var atomicPoints = map[int]bool{5: true, 6: true}

type abortSignal struct{}

func join(a, b []int) []int {
	for i := range a {
		if b[i] > a[i] {
			a[i] = b[i]
		}
	}
	return a
}

// yieldPoint hands control to the scheduler and waits to be resumed.
func (s *Sched) yieldPoint() {
	t := s.cur
	s.yield <- struct{}{}
	if ok := <-t.resume; !ok {
		panic(abortSignal{})
	}
}

func (s *Sched) onSync(op string, addr unsafe.Pointer) {
	if s.cur == nil {
		return
	}
	if s.Trace {
		s.res.PointTrace = append(s.res.PointTrace, fmt.Sprintf("T%d %s", s.cur.id, op))
	}
	s.yieldPoint()
}

func (s *Sched) onBlock(ready func() bool, what string) {
	t := s.cur
	if t == nil {
		return
	}
	t.blocked = ready
	t.what = what
	s.yieldPoint()
	t.blocked = nil
}

func (s *Sched) acquire(addr unsafe.Pointer) {
	t := s.cur
	if t == nil {
		return
	}
	if l, ok := s.syncVC[addr]; ok {
		t.vc = join(t.vc, l)
	}
}

func (s *Sched) release(addr unsafe.Pointer) {
	t := s.cur
	if t == nil {
		return
	}
	l, ok := s.syncVC[addr]
	if !ok {
		l = make([]int, len(s.threads))
		s.syncVC[addr] = l
	}
	join(l, t.vc)
	t.vc[t.id]++
}

// onPoint: an access to a hooked shared location.
func (s *Sched) onPoint(id int, addr unsafe.Pointer, write bool) {
	t := s.cur
	if t == nil {
		return
	}
	if s.Trace {
		s.res.PointTrace = append(s.res.PointTrace, fmt.Sprintf("T%d point%d w=%v", t.id, id, write))
	}
	s.yieldPoint()
	if atomicPoints[id] {
		// the access that follows the point is an atomic load/store (a synchronisation
		// operation, not a plain access): a scheduling point and a happens-before edge
		s.acquire(addr)
		if write {
			s.release(addr)
		}
		return
	}
	// race check at the moment the access happens
	l := s.locs[addr]
	if l == nil {
		l = &loc{}
		s.locs[addr] = l
	}
	hb := func(a access) bool { return a.thread == t.id || a.clock <= t.vc[a.thread] }
	report := func(kind string, a access) {
		k := fmt.Sprintf("point %d: %s", id, kind)
		if !s.raceSeen[k] {
			s.raceSeen[k] = true
			s.res.Races = append(s.res.Races, k)
		}
	}
	if l.hasWrite && !hb(l.lastWrite) {
		if write {
			report("write/write", l.lastWrite)
		} else {
			report("write/read", l.lastWrite)
		}
	}
	if write {
		for _, r := range l.reads {
			if !hb(r) {
				report("read/write", r)
			}
		}
		l.lastWrite = access{t.id, t.vc[t.id]}
		l.hasWrite = true
		l.reads = l.reads[:0]
	} else {
		l.reads = append(l.reads, access{t.id, t.vc[t.id]})
	}
	t.vc[t.id]++
}

// Yield is a scheduling point the harness itself may insert (for instance inside an io.Writer).
func (s *Sched) Yield(what string) {
	if s != nil && s.cur != nil {
		s.onSync(what, nil)
	}
}

// Run executes the bodies as goroutines under the scheduler, driven by ch.
func Run(ch *explore.Chooser, bodies []func(s *Sched), horizon int, poolFresh bool) *Result {
	s := &Sched{ch: ch, yield: make(chan struct{}), horizon: horizon, syncVC: map[unsafe.Pointer][]int{}, locs: map[unsafe.Pointer]*loc{}, raceSeen: map[string]bool{}, PoolFresh: poolFresh}
	n := len(bodies)
	for i, b := range bodies {
		t := &thread{id: i, resume: make(chan bool), vc: make([]int, n)}
		t.vc[i] = 1
		s.threads = append(s.threads, t)
		b := b
		go func() {
			defer func() {
				if r := recover(); r != nil {
					if _, ok := r.(abortSignal); !ok {
						t.panicV = r
					}
				}
				t.done = true
				s.yield <- struct{}{}
			}()
			if ok := <-t.resume; !ok {
				panic(abortSignal{})
			}
			b(s)
		}()
	}
	json.VerifSetOnPoint(s.onPoint)
	json.VerifShimSet(json.VerifShimHooks{Active: true, Point: s.onSync, Block: s.onBlock, Acquire: s.acquire, Release: s.release,
		PoolGet: func(n int) int {
			if s.PoolFresh {
				return 1
			}
			return 0
		}})
	defer func() {
		json.VerifSetOnPoint(nil)
		json.VerifShimSet(json.VerifShimHooks{})
	}()
	running := -1
	for {
		var en []int
		enabled := func(t *thread) bool { return !t.done && (t.blocked == nil || t.blocked()) }
		runningEnabled := running >= 0 && enabled(s.threads[running])
		if runningEnabled {
			en = append(en, running)
		}
		for _, t := range s.threads {
			if t.id != running && enabled(t) {
				en = append(en, t.id)
			}
		}
		if len(en) == 0 {
			alive := false
			for _, t := range s.threads {
				if !t.done {
					alive = true
					s.res.BlockedOn = append(s.res.BlockedOn, fmt.Sprintf("T%d:%s", t.id, t.what))
				}
			}
			if alive {
				s.res.Deadlock = true
				s.abortAll()
			}
			break
		}
		if s.res.Steps >= s.horizon {
			s.res.Horizon = true
			s.abortAll()
			break
		}
		c := 0
		if len(en) > 1 {
			if runningEnabled {
				c = ch.Deviate(len(en)) // leaving a goroutine that could continue is a preemption
			} else {
				c = ch.Pick(len(en))
			}
		}
		if running >= 0 && en[c] != running {
			s.res.Switches++
		}
		running = en[c]
		s.cur = s.threads[running]
		s.res.Steps++
		s.cur.resume <- true
		<-s.yield
	}
	s.cur = nil
	for _, t := range s.threads {
		if t.panicV != nil {
			s.res.Panics = append(s.res.Panics, fmt.Sprintf("T%d: %v", t.id, t.panicV))
		}
	}
	return &s.res
}

func (s *Sched) abortAll() {
	for _, t := range s.threads {
		if !t.done {
			s.cur = t
			t.resume <- false
			<-s.yield
		}
	}
}
