// Package runner is the coordinator: it builds workers from the current
// working tree of the library, runs harness shards in subprocesses, attributes
// crashes and hangs through the journal, classifies violations against the
// committed known-findings file and writes the evidence file.
package runner

import (
	"bytes"
	"crypto/sha1"
	"encoding/json"
	"fmt"
	"os"
	"os/exec"
	"path/filepath"
	"regexp"
	"runtime"
	"sort"
	"strconv"
	"strings"
	"sync"
	"syscall"
	"time"

	"verif/mc/work"
)

// Job is one harness run in one build mode.
type Job struct {
	Harness  string
	Mode     string // plain | shim | race | checkptr
	Shards   int
	Deadline time.Duration // internal deadline handed to the worker (0: none)
	// MaxRSS in MiB (0: default 6144)
	MaxRSS int
	// HangSeconds: a case running longer than this is killed and re-run alone
	HangSeconds int
	Args        []string
	// Bin, if set, is a worker binary built by Spec.Prepare (the Mode is then only a label).
	Bin string
	// GC: "" = collector off below a 512 MiB soft limit (deterministic runs for
	// harnesses that do not look for memory-safety defects); "on" = default GC.
	GC string
}

// Spec describes a property check.
type Spec struct {
	Prop      string
	Level     string
	Rule      string
	Assume    []string
	Jobs      func(tier string) []Job
	StatesAre string
	// Prepare, if set, builds property-specific worker programs from the current
	// library tree and returns the jobs that run them (in addition to Jobs).
	Prepare func(e *Env, tier string) ([]Job, error)
}

type Known struct {
	Property    string           `json:"property"`
	Class       string           `json:"class"`
	Description string           `json:"description"`
	Witness     string           `json:"witness"`
	Status      string           `json:"status"`
	MaxCount    map[string]int64 `json:"max_count,omitempty"` // per tier: more cases than this is a new violation
}

type KnownFile struct {
	Findings []Known  `json:"findings"`
	Fixed    []string `json:"fixed"`
}

type Env struct {
	Verif   string // /verif
	Repo    string // library tree (default /repo)
	WorkDir string
	Seed    int64
	Tier    string
	Propose bool
	Keep    bool
	Procs   int
	bins    map[string]string
	mu      sync.Mutex
}

func goEnv(e *Env) []string {
	env := os.Environ()
	env = append(env, "GOFLAGS=-mod=mod", "GOPROXY=off", "GOSUMDB=off", "GOTOOLCHAIN=local",
		"GOCACHE="+filepath.Join(e.Verif, ".cache", "go-build"))
	return env
}

// modfile returns the -modfile argument when the library tree is not /repo.
func (e *Env) modfile() (string, error) {
	if e.Repo == "/repo" {
		return "", nil
	}
	p := filepath.Join(e.WorkDir, "go.mod")
	src, err := os.ReadFile(filepath.Join(e.Verif, "mc", "go.mod"))
	if err != nil {
		return "", err
	}
	s := strings.Replace(string(src), "=> /repo", "=> "+e.Repo, 1)
	if err := os.WriteFile(p, []byte(s), 0o644); err != nil {
		return "", err
	}
	os.WriteFile(filepath.Join(e.WorkDir, "go.sum"), nil, 0o644)
	return p, nil
}

var syncImport = regexp.MustCompile(`(?m)^(\s*)"sync"\s*$`)
var atomicImport = regexp.MustCompile(`(?m)^(\s*)"sync/atomic"\s*$`)

// Overlay regenerates the sync-shim overlay from the current library tree.
func (e *Env) Overlay(raceVariant bool) (string, error) {
	ovDir := filepath.Join(e.WorkDir, "overlay")
	if raceVariant {
		ovDir += "-racevar"
	}
	if err := os.MkdirAll(ovDir, 0o755); err != nil {
		return "", err
	}
	repl := map[string]string{}
	err := filepath.Walk(e.Repo, func(p string, info os.FileInfo, err error) error {
		if err != nil {
			return err
		}
		if info.IsDir() {
			b := info.Name()
			if p != e.Repo && (b == "benchmarks" || b == "test" || b == ".git" || b == "mutant") {
				return filepath.SkipDir
			}
			return nil
		}
		if !strings.HasSuffix(p, ".go") || strings.HasSuffix(p, "_test.go") {
			return nil
		}
		src, err := os.ReadFile(p)
		if err != nil {
			return err
		}
		if !syncImport.Match(src) && !atomicImport.Match(src) {
			return nil
		}
		out := syncImport.ReplaceAll(src, []byte(`${1}sync "github.com/goccy/go-json/internal/vsync"`))
		out = atomicImport.ReplaceAll(out, []byte(`${1}atomic "github.com/goccy/go-json/internal/vsync/vatomic"`))
		name := strings.ReplaceAll(strings.TrimPrefix(p, e.Repo+"/"), "/", "__")
		dst := filepath.Join(ovDir, name)
		if err := os.WriteFile(dst, out, 0o644); err != nil {
			return err
		}
		repl[p] = dst
		return nil
	})
	if err != nil {
		return "", err
	}
	if raceVariant {
		// select the library's race-build source variant without the race detector's
		// instrumentation: the *_race.go files take the place of the *_norace.go files
		// (build constraint inverted), both regenerated from the current tree
		for _, pkg := range []string{"encoder", "decoder"} {
			dir := filepath.Join(e.Repo, "internal", pkg)
			ents, err := os.ReadDir(dir)
			if err != nil {
				return "", err
			}
			for _, en := range ents {
				name := en.Name()
				if !strings.HasSuffix(name, "_race.go") {
					continue
				}
				norace := strings.TrimSuffix(name, "_race.go") + "_norace.go"
				src, ok := repl[filepath.Join(dir, name)]
				var body []byte
				if ok {
					body, err = os.ReadFile(src)
				} else {
					body, err = os.ReadFile(filepath.Join(dir, name))
				}
				if err != nil {
					return "", err
				}
				if _, err := os.Stat(filepath.Join(dir, norace)); err != nil {
					return "", fmt.Errorf("race variant %s has no %s counterpart", name, norace)
				}
				txt := strings.Replace(string(body), "//go:build race", "//go:build !race", 1)
				txt = strings.Replace(txt, "// +build race", "// +build !race", 1)
				if txt == string(body) {
					return "", fmt.Errorf("%s: build constraint not found", name)
				}
				dst := filepath.Join(ovDir, pkg+"__"+norace)
				if err := os.WriteFile(dst, []byte(txt), 0o644); err != nil {
					return "", err
				}
				repl[filepath.Join(dir, norace)] = dst
			}
		}
	}
	shim := filepath.Join(e.Verif, "mc", "shim")
	repl[filepath.Join(e.Repo, "internal", "vsync", "vsync.go")] = filepath.Join(shim, "vsync", "vsync.go")
	repl[filepath.Join(e.Repo, "internal", "vsync", "vatomic", "vatomic.go")] = filepath.Join(shim, "vsync", "vatomic", "vatomic.go")
	repl[filepath.Join(e.Repo, "verif_shim_export.go")] = filepath.Join(shim, "verif_shim_export.go")
	b, _ := json.MarshalIndent(map[string]interface{}{"Replace": repl}, "", " ")
	ov := filepath.Join(e.WorkDir, "overlay.json")
	if raceVariant {
		ov = filepath.Join(e.WorkDir, "overlay-racevar.json")
	}
	return ov, os.WriteFile(ov, b, 0o644)
}

// Build builds the worker in the given mode from the current library tree.
func (e *Env) Build(mode string) (string, error) {
	e.mu.Lock()
	defer e.mu.Unlock()
	if e.bins == nil {
		e.bins = map[string]string{}
	}
	if b, ok := e.bins[mode]; ok {
		return b, nil
	}
	out := filepath.Join(e.WorkDir, "vworker-"+mode)
	args := []string{"build", "-o", out}
	tags := "verif"
	switch mode {
	case "plain":
	case "shim":
		tags += ",vshim"
	case "race":
		tags += ",vshim"
		args = append(args, "-race")
	case "racevar":
		tags += ",vshim,vracevar"
	case "racefree":
		// the real race build: race detector on, real sync package, no shim
		args = append(args, "-race")
	case "checkptr":
		args = append(args, "-gcflags=all=-d=checkptr")
	default:
		return "", fmt.Errorf("unknown build mode %q", mode)
	}
	args = append(args, "-tags", tags)
	if mode == "shim" || mode == "race" || mode == "racevar" {
		ov, err := e.Overlay(mode == "racevar")
		if err != nil {
			return "", err
		}
		args = append(args, "-overlay", ov)
	}
	mf, err := e.modfile()
	if err != nil {
		return "", err
	}
	if mf != "" {
		args = append(args, "-modfile", mf)
	}
	args = append(args, "./cmd/vworker")
	cmd := exec.Command("go", args...)
	cmd.Dir = filepath.Join(e.Verif, "mc")
	cmd.Env = goEnv(e)
	var buf bytes.Buffer
	cmd.Stdout, cmd.Stderr = &buf, &buf
	t0 := time.Now()
	if err := cmd.Run(); err != nil {
		return "", fmt.Errorf("build of worker (%s) failed: %v\n%s", mode, err, buf.String())
	}
	fmt.Fprintf(os.Stderr, "[build] worker mode=%s in %.1fs\n", mode, time.Since(t0).Seconds())
	e.bins[mode] = out
	return out, nil
}

type shardRun struct {
	job     Job
	shard   int
	results []work.Result // checkpoint segments + final
	crashes []crash
	err     string
}

type crash struct {
	Idx   int64
	Desc  string
	Sig   string
	Kind  string // crash | hang | oom
	Repro int
	Tail  string
}

var reNum = regexp.MustCompile(`0x[0-9a-f]+|\b[0-9]+\b`)

func crashSig(stderr string) string {
	lines := strings.Split(stderr, "\n")
	for _, l := range lines {
		l = strings.TrimSpace(l)
		if strings.HasPrefix(l, "fatal error:") || strings.HasPrefix(l, "panic:") || strings.HasPrefix(l, "runtime: ") ||
			strings.Contains(l, "checkptr:") || strings.HasPrefix(l, "unexpected fault address") || strings.HasPrefix(l, "SIGSEGV") || strings.HasPrefix(l, "==") {
			l = reNum.ReplaceAllString(l, "N")
			if len(l) > 120 {
				l = l[:120]
			}
			return l
		}
	}
	return "died-without-message"
}

func rssMiB(pid int) int {
	b, err := os.ReadFile(fmt.Sprintf("/proc/%d/statm", pid))
	if err != nil {
		return 0
	}
	f := strings.Fields(string(b))
	if len(f) < 2 {
		return 0
	}
	n, _ := strconv.Atoi(f[1])
	return n * 4096 / (1 << 20)
}

type tailBuf struct {
	mu sync.Mutex
	b  []byte
}

func (t *tailBuf) Write(p []byte) (int, error) {
	t.mu.Lock()
	t.b = append(t.b, p...)
	if len(t.b) > 1<<16 {
		// keep head (the fatal message comes first) and tail
		t.b = append(t.b[:1<<15:1<<15], t.b[len(t.b)-(1<<14):]...)
	}
	t.mu.Unlock()
	return len(p), nil
}
func (t *tailBuf) String() string { t.mu.Lock(); defer t.mu.Unlock(); return string(t.b) }

// runOnce runs one worker process; returns its result (possibly a checkpoint), exit state and stderr.
func (e *Env) runOnce(bin string, job Job, prop string, shard int, from int64, skip []int64, only int64, tag string) (res *work.Result, died bool, kind string, stderr string, jidx int64, jdesc string, jok bool) {
	base := filepath.Join(e.WorkDir, fmt.Sprintf("%s-%s-%d-%s", job.Harness, job.Mode, shard, tag))
	resPath, jPath := base+".res.json", base+".journal"
	os.Remove(resPath)
	os.Remove(jPath)
	args := []string{"-harness", job.Harness, "-prop", prop, "-tier", e.Tier, "-shard", strconv.Itoa(shard), "-nshards", strconv.Itoa(job.Shards),
		"-seed", strconv.FormatInt(e.Seed, 10), "-result", resPath, "-journal", jPath, "-from", strconv.FormatInt(from, 10)}
	if len(skip) > 0 {
		var s []string
		for _, k := range skip {
			s = append(s, strconv.FormatInt(k, 10))
		}
		args = append(args, "-skip", strings.Join(s, ","))
	}
	if only >= 0 {
		args = append(args, "-only", strconv.FormatInt(only, 10))
	}
	if job.Deadline > 0 {
		args = append(args, "-deadline", job.Deadline.String())
	}
	args = append(args, job.Args...)
	cmd := exec.Command(bin, args...)
	if job.Mode != "race" && job.Mode != "racefree" {
		// address-space limit: a runaway allocation dies at once with "out of memory"
		lim := job.MaxRSS
		if lim == 0 {
			lim = 4096
		}
		sh := fmt.Sprintf("ulimit -v %d; exec \"$0\" \"$@\"", lim*1024)
		cmd = exec.Command("sh", append([]string{"-c", sh, bin}, args...)...)
	}
	cmd.Env = append(os.Environ(), "GOMAXPROCS=1", "GOTRACEBACK=single")
	if job.GC == "" {
		cmd.Env = append(cmd.Env, "GOGC=off", "GOMEMLIMIT=512MiB")
	}
	if job.Mode == "race" {
		cmd.Env = append(cmd.Env, "GORACE=halt_on_error=0")
	}
	if job.Mode == "racefree" {
		// free-running goroutines under the race detector; its reports go to a log the harness reads back
		cmd.Env = append(os.Environ(), "GOMAXPROCS=4", "GOTRACEBACK=single", "GORACE=halt_on_error=0 exitcode=0 log_path="+base+".racelog", "VERIF_RACELOG="+base+".racelog")
		defer func() {
			if m, _ := filepath.Glob(base + ".racelog.*"); !e.Keep {
				for _, f := range m {
					os.Remove(f)
				}
			}
		}()
	}
	if strings.HasPrefix(job.Harness, "mt:") {
		cmd.Env = append(os.Environ(), "GOTRACEBACK=single")
	}
	tb := &tailBuf{}
	cmd.Stderr = tb
	cmd.Stdout = tb
	// a worker must not outlive its coordinator (a killed check would leave 16 busy orphans)
	cmd.SysProcAttr = &syscall.SysProcAttr{Pdeathsig: syscall.SIGKILL}
	// the parent-death signal is tied to the OS thread that forks: that thread is locked to a
	// goroutine which stays alive (blocked in Wait) for as long as the worker runs
	started := make(chan error, 1)
	done := make(chan error, 1)
	go func() {
		runtime.LockOSThread()
		defer runtime.UnlockOSThread()
		if err := cmd.Start(); err != nil {
			started <- err
			return
		}
		started <- nil
		done <- cmd.Wait()
	}()
	if err := <-started; err != nil {
		return nil, true, "start", err.Error(), 0, "", false
	}
	maxRSS := job.MaxRSS
	if maxRSS == 0 {
		maxRSS = 6144
	}
	hang := job.HangSeconds
	if hang == 0 {
		hang = 120
	}
	var lastIdx int64 = -2
	lastChange := time.Now()
	tick := time.NewTicker(200 * time.Millisecond)
	defer tick.Stop()
	var werr error
loop:
	for {
		select {
		case werr = <-done:
			break loop
		case <-tick.C:
			if r := rssMiB(cmd.Process.Pid); r > maxRSS {
				kind = "oom"
				cmd.Process.Kill()
				werr = <-done
				break loop
			}
			idx, _, ok := work.ReadJournal(jPath)
			if !ok {
				idx = -1
			}
			if idx != lastIdx {
				lastIdx, lastChange = idx, time.Now()
			} else if idx >= 0 && time.Since(lastChange) > time.Duration(hang)*time.Second {
				kind = "hang"
				cmd.Process.Kill()
				werr = <-done
				break loop
			}
		}
	}
	stderr = tb.String()
	if b, err := os.ReadFile(resPath); err == nil {
		var r work.Result
		if json.Unmarshal(b, &r) == nil {
			res = &r
		}
	}
	if werr != nil || res == nil || !res.Finished {
		died = true
		if kind == "" {
			kind = "crash"
		}
		stderr += fmt.Sprintf("\n[runner] wait error: %v; result file present: %v", werr, res != nil)
		jidx, jdesc, jok = work.ReadJournal(jPath)
	}
	if !e.Keep {
		os.Remove(resPath)
		os.Remove(jPath)
	}
	return
}

// runShard runs one shard to completion, resuming after crashes.
func (e *Env) runShard(bin string, job Job, prop string, shard int) *shardRun {
	sr := &shardRun{job: job, shard: shard}
	var from int64
	var skip []int64
	for attempt := 0; ; attempt++ {
		res, died, kind, stderr, jidx, jdesc, jok := e.runOnce(bin, job, prop, shard, from, skip, -1, fmt.Sprintf("a%d", attempt))
		if !died {
			sr.results = append(sr.results, *res)
			return sr
		}
		if !jok {
			sr.err = fmt.Sprintf("worker %s shard %d died (%s) outside any case:\n%s", job.Harness, shard, kind, tailStr(stderr, 3000))
			return sr
		}
		if len(sr.crashes) >= 40 {
			sr.err = fmt.Sprintf("worker %s shard %d: more than 40 crashing cases, giving up; last: idx=%d %q", job.Harness, shard, jidx, jdesc)
			return sr
		}
		// confirm alone, up to 3 times
		c := crash{Idx: jidx, Desc: jdesc, Sig: crashSig(stderr), Kind: kind, Tail: tailStr(stderr, 1500)}
		if kind == "oom" {
			c.Sig = "memory-exhaustion"
		}
		if kind == "hang" {
			c.Sig = "no-progress"
		}
		for i := 0; i < 3; i++ {
			_, d2, k2, se2, _, _, _ := e.runOnce(bin, job, prop, shard, 0, nil, jidx, fmt.Sprintf("r%d", i))
			if d2 {
				c.Repro++
				if k2 == "crash" && c.Kind != "crash" {
					c.Kind, c.Sig = k2, crashSig(se2)
				}
			}
		}
		sr.crashes = append(sr.crashes, c)
		if res != nil {
			// checkpoint segment covers [from, res.DoneIdx]
			sr.results = append(sr.results, *res)
			from = res.DoneIdx + 1
		}
		// else: restart the segment from `from`, skipping the crashing case
		skip = append(skip, jidx)
	}
}

func tailStr(s string, n int) string {
	if len(s) > n {
		return s[:n/2] + "\n...\n" + s[len(s)-n/2:]
	}
	return s
}

type merged struct {
	Executions int64
	Cases      int64
	Skipped    int64
	RefChecks  int64
	Outcomes   map[uint64]struct{}
	OutcomesLB int64
	Classes    map[string]*work.ClassAgg
	Counters   map[string]int64
	Samples    []string
	Exhaustive bool
	Notes      []string
	HarnessErr []string
}

func (m *merged) add(r *work.Result) {
	m.Executions += r.Executions
	if r.Cases > m.Cases {
		m.Cases = r.Cases
	}
	m.Skipped += r.Skipped
	m.RefChecks += r.RefChecks
	for _, h := range r.Outcomes {
		if len(m.Outcomes) < 1<<20 {
			m.Outcomes[h] = struct{}{}
		}
	}
	if r.OutcomesN > m.OutcomesLB {
		m.OutcomesLB = r.OutcomesN
	}
	for k, a := range r.Classes {
		b := m.Classes[k]
		if b == nil {
			cp := *a
			m.Classes[k] = &cp
			continue
		}
		b.Count += a.Count
		if len(a.Witness) < len(b.Witness) || (len(a.Witness) == len(b.Witness) && a.Witness < b.Witness) {
			b.Witness, b.Detail = a.Witness, a.Detail
		}
	}
	for k, v := range r.Counters {
		m.Counters[k] += v
	}
	for _, s := range r.Samples {
		if len(m.Samples) < 12 {
			m.Samples = append(m.Samples, s)
		}
	}
	if !r.Exhaustive {
		m.Exhaustive = false
	}
	for _, n := range r.Notes {
		dup := false
		for _, o := range m.Notes {
			if o == n {
				dup = true
			}
		}
		if !dup {
			m.Notes = append(m.Notes, n)
		}
	}
	if r.HarnessErr != "" {
		m.HarnessErr = append(m.HarnessErr, r.Harness+": "+r.HarnessErr)
	}
}

func loadKnown(verif string) (*KnownFile, error) {
	var kf KnownFile
	b, err := os.ReadFile(filepath.Join(verif, "known_findings.json"))
	if err != nil {
		if os.IsNotExist(err) {
			return &kf, nil
		}
		return nil, err
	}
	if err := json.Unmarshal(b, &kf); err != nil {
		return nil, fmt.Errorf("known_findings.json: %v", err)
	}
	return &kf, nil
}

// outDir is where evidence and replays are written: /verif, or $VERIF_OUT when a
// check is pointed at another library tree (trying a seeded change in a scratch
// worktree must not overwrite the evidence of the registered run).
func (e *Env) outDir() string {
	if d := os.Getenv("VERIF_OUT"); d != "" {
		return d
	}
	return e.Verif
}

// Run executes a property check and returns the process exit code.
func Run(e *Env, spec *Spec) int {
	t0 := time.Now()
	if e.Procs == 0 {
		e.Procs = 16
	}
	wd := filepath.Join(e.Verif, ".work", fmt.Sprintf("%s-%s-%d", spec.Prop, e.Tier, os.Getpid()))
	if err := os.MkdirAll(wd, 0o755); err != nil {
		fmt.Fprintln(os.Stderr, err)
		return 2
	}
	e.WorkDir = wd
	if !e.Keep {
		defer os.RemoveAll(wd)
	}
	evPath := filepath.Join(e.outDir(), "evidence", spec.Prop+".json")
	os.MkdirAll(filepath.Dir(evPath), 0o755)
	os.Remove(evPath)

	var jobs []Job
	if spec.Jobs != nil {
		jobs = spec.Jobs(e.Tier)
	}
	if spec.Prepare != nil {
		extra, err := spec.Prepare(e, e.Tier)
		if err != nil {
			fmt.Fprintln(os.Stderr, err)
			fmt.Printf("ERROR property=%s preparation failed\n", spec.Prop)
			return 2
		}
		jobs = append(jobs, extra...)
	}
	// build
	for _, j := range jobs {
		if j.Bin != "" {
			continue
		}
		if _, err := e.Build(j.Mode); err != nil {
			fmt.Fprintln(os.Stderr, err)
			fmt.Printf("ERROR property=%s build failed\n", spec.Prop)
			return 2
		}
	}
	// run all shards with a process limit
	sem := make(chan struct{}, e.Procs)
	var wg sync.WaitGroup
	var mu sync.Mutex
	var runs []*shardRun
	for _, j := range jobs {
		bin := j.Bin
		if bin == "" {
			bin, _ = e.Build(j.Mode)
		}
		for s := 0; s < j.Shards; s++ {
			wg.Add(1)
			go func(j Job, s int, bin string) {
				defer wg.Done()
				sem <- struct{}{}
				defer func() { <-sem }()
				sr := e.runShard(bin, j, spec.Prop, s)
				mu.Lock()
				runs = append(runs, sr)
				mu.Unlock()
			}(j, s, bin)
		}
	}
	wg.Wait()

	m := &merged{Outcomes: map[uint64]struct{}{}, Classes: map[string]*work.ClassAgg{}, Counters: map[string]int64{}, Exhaustive: true}
	var fatalErrs []string
	for _, sr := range runs {
		for i := range sr.results {
			m.add(&sr.results[i])
		}
		if sr.err != "" {
			fatalErrs = append(fatalErrs, sr.err)
		}
		for _, c := range sr.crashes {
			if c.Repro < 3 {
				// did not reproduce deterministically when run alone (3 attempts): the process was
				// poisoned by an earlier case, the death depends on collector timing, or the
				// environment killed it. Reported as a note, never as a violation.
				m.Notes = append(m.Notes, fmt.Sprintf("worker %s/%d died at case %d %q; run alone the case died %d of 3 times (%s)", sr.job.Harness, sr.shard, c.Idx, c.Desc, c.Repro, c.Sig))
				m.Counters["unreproduced_worker_deaths"]++
				continue
			}
			class := fmt.Sprintf("%s:%s:%s", c.Kind, sr.job.Harness, c.Sig)
			if f := crashClassifier[sr.job.Harness]; f != nil {
				class = f(c.Kind, c.Sig, c.Desc)
			}
			a := m.Classes[class]
			if a == nil {
				a = &work.ClassAgg{Harness: sr.job.Harness, Witness: c.Desc, Detail: fmt.Sprintf("process %s (%d/3 alone): %s", c.Kind, c.Repro, firstLines(c.Tail, 6))}
				m.Classes[class] = a
			} else if len(c.Desc) < len(a.Witness) {
				a.Witness = c.Desc
			}
			a.Count++
			m.Executions++
		}
	}
	sort.Strings(fatalErrs)

	kf, err := loadKnown(e.Verif)
	if err != nil {
		fmt.Fprintln(os.Stderr, err)
		return 2
	}
	known := map[string]*Known{}
	for i := range kf.Findings {
		k := &kf.Findings[i]
		if k.Property == spec.Prop && k.Status != "fixed" {
			known[k.Class] = k
		}
	}
	var classNames []string
	for k := range m.Classes {
		classNames = append(classNames, k)
	}
	sort.Strings(classNames)
	violations := 0
	knownHits := map[string]int64{}
	var proposals []Known
	exit := 0
	for _, cn := range classNames {
		a := m.Classes[cn]
		k := known[cn]
		if k != nil {
			limit, has := k.MaxCount[e.Tier]
			if !has || a.Count <= limit {
				fmt.Printf("KNOWN-FINDING: property=%s %s witness=%q cases=%d\n", spec.Prop, cn, a.Witness, a.Count)
				knownHits[cn] = a.Count
				continue
			}
			fmt.Printf("KNOWN-FINDING: property=%s %s witness=%q cases=%d (listed: at most %d)\n", spec.Prop, cn, k.Witness, limit, limit)
			knownHits[cn] = limit
			cn = cn + " [more failing cases than the listed finding covers]"
		}
		violations++
		rp := e.writeReplay(spec.Prop, cn, a)
		fmt.Printf("VIOLATION property=%s replay=%s\n", spec.Prop, rp)
		fmt.Printf("  class=%s\n  witness=%q cases=%d\n  %s\n", cn, a.Witness, a.Count, a.Detail)
		proposals = append(proposals, Known{Property: spec.Prop, Class: cn, Witness: a.Witness, Description: a.Detail, Status: "open",
			MaxCount: map[string]int64{e.Tier: a.Count}})
		exit = 1
	}
	if len(m.HarnessErr) > 0 || len(fatalErrs) > 0 {
		for _, s := range m.HarnessErr {
			fmt.Printf("HARNESS-ERROR property=%s %s\n", spec.Prop, s)
		}
		for _, s := range fatalErrs {
			fmt.Printf("HARNESS-ERROR property=%s %s\n", spec.Prop, s)
		}
		if exit == 0 {
			exit = 2
		}
	}
	if e.Propose && len(proposals) > 0 {
		b, _ := json.MarshalIndent(proposals, "", " ")
		if e.outDir() == e.Verif {
			os.WriteFile(filepath.Join(e.Verif, ".work", spec.Prop+"-"+e.Tier+"-proposals.json"), b, 0o644)
		}
	}

	// evidence
	states := int64(len(m.Outcomes))
	if m.OutcomesLB > states {
		states = m.OutcomesLB
	}
	samples := make([]interface{}, 0, len(m.Samples))
	for _, s := range m.Samples {
		samples = append(samples, s)
	}
	if len(samples) == 0 {
		samples = append(samples, "(no sample recorded)")
	}
	cov := map[string]interface{}{
		"states":                        states,
		"transitions":                   m.Executions,
		"traces_validated_against_impl": m.RefChecks,
		"evaluations":                   m.Executions,
		"distinct_nontrivial":           states,
		"rule":                          spec.Rule,
		"samples":                       samples,
		"exhaustive":                    m.Exhaustive && len(fatalErrs) == 0,
		"counters":                      m.Counters,
		"known_finding_hits":            knownHits,
		"notes":                         m.Notes,
		"skipped_cases":                 m.Skipped,
		"states_are":                    spec.StatesAre,
	}
	var jl []string
	for _, j := range jobs {
		jl = append(jl, fmt.Sprintf("%s[%s]x%d", j.Harness, j.Mode, j.Shards))
	}
	cov["jobs"] = jl
	ev := map[string]interface{}{
		"property_id": spec.Prop,
		"tier":        e.Tier,
		"seed":        e.Seed,
		"level":       spec.Level,
		"coverage":    cov,
		"assumptions": spec.Assume,
		"wall_s":      time.Since(t0).Seconds(),
		"violations":  violations,
	}
	b, _ := json.MarshalIndent(ev, "", " ")
	if err := os.WriteFile(evPath, b, 0o644); err != nil {
		fmt.Fprintln(os.Stderr, err)
		return 2
	}
	fmt.Printf("SUMMARY property=%s tier=%s executions=%d distinct_outcomes=%d ref_checks=%d classes=%d known=%d violations=%d exhaustive=%v wall=%.1fs\n",
		spec.Prop, e.Tier, m.Executions, states, m.RefChecks, len(classNames), len(knownHits), violations, cov["exhaustive"], time.Since(t0).Seconds())
	for _, n := range m.Notes {
		fmt.Printf("  note: %s\n", n)
	}
	return exit
}

// crashClassifier lets a property turn (kind, signature, case description) into its own class name.
var crashClassifier = map[string]func(kind, sig, desc string) string{}

func SetCrashClassifier(harness string, f func(kind, sig, desc string) string) {
	crashClassifier[harness] = f
}

func firstLines(s string, n int) string {
	l := strings.Split(s, "\n")
	if len(l) > n {
		l = l[:n]
	}
	return strings.Join(l, " | ")
}

func (e *Env) writeReplay(prop, class string, a *work.ClassAgg) string {
	dir := filepath.Join(e.outDir(), "replays", prop)
	os.MkdirAll(dir, 0o755)
	h := sha1.Sum([]byte(class + "\x00" + a.Witness))
	p := filepath.Join(dir, fmt.Sprintf("%x.json", h[:6]))
	b, _ := json.MarshalIndent(map[string]interface{}{
		"property": prop, "class": class, "harness": a.Harness, "witness": a.Witness, "witness_hex": fmt.Sprintf("%x", a.Witness),
		"detail": a.Detail, "cases_in_class": a.Count, "tier": e.Tier,
		"replay": fmt.Sprintf("./check replay %s", p),
	}, "", " ")
	os.WriteFile(p, b, 0o644)
	return p
}

// Warm builds the worker once in every mode so that later checks only
// recompile the library's own packages.
func Warm(e *Env) int {
	wd := filepath.Join(e.Verif, ".work", fmt.Sprintf("warm-%d", os.Getpid()))
	if err := os.MkdirAll(wd, 0o755); err != nil {
		fmt.Fprintln(os.Stderr, err)
		return 2
	}
	defer os.RemoveAll(wd)
	e.WorkDir = wd
	rc := 0
	var wg sync.WaitGroup
	for _, m := range []string{"plain", "shim", "racevar", "race", "racefree", "checkptr"} {
		wg.Add(1)
		go func(m string) {
			defer wg.Done()
			if _, err := e.Build(m); err != nil {
				fmt.Fprintln(os.Stderr, err)
				rc = 2
			}
		}(m)
	}
	wg.Wait()
	return rc
}

// GoEnv returns the environment for go invocations (offline, private build cache).
func GoEnv(e *Env) []string { return goEnv(e) }

// Modfile returns the -modfile argument for a library tree other than /repo ("" for /repo).
func (e *Env) Modfile() (string, error) { return e.modfile() }
