package oracle

import (
	"reflect"
	"testing"
)

// The reference evaluator must reproduce every expectation of the
// repository's own path_test.go before it is trusted.
func TestPathRefAgainstRepositoryExpectations(t *testing.T) {
	src := `{"a":{"b":10,"c":true},"b":"text"}`
	cases := []struct {
		path, doc string
		want      []string
	}{
		{"$.a.b", src, []string{"10"}},
		{"$.b", src, []string{`"text"`}},
		{"$.a", src, []string{`{"b":10,"c":true}`}},
		{"$['a.b'].c", `{"a.b":{"c":10}}`, []string{"10"}},
		{`$."a.b".c`, `{"a.b":{"c":10}}`, []string{"10"}},
		{"$.a.b", `{"a":{"b":10}}`, []string{"10"}},
		{"$.a[0].b", `{"a":[{"b":10,"c":true},{"b":"text"}]}`, []string{"10"}},
		{"$.a[*].b", `{"a":[{"b":1,"c":true},{"b":2},{"b":3}]}`, []string{"1", "2", "3"}},
		{"$..b", `{"a":[{"b":1,"c":true},{"b":2},{"b":3}],"a2":{"b":4}}`, []string{"1", "2", "3", "4"}},
		{"$", `[1, 2]`, []string{"[1,2]"}},
	}
	for _, c := range cases {
		steps, ok := ParsePath(c.path)
		if !ok {
			t.Fatalf("reference grammar rejects %q", c.path)
		}
		got, ok := EvalPath(steps, []byte(c.doc))
		if !ok || !reflect.DeepEqual(got, c.want) {
			t.Errorf("%s on %s: got %q want %q", c.path, c.doc, got, c.want)
		}
	}
	for _, bad := range []string{"", "a", "$.", "$..", "$[", "$[]", "$[a]", "$['a'", "$.a.", "$.a[", "$[*", "$.\"a", "$a", "$.*", "$[1", "$.a]"} {
		if _, ok := ParsePath(bad); ok {
			t.Errorf("reference grammar accepts malformed %q", bad)
		}
	}
}
