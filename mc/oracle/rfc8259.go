// Package oracle holds the executable reference models.
package oracle

// Valid is a hand-written RFC 8259 recogniser: exactly one JSON value,
// optionally surrounded by whitespace (SP, HT, LF, CR). It accepts any bytes
// >= 0x20 other than '"' and '\\' inside strings (UTF-8 validity is a separate
// question, as in encoding/json.Valid).
func Valid(b []byte) bool {
	p := &rp{b: b}
	p.ws()
	if !p.value(0) {
		return false
	}
	p.ws()
	return p.i == len(p.b)
}

// MaxDepth mirrors encoding/json's nesting limit.
const MaxDepth = 10000

type rp struct {
	b []byte
	i int
}

func (p *rp) ws() {
	for p.i < len(p.b) {
		switch p.b[p.i] {
		case ' ', '\t', '\n', '\r':
			p.i++
		default:
			return
		}
	}
}

func (p *rp) lit(s string) bool {
	if len(p.b)-p.i < len(s) || string(p.b[p.i:p.i+len(s)]) != s {
		return false
	}
	p.i += len(s)
	return true
}

func (p *rp) value(depth int) bool {
	if p.i >= len(p.b) {
		return false
	}
	switch c := p.b[p.i]; {
	case c == '{':
		if depth+1 > MaxDepth {
			return false
		}
		p.i++
		p.ws()
		if p.i < len(p.b) && p.b[p.i] == '}' {
			p.i++
			return true
		}
		for {
			p.ws()
			if !p.str() {
				return false
			}
			p.ws()
			if p.i >= len(p.b) || p.b[p.i] != ':' {
				return false
			}
			p.i++
			p.ws()
			if !p.value(depth + 1) {
				return false
			}
			p.ws()
			if p.i >= len(p.b) {
				return false
			}
			if p.b[p.i] == ',' {
				p.i++
				continue
			}
			if p.b[p.i] == '}' {
				p.i++
				return true
			}
			return false
		}
	case c == '[':
		if depth+1 > MaxDepth {
			return false
		}
		p.i++
		p.ws()
		if p.i < len(p.b) && p.b[p.i] == ']' {
			p.i++
			return true
		}
		for {
			p.ws()
			if !p.value(depth + 1) {
				return false
			}
			p.ws()
			if p.i >= len(p.b) {
				return false
			}
			if p.b[p.i] == ',' {
				p.i++
				continue
			}
			if p.b[p.i] == ']' {
				p.i++
				return true
			}
			return false
		}
	case c == '"':
		return p.str()
	case c == 't':
		return p.lit("true")
	case c == 'f':
		return p.lit("false")
	case c == 'n':
		return p.lit("null")
	case c == '-' || (c >= '0' && c <= '9'):
		return p.num()
	}
	return false
}

func isHex(c byte) bool {
	return c >= '0' && c <= '9' || c >= 'a' && c <= 'f' || c >= 'A' && c <= 'F'
}

func (p *rp) str() bool {
	if p.i >= len(p.b) || p.b[p.i] != '"' {
		return false
	}
	p.i++
	for p.i < len(p.b) {
		c := p.b[p.i]
		switch {
		case c == '"':
			p.i++
			return true
		case c == '\\':
			p.i++
			if p.i >= len(p.b) {
				return false
			}
			switch p.b[p.i] {
			case '"', '\\', '/', 'b', 'f', 'n', 'r', 't':
				p.i++
			case 'u':
				if len(p.b)-p.i < 5 {
					return false
				}
				for k := 1; k <= 4; k++ {
					if !isHex(p.b[p.i+k]) {
						return false
					}
				}
				p.i += 5
			default:
				return false
			}
		case c < 0x20:
			return false
		default:
			p.i++
		}
	}
	return false
}

func (p *rp) digits() int {
	n := 0
	for p.i < len(p.b) && p.b[p.i] >= '0' && p.b[p.i] <= '9' {
		p.i++
		n++
	}
	return n
}

func (p *rp) num() bool {
	if p.b[p.i] == '-' {
		p.i++
	}
	if p.i >= len(p.b) {
		return false
	}
	if p.b[p.i] == '0' {
		p.i++
	} else if p.b[p.i] >= '1' && p.b[p.i] <= '9' {
		p.digits()
	} else {
		return false
	}
	if p.i < len(p.b) && p.b[p.i] == '.' {
		p.i++
		if p.digits() == 0 {
			return false
		}
	}
	if p.i < len(p.b) && (p.b[p.i] == 'e' || p.b[p.i] == 'E') {
		p.i++
		if p.i < len(p.b) && (p.b[p.i] == '+' || p.b[p.i] == '-') {
			p.i++
		}
		if p.digits() == 0 {
			return false
		}
	}
	return true
}

// ByteClass reduces a byte to the class used in finding signatures.
func ByteClass(c byte) string {
	switch {
	case c == 0:
		return "NUL"
	case c < 0x20:
		return "CTL"
	case c == ' ':
		return "SP"
	case c >= '0' && c <= '9':
		return "D"
	case c >= 'a' && c <= 'z' || c >= 'A' && c <= 'Z':
		return "L"
	case c >= 0x80:
		return "HI"
	}
	return string(c)
}
