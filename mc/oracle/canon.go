package oracle

import (
	"fmt"
	"math"
	"reflect"
	"sort"
	"strings"
	"unsafe"
)

// Canon renders a Go value in a canonical text that distinguishes nil from
// empty containers, -0 from 0, and follows pointers. Before reading through a
// string or slice header it checks that the header is well formed (non-nil
// base or zero length, cap >= len); an ill-formed header is rendered as
// "!BADHEADER(...)" instead of being dereferenced.
func Canon(v reflect.Value) string {
	var sb strings.Builder
	canon(&sb, v, 0)
	return sb.String()
}

// BadHeader reports whether the canonical text mentions an ill-formed header.
func BadHeader(s string) bool { return strings.Contains(s, "!BADHEADER") }

// rvalue mirrors the layout of reflect.Value (typ, ptr, flag).
type rvalue struct {
	typ  unsafe.Pointer
	ptr  unsafe.Pointer
	flag uintptr
}

type strHeader struct {
	data unsafe.Pointer
	len  int
}
type sliceHeader struct {
	data unsafe.Pointer
	len  int
	cap  int
}

func canon(sb *strings.Builder, v reflect.Value, depth int) {
	if depth > 64 {
		sb.WriteString("!DEEP")
		return
	}
	if !v.IsValid() {
		sb.WriteString("invalid")
		return
	}
	switch v.Kind() {
	case reflect.Bool:
		fmt.Fprintf(sb, "%v", v.Bool())
	case reflect.Int, reflect.Int8, reflect.Int16, reflect.Int32, reflect.Int64:
		fmt.Fprintf(sb, "%d", v.Int())
	case reflect.Uint, reflect.Uint8, reflect.Uint16, reflect.Uint32, reflect.Uint64, reflect.Uintptr:
		fmt.Fprintf(sb, "%du", v.Uint())
	case reflect.Float32, reflect.Float64:
		f := v.Float()
		if math.IsNaN(f) {
			sb.WriteString("NaN")
		} else {
			fmt.Fprintf(sb, "f%016x", math.Float64bits(f))
		}
	case reflect.String:
		// a string is never stored directly in a reflect.Value: the value's data word points at the header
		if h := (*strHeader)((*rvalue)(unsafe.Pointer(&v)).ptr); h != nil {
			if h.len < 0 || (h.data == nil && h.len != 0) {
				fmt.Fprintf(sb, "!BADHEADER(string base=nil len=%d)", h.len)
				return
			}
		}
		fmt.Fprintf(sb, "%q", v.String())
	case reflect.Ptr:
		if v.IsNil() {
			sb.WriteString("nil")
			return
		}
		sb.WriteString("&")
		canon(sb, v.Elem(), depth+1)
	case reflect.Interface:
		if v.IsNil() {
			sb.WriteString("nil")
			return
		}
		fmt.Fprintf(sb, "(%s)", v.Elem().Type().String())
		canon(sb, v.Elem(), depth+1)
	case reflect.Slice:
		if h := (*sliceHeader)((*rvalue)(unsafe.Pointer(&v)).ptr); h != nil {
			if h.len < 0 || h.cap < h.len || (h.data == nil && (h.len != 0 || h.cap != 0)) {
				fmt.Fprintf(sb, "!BADHEADER(slice base-nil=%v len=%d cap=%d)", h.data == nil, h.len, h.cap)
				return
			}
		}
		if v.IsNil() {
			sb.WriteString("nil")
			return
		}
		if v.Type().Elem().Kind() == reflect.Uint8 {
			fmt.Fprintf(sb, "b%q", v.Bytes())
			return
		}
		sb.WriteString("[")
		for i := 0; i < v.Len(); i++ {
			if i > 0 {
				sb.WriteString(",")
			}
			canon(sb, v.Index(i), depth+1)
		}
		sb.WriteString("]")
	case reflect.Array:
		sb.WriteString("[")
		for i := 0; i < v.Len(); i++ {
			if i > 0 {
				sb.WriteString(",")
			}
			canon(sb, v.Index(i), depth+1)
		}
		sb.WriteString("]")
	case reflect.Map:
		if v.IsNil() {
			sb.WriteString("nil")
			return
		}
		type kv struct{ k, v string }
		var items []kv
		it := v.MapRange()
		for it.Next() {
			var kb, vb strings.Builder
			canon(&kb, it.Key(), depth+1)
			canon(&vb, it.Value(), depth+1)
			items = append(items, kv{kb.String(), vb.String()})
		}
		sort.Slice(items, func(i, j int) bool { return items[i].k < items[j].k })
		sb.WriteString("{")
		for i, it := range items {
			if i > 0 {
				sb.WriteString(",")
			}
			sb.WriteString(it.k + ":" + it.v)
		}
		sb.WriteString("}")
	case reflect.Struct:
		if v.Type().String() == "time.Time" && v.CanInterface() {
			fmt.Fprintf(sb, "time(%v)", v.Interface())
			return
		}
		sb.WriteString("{")
		for i := 0; i < v.NumField(); i++ {
			if i > 0 {
				sb.WriteString(",")
			}
			sb.WriteString(v.Type().Field(i).Name + ":")
			canon(sb, v.Field(i), depth+1)
		}
		sb.WriteString("}")
	default:
		fmt.Fprintf(sb, "?%s", v.Kind())
	}
}
