package oracle

import (
	"encoding"
	stdjson "encoding/json"
	"reflect"
	"strconv"
	"strings"
)

// PathElem is one step from the document root to a position in the text.
type PathElem struct {
	Key   string // object member name (decoded); valid when !IsIdx
	Idx   int    // array index
	IsIdx bool
	InKey bool // the position is inside the member name itself / before the colon
}

// PathAt returns the container path of byte offset p in b, provided b[:p] is
// a prefix of some valid JSON text (which is the case when p is the offset of
// the first syntax error found by a conforming parser).
func PathAt(b []byte, p int) []PathElem {
	var st []PathElem
	i := 0
	if p > len(b) {
		p = len(b)
	}
	for i < p {
		c := b[i]
		switch {
		case c == '{':
			st = append(st, PathElem{InKey: true})
			i++
		case c == '[':
			st = append(st, PathElem{IsIdx: true})
			i++
		case c == '}' || c == ']':
			if len(st) > 0 {
				st = st[:len(st)-1]
			}
			i++
		case c == ',':
			if len(st) > 0 {
				t := &st[len(st)-1]
				if t.IsIdx {
					t.Idx++
				} else {
					t.InKey = true
					t.Key = ""
				}
			}
			i++
		case c == ':':
			if len(st) > 0 {
				st[len(st)-1].InKey = false
			}
			i++
		case c == '"':
			j := i + 1
			for j < p && b[j] != '"' {
				if b[j] == '\\' {
					j++
				}
				j++
			}
			if j >= p {
				// position is inside this string
				return st
			}
			if len(st) > 0 && !st[len(st)-1].IsIdx && st[len(st)-1].InKey {
				var s string
				if stdjson.Unmarshal(b[i:j+1], &s) == nil {
					st[len(st)-1].Key = s
				}
			}
			i = j + 1
		default:
			i++
		}
	}
	return st
}

var (
	unmarshalerT     = reflect.TypeOf((*stdjson.Unmarshaler)(nil)).Elem()
	textUnmarshalerT = reflect.TypeOf((*encoding.TextUnmarshaler)(nil)).Elem()
	rawMessageT      = reflect.TypeOf(stdjson.RawMessage(nil))
)

// SkipsAt reports whether a decoder for type t, following path, hands the
// position over to a "skip the value without looking into it" step: an
// unknown struct member, a surplus array element, a RawMessage, an
// Unmarshaler or a TextUnmarshaler.
func SkipsAt(t reflect.Type, path []PathElem) bool {
	for {
		if t.Kind() != reflect.Ptr && reflect.PtrTo(t).Implements(unmarshalerT) {
			return true
		}
		if t.Implements(unmarshalerT) {
			return true
		}
		if t.Kind() == reflect.Ptr {
			t = t.Elem()
			continue
		}
		break
	}
	if t == rawMessageT || (t.Kind() == reflect.Slice && t.Elem().Kind() == reflect.Uint8 && t.Name() == "RawMessage") {
		return true
	}
	if reflect.PtrTo(t).Implements(textUnmarshalerT) {
		return true
	}
	if len(path) == 0 {
		return false
	}
	e := path[0]
	switch t.Kind() {
	case reflect.Struct:
		if e.IsIdx {
			return false
		}
		if e.InKey {
			return false
		}
		f, ok := fieldByJSONName(t, e.Key)
		if !ok {
			return true
		}
		return SkipsAt(f, path[1:])
	case reflect.Map:
		if e.IsIdx || e.InKey {
			return false
		}
		return SkipsAt(t.Elem(), path[1:])
	case reflect.Slice:
		if !e.IsIdx {
			return false
		}
		return SkipsAt(t.Elem(), path[1:])
	case reflect.Array:
		if !e.IsIdx {
			return false
		}
		if e.Idx >= t.Len() {
			return true
		}
		return SkipsAt(t.Elem(), path[1:])
	}
	return false
}

func fieldByJSONName(t reflect.Type, key string) (reflect.Type, bool) {
	var fold reflect.Type
	for i := 0; i < t.NumField(); i++ {
		f := t.Field(i)
		if f.PkgPath != "" && !f.Anonymous {
			continue
		}
		name := f.Name
		if tag, ok := f.Tag.Lookup("json"); ok {
			n := strings.Split(tag, ",")[0]
			if n == "-" && !strings.Contains(tag, ",") {
				continue
			}
			if n != "" {
				name = n
			}
		}
		if name == key {
			return f.Type, true
		}
		if fold == nil && strings.EqualFold(name, key) {
			fold = f.Type
		}
	}
	if fold != nil {
		return fold, true
	}
	return nil, false
}

// SyntaxOffset returns the offset of the first byte encoding/json objects to
// (len(b) for an unexpected end), or -1 when b is valid.
func SyntaxOffset(b []byte) int {
	var x interface{}
	err := stdjson.Unmarshal(b, &x)
	if err == nil {
		return -1
	}
	if se, ok := err.(*stdjson.SyntaxError); ok {
		if strings.Contains(se.Error(), "unexpected end") {
			return len(b)
		}
		return int(se.Offset) - 1
	}
	return -1
}

var _ = strconv.Itoa
