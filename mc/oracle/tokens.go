package oracle

import (
	"bytes"
	stdjson "encoding/json"
	"fmt"
	"io"
	"math/big"
)

// TokensEqual compares two JSON texts token by token: same delimiters, same
// member order, same decoded string contents, same exact number values.
// Alternative spellings of one token (\u0008 vs \b, e-07 vs e-7, 1.0 vs 1 are
// NOT all tolerated: numbers are compared by exact value, so 1.0 == 1) are equal.
// It returns "" when equal, else a short difference kind.
func TokensEqual(a, b []byte) string {
	da := stdjson.NewDecoder(bytes.NewReader(a))
	db := stdjson.NewDecoder(bytes.NewReader(b))
	da.UseNumber()
	db.UseNumber()
	for i := 0; ; i++ {
		ta, ea := da.Token()
		tb, eb := db.Token()
		if ea != nil || eb != nil {
			if ea == io.EOF && eb == io.EOF {
				return ""
			}
			if ea != nil && ea != io.EOF {
				return "malformed-output"
			}
			if eb != nil && eb != io.EOF {
				return "malformed-reference"
			}
			if ea == io.EOF {
				return "missing-tokens"
			}
			return "extra-tokens"
		}
		switch x := ta.(type) {
		case stdjson.Delim:
			y, ok := tb.(stdjson.Delim)
			if !ok || x != y {
				return "structure-differs"
			}
		case string:
			y, ok := tb.(string)
			if !ok {
				return "kind-differs"
			}
			if x != y {
				// a ,string-quoted number may differ in exponent spelling only (e-07 vs e-7)
				rx, ok1 := new(big.Rat).SetString(x)
				ry, ok2 := new(big.Rat).SetString(y)
				if !(ok1 && ok2 && rx.Cmp(ry) == 0 && stdjson.Valid([]byte(x)) && stdjson.Valid([]byte(y))) {
					return "string-differs"
				}
			}
		case stdjson.Number:
			y, ok := tb.(stdjson.Number)
			if !ok {
				return "kind-differs"
			}
			if string(x) != string(y) {
				rx, ok1 := new(big.Rat).SetString(string(x))
				ry, ok2 := new(big.Rat).SetString(string(y))
				if !ok1 || !ok2 || rx.Cmp(ry) != 0 {
					return "number-differs"
				}
				if (string(x)[0] == '-') != (string(y)[0] == '-') {
					return "number-sign-differs"
				}
			}
		case bool:
			y, ok := tb.(bool)
			if !ok || x != y {
				return "literal-differs"
			}
		case nil:
			if tb != nil {
				return "kind-differs"
			}
		default:
			return fmt.Sprintf("unknown-token-%T", ta)
		}
	}
}

// DiffKind refines a token difference: when the texts differ only by members
// missing on one side it says so.
func ShortDiff(a, b []byte) string {
	n := 0
	for n < len(a) && n < len(b) && a[n] == b[n] {
		n++
	}
	lo := n - 12
	if lo < 0 {
		lo = 0
	}
	ha, hb := n+24, n+24
	if ha > len(a) {
		ha = len(a)
	}
	if hb > len(b) {
		hb = len(b)
	}
	return fmt.Sprintf("at byte %d: got ...%q want ...%q", n, a[lo:ha], b[lo:hb])
}

// SameUnordered reports whether two JSON texts denote the same value when the
// order of object members is ignored (numbers by exact value, with the same
// tolerance for spellings as TokensEqual).
func SameUnordered(a, b []byte) bool {
	var x, y interface{}
	da := stdjson.NewDecoder(bytes.NewReader(a))
	da.UseNumber()
	db := stdjson.NewDecoder(bytes.NewReader(b))
	db.UseNumber()
	if da.Decode(&x) != nil || db.Decode(&y) != nil {
		return false
	}
	ca, e1 := stdjson.Marshal(normUnordered(x))
	cb, e2 := stdjson.Marshal(normUnordered(y))
	return e1 == nil && e2 == nil && bytes.Equal(ca, cb)
}

func normUnordered(x interface{}) interface{} {
	switch v := x.(type) {
	case map[string]interface{}:
		for k, e := range v {
			v[k] = normUnordered(e)
		}
		return v
	case []interface{}:
		for i, e := range v {
			v[i] = normUnordered(e)
		}
		return v
	case stdjson.Number:
		if r, ok := new(big.Rat).SetString(string(v)); ok {
			sign := ""
			if string(v)[0] == '-' && r.Sign() == 0 {
				sign = "-"
			}
			return "N:" + sign + r.String()
		}
		return "N:" + string(v)
	case string:
		if r, ok := new(big.Rat).SetString(v); ok && stdjson.Valid([]byte(v)) {
			return "S:" + r.String()
		}
		return "s:" + v
	}
	return x
}

// SortMembers re-renders a JSON text with the members of every object sorted by
// key (numbers keep their spelling); ok is false when the text is not one JSON value.
func SortMembers(a []byte) (out []byte, ok bool) {
	var x interface{}
	d := stdjson.NewDecoder(bytes.NewReader(a))
	d.UseNumber()
	if d.Decode(&x) != nil {
		return nil, false
	}
	if _, err := d.Token(); err != io.EOF {
		return nil, false
	}
	out, err := stdjson.Marshal(x)
	return out, err == nil
}

// DocKind names the kind of a JSON text by its first byte (class signatures keep the kind, not the text).
func DocKind(doc string) string {
	for i := 0; i < len(doc); i++ {
		switch c := doc[i]; {
		case c == ' ' || c == '\n' || c == '\t' || c == '\r':
			continue
		case c == '{':
			if doc == "{}" {
				return "empty object"
			}
			return "object"
		case c == '[':
			if doc == "[]" {
				return "empty array"
			}
			return "array"
		case c == '"':
			return "string"
		case c == 'n':
			return "null"
		case c == 't' || c == 'f':
			return "bool"
		default:
			return "number"
		}
	}
	return "empty"
}
