package oracle

import (
	"bytes"
	stdjson "encoding/json"
	"fmt"
	"strings"
)

// Reference JSON Path model: exactly the selector subset the package documents.
//
//	path  := '$' step*
//	step  := '.' name | '."' qname '"' | '..' name | '[' digits ']' | '[*]' | "['" qname "']"
//	name  := one or more characters none of which is . [ ] $ * "   (a single quote only delimits inside brackets)
//	qname := one or more characters other than the closing quote
type PathStep struct {
	Kind byte // 'n' child name, 'r' recursive name, 'i' index, '*' all elements
	Name string
	Idx  int
}

const pathReserved = ".[]$*\""

// ParsePath parses path text by the reference grammar.
func ParsePath(s string) ([]PathStep, bool) {
	r := []rune(s)
	if len(r) == 0 || r[0] != '$' {
		return nil, false
	}
	i := 1
	var steps []PathStep
	name := func() (string, bool) {
		j := i
		for j < len(r) && !strings.ContainsRune(pathReserved, r[j]) {
			j++
		}
		if j == i {
			return "", false
		}
		n := string(r[i:j])
		i = j
		return n, true
	}
	for i < len(r) {
		switch r[i] {
		case '.':
			i++
			if i >= len(r) {
				return nil, false
			}
			switch r[i] {
			case '.':
				i++
				n, ok := name()
				if !ok {
					return nil, false
				}
				steps = append(steps, PathStep{Kind: 'r', Name: n})
			case '"':
				i++
				j := i
				for j < len(r) && r[j] != '"' {
					j++
				}
				if j >= len(r) || j == i {
					return nil, false
				}
				steps = append(steps, PathStep{Kind: 'n', Name: string(r[i:j])})
				i = j + 1
			default:
				n, ok := name()
				if !ok {
					return nil, false
				}
				steps = append(steps, PathStep{Kind: 'n', Name: n})
			}
		case '[':
			i++
			if i >= len(r) {
				return nil, false
			}
			switch {
			case r[i] == '*':
				if i+1 >= len(r) || r[i+1] != ']' {
					return nil, false
				}
				steps = append(steps, PathStep{Kind: '*'})
				i += 2
			case r[i] == '\'':
				i++
				j := i
				for j < len(r) && r[j] != '\'' {
					j++
				}
				if j+1 >= len(r) || j == i || r[j+1] != ']' {
					return nil, false
				}
				steps = append(steps, PathStep{Kind: 'n', Name: string(r[i:j])})
				i = j + 2
			default:
				j := i
				n := 0
				for j < len(r) && r[j] >= '0' && r[j] <= '9' {
					n = n*10 + int(r[j]-'0')
					j++
					if n > 1<<30 {
						return nil, false
					}
				}
				if j == i || j >= len(r) || r[j] != ']' {
					return nil, false
				}
				steps = append(steps, PathStep{Kind: 'i', Idx: n})
				i = j + 1
			}
		default:
			return nil, false
		}
	}
	return steps, true
}

// PathShape abstracts path text for class signatures: letters n, digits d.
func PathShape(s string) string {
	var sb strings.Builder
	last := byte(0)
	for i := 0; i < len(s); i++ {
		c := s[i]
		switch {
		case c >= '0' && c <= '9':
			c = 'd'
		case c >= 'a' && c <= 'z' || c >= 'A' && c <= 'Z':
			c = 'n'
		}
		if (c == 'd' || c == 'n') && last == c {
			continue
		}
		sb.WriteByte(c)
		last = c
	}
	return sb.String()
}

// jnode is a parsed JSON value with its byte range.
type jnode struct {
	kind     byte // 'o','a','s' scalar
	lo, hi   int
	keys     []string
	children []*jnode
}

func parseJ(b []byte, i int) (*jnode, int, bool) {
	for i < len(b) && (b[i] == ' ' || b[i] == '\n' || b[i] == '\t' || b[i] == '\r') {
		i++
	}
	if i >= len(b) {
		return nil, i, false
	}
	n := &jnode{lo: i}
	ws := func() {
		for i < len(b) && (b[i] == ' ' || b[i] == '\n' || b[i] == '\t' || b[i] == '\r') {
			i++
		}
	}
	switch b[i] {
	case '{':
		n.kind = 'o'
		i++
		ws()
		if i < len(b) && b[i] == '}' {
			n.hi = i + 1
			return n, i + 1, true
		}
		for {
			ws()
			k, j, ok := parseJ(b, i)
			if !ok || k.kind != 's' || b[k.lo] != '"' {
				return nil, i, false
			}
			var key string
			if stdjson.Unmarshal(b[k.lo:k.hi], &key) != nil {
				return nil, i, false
			}
			i = j
			ws()
			if i >= len(b) || b[i] != ':' {
				return nil, i, false
			}
			i++
			v, j2, ok := parseJ(b, i)
			if !ok {
				return nil, i, false
			}
			i = j2
			n.keys = append(n.keys, key)
			n.children = append(n.children, v)
			ws()
			if i < len(b) && b[i] == ',' {
				i++
				continue
			}
			if i < len(b) && b[i] == '}' {
				n.hi = i + 1
				return n, i + 1, true
			}
			return nil, i, false
		}
	case '[':
		n.kind = 'a'
		i++
		ws()
		if i < len(b) && b[i] == ']' {
			n.hi = i + 1
			return n, i + 1, true
		}
		for {
			v, j, ok := parseJ(b, i)
			if !ok {
				return nil, i, false
			}
			i = j
			n.children = append(n.children, v)
			ws()
			if i < len(b) && b[i] == ',' {
				i++
				continue
			}
			if i < len(b) && b[i] == ']' {
				n.hi = i + 1
				return n, i + 1, true
			}
			return nil, i, false
		}
	case '"':
		n.kind = 's'
		j := i + 1
		for j < len(b) && b[j] != '"' {
			if b[j] == '\\' {
				j++
			}
			j++
		}
		if j >= len(b) {
			return nil, i, false
		}
		n.hi = j + 1
		return n, j + 1, true
	default:
		n.kind = 's'
		j := i
		for j < len(b) && !strings.ContainsRune("[]{},: \n\t\r\"", rune(b[j])) {
			j++
		}
		if j == i {
			return nil, i, false
		}
		n.hi = j
		return n, j, true
	}
}

// EvalPath returns the sub-documents the path selects in document order,
// each compacted. ok=false when the document is not valid JSON.
func EvalPath(steps []PathStep, doc []byte) (out []string, ok bool) {
	if !Valid(doc) {
		return nil, false
	}
	root, _, pok := parseJ(doc, 0)
	if !pok {
		return nil, false
	}
	cur := []*jnode{root}
	for _, st := range steps {
		var next []*jnode
		for _, n := range cur {
			switch st.Kind {
			case 'n':
				if n.kind == 'o' {
					for i, k := range n.keys {
						if k == st.Name {
							next = append(next, n.children[i])
						}
					}
				}
			case 'i':
				if n.kind == 'a' && st.Idx < len(n.children) {
					next = append(next, n.children[st.Idx])
				}
			case '*':
				if n.kind == 'a' {
					next = append(next, n.children...)
				}
			case 'r':
				var walk func(x *jnode)
				walk = func(x *jnode) {
					if x.kind == 'o' {
						for i, k := range x.keys {
							if k == st.Name {
								next = append(next, x.children[i])
							}
							walk(x.children[i])
						}
					} else if x.kind == 'a' {
						for _, c := range x.children {
							walk(c)
						}
					}
				}
				walk(n)
			}
		}
		cur = next
	}
	for _, n := range cur {
		var b bytes.Buffer
		if err := stdjson.Compact(&b, doc[n.lo:n.hi]); err != nil {
			return nil, false
		}
		out = append(out, b.String())
	}
	return out, true
}

func (s PathStep) String() string {
	switch s.Kind {
	case 'n':
		return "." + s.Name
	case 'r':
		return ".." + s.Name
	case 'i':
		return fmt.Sprintf("[%d]", s.Idx)
	}
	return "[*]"
}
