module verif/mc

go 1.19

require github.com/goccy/go-json v0.0.0

replace github.com/goccy/go-json => /repo
