package universe

import (
	"context"
	stdjson "encoding/json"
	"fmt"
	"reflect"
	"strconv"
	"strings"
	"time"
)

// ---- named implementer types (compiled into the worker) ----------------------

type MV struct{ X int }

func (m MV) MarshalJSON() ([]byte, error) { return []byte(fmt.Sprintf(`{"mv":%d}`, m.X)), nil }

// MW: a marshaler whose output is loosely formatted (white space in front, inside and behind,
// as an Encoder-built or hand-indented MarshalJSON result has).
type MW struct{ X int }

func (m MW) MarshalJSON() ([]byte, error) {
	return []byte(fmt.Sprintf("\n {\"w\" : [ %d , 2 ]} \n", m.X)), nil
}

type MP struct{ X int }

func (m *MP) MarshalJSON() ([]byte, error) {
	if m == nil {
		return []byte(`"nilMP"`), nil
	}
	return []byte(fmt.Sprintf(`{"mp": %d}`, m.X)), nil
}

type TV struct{ X int }

func (m TV) MarshalText() ([]byte, error) { return []byte(fmt.Sprintf("tv<%d>", m.X)), nil }

type TP struct{ X int }

func (m *TP) MarshalText() ([]byte, error) {
	if m == nil {
		return []byte("nilTP"), nil
	}
	return []byte(fmt.Sprintf("tp&%d", m.X)), nil
}

type MI int

func (m MI) MarshalJSON() ([]byte, error) { return []byte(fmt.Sprintf(`"mi%d"`, int(m))), nil }

type TS string

func (m TS) MarshalText() ([]byte, error) { return []byte("ts:" + string(m)), nil }

type TU8 uint8

func (m TU8) MarshalText() ([]byte, error) { return []byte("u" + strconv.Itoa(int(m))), nil }

type MSl []int

func (m MSl) MarshalJSON() ([]byte, error) { return []byte(fmt.Sprintf(`{"len":%d}`, len(m))), nil }

// Plain is a named struct with an unexported field and an embedded struct.
type Emb struct {
	E int
	A string `json:"a"`
}
type Plain struct {
	A int
	b int
	Emb
	C *int `json:"c,omitempty"`
}

// Embedded POINTERS to structs: the embedded struct is allocated when the document names one of its members
// (whatever the member's value, null included); CaseIn has members whose keys differ only in case, one of them
// all lower-case, reached through a pointer and by value.
type EmbIn struct {
	Count int
	Label string `json:"label"`
}
type EmbPtr struct {
	*EmbIn
	Name string
}
type CaseIn struct {
	Name  string
	Alias string `json:"name"`
	ID    int    `json:"ID"`
	Id    int    `json:"id"`
}
type EmbCase struct {
	*CaseIn
	N int
}
type EmbCaseV struct {
	CaseIn
	N int
}

// A struct type that is embedded somewhere with one of its members shadowed (ShDoc.ID hides ShAudit.ID) or
// ambiguous (ShAmb: X of ShAmbA and of ShAmbB) and used again, un-embedded, later in the same root type: what
// the embedding prunes must not leak into the other use.
type ShAudit struct {
	ID     int
	Author string
}
type ShDoc struct {
	ShAudit
	ID string
}
type ShBundle struct {
	Doc  ShDoc
	Last ShAudit
}
type ShAmbA struct{ X, Y int }
type ShAmbB struct{ X, Z int }
type ShAmb struct {
	ShAmbA
	ShAmbB
}
type ShAmbUse struct {
	Amb ShAmb
	A   ShAmbA
	B   *ShAmbB
}

// Recursion through EMBEDDING: a struct that embeds a pointer to itself, two structs that embed pointers to each
// other, a recursive struct reached only through an embedded member.
type SelfEmb struct {
	A int
	*SelfEmb
}
type MutA struct {
	*MutB
	Y int
}
type MutB struct {
	*MutA
	X int
}
type RecKid struct {
	Name string
	Val  int
	Kids []*RecKid
}
type EmbRec struct {
	RecKid
	Name string
}

// Rec is a recursive type.
type Rec struct {
	V    int
	Next *Rec           `json:"next,omitempty"`
	Kids []Rec          `json:"kids,omitempty"`
	M    map[string]Rec `json:"m,omitempty"`
	I    interface{}    `json:"i,omitempty"`
}

// RecP is a plain recursive type (linked list).
type RecP struct {
	V    int
	Next *RecP `json:"next,omitempty"`
}

// decode side
type UJ struct{ B string }

func (u *UJ) UnmarshalJSON(b []byte) error { u.B = string(b); return nil }
func (u UJ) MarshalJSON() ([]byte, error) {
	if u.B == "" {
		return []byte("null"), nil
	}
	return []byte(u.B), nil
}

// UC implements only the context-aware UnmarshalJSON / MarshalJSON of go-json (encoding/json sees a plain struct,
// so it is used where the oracle is not encoding/json: C06, C11).
type UC struct{ B string }

func (u *UC) UnmarshalJSON(_ context.Context, b []byte) error { u.B = string(b); return nil }

type UT struct{ S string }

func (u *UT) UnmarshalText(b []byte) error { u.S = string(b); return nil }
func (u UT) MarshalText() ([]byte, error)  { return []byte(u.S), nil }

type UI int

func (u *UI) UnmarshalJSON(b []byte) error {
	n, err := strconv.Atoi(strings.Trim(string(b), `"`))
	if err != nil {
		return err
	}
	*u = UI(n + 1000)
	return nil
}

type UTS string

func (u *UTS) UnmarshalText(b []byte) error { *u = UTS("t:" + string(b)); return nil }

// ---- leaves ------------------------------------------------------------------

var (
	TBool    = reflect.TypeOf(false)
	TInt     = reflect.TypeOf(int(0))
	TInt8    = reflect.TypeOf(int8(0))
	TInt16   = reflect.TypeOf(int16(0))
	TInt32   = reflect.TypeOf(int32(0))
	TInt64   = reflect.TypeOf(int64(0))
	TUint    = reflect.TypeOf(uint(0))
	TUint8   = reflect.TypeOf(uint8(0))
	TUint16  = reflect.TypeOf(uint16(0))
	TUint32  = reflect.TypeOf(uint32(0))
	TUint64  = reflect.TypeOf(uint64(0))
	TUintptr = reflect.TypeOf(uintptr(0))
	TFloat32 = reflect.TypeOf(float32(0))
	TFloat64 = reflect.TypeOf(float64(0))
	TString  = reflect.TypeOf("")
	TBytes   = reflect.TypeOf([]byte(nil))
	TNumber  = reflect.TypeOf(stdjson.Number(""))
	TRaw     = reflect.TypeOf(stdjson.RawMessage(nil))
	TTime    = reflect.TypeOf(time.Time{})
	TIface   = reflect.TypeOf((*interface{})(nil)).Elem()
	TEmpty   = reflect.TypeOf(struct{}{})
)

// EncLeaves: leaf types of the encoding grammar, simplest first.
func EncLeaves() []reflect.Type {
	return []reflect.Type{
		TInt, TString, TBool, TFloat64, TIface, TBytes,
		TInt8, TInt16, TInt32, TInt64, TUint, TUint8, TUint16, TUint32, TUint64, TUintptr, TFloat32,
		TNumber, TRaw, TTime, TEmpty,
		reflect.TypeOf(MV{}), reflect.TypeOf(MP{}), reflect.TypeOf(TV{}), reflect.TypeOf(TP{}),
		reflect.TypeOf(MI(0)), reflect.TypeOf(TS("")), reflect.TypeOf(TU8(0)), reflect.TypeOf(MSl(nil)),
		reflect.TypeOf(Plain{}), reflect.TypeOf(RecP{}), reflect.TypeOf(MW{}),
		reflect.TypeOf(EmbPtr{}), reflect.TypeOf(EmbCase{}), reflect.TypeOf(EmbCaseV{}),
		reflect.TypeOf(ShBundle{}), reflect.TypeOf(ShAmbUse{}),
		reflect.TypeOf(SelfEmb{}), reflect.TypeOf(MutA{}), reflect.TypeOf(EmbRec{}),
	}
}

// small leaf subset used in wide positions
func EncLeavesSmall() []reflect.Type {
	return []reflect.Type{TInt, TString, TIface, TFloat64, reflect.TypeOf(MP{}), reflect.TypeOf(TV{}), TBytes}
}

// DecLeaves: leaf types of the decoding grammar.
func DecLeaves() []reflect.Type {
	return []reflect.Type{
		TInt, TString, TBool, TFloat64, TIface, TBytes,
		TInt8, TInt16, TInt32, TInt64, TUint, TUint8, TUint16, TUint32, TUint64, TUintptr, TFloat32,
		TNumber, TRaw, TTime, TEmpty,
		reflect.TypeOf(UJ{}), reflect.TypeOf(UT{}), reflect.TypeOf(UI(0)), reflect.TypeOf(UTS("")),
		reflect.TypeOf(Plain{}), reflect.TypeOf(RecP{}),
		reflect.TypeOf(EmbPtr{}), reflect.TypeOf(EmbCase{}), reflect.TypeOf(EmbCaseV{}),
		reflect.TypeOf(ShBundle{}), reflect.TypeOf(ShAmbUse{}),
	}
}

func DecLeavesSmall() []reflect.Type {
	return []reflect.Type{TInt, TString, TIface, TFloat64, reflect.TypeOf(UJ{}), reflect.TypeOf(UT{}), TBytes, TUint8}
}

// Tag sets for struct fields.
var Tags = []string{``, `json:"x"`, `json:",omitempty"`, `json:",string"`, `json:"-"`, `json:"x,omitempty,string"`}

// TagZoo: member names given in tags (name or name,option).
var TagZoo = []string{`a"b`, `a'b`, `a\\b`, "a`b", `a<b`, `a&b>`, `a b`, `é`, `a.b/c`, `ü1`, "a\u2028b", `[]{}`, `a:b`, `-,`, `a"b,omitempty`, `a<b,string`, `!#$%()*+-./:;=?@^_|~`, "m\u00b2", "\u00bd,omitempty", "\u2167", "x\u0663", "a\u0301"}

// MapKeys: key types of generated maps.
func MapKeys() []reflect.Type {
	return []reflect.Type{TString, TInt, TInt8, TUint64, reflect.TypeOf(TS("")), reflect.TypeOf(TV{})}
}

func isComparable(t reflect.Type) bool { return t.Comparable() }

// Wrap1 applies every constructor once to t.
func Wrap1(t reflect.Type, tags []string, decode bool) []reflect.Type {
	var out []reflect.Type
	out = append(out, reflect.PtrTo(t), reflect.SliceOf(t), reflect.ArrayOf(2, t), reflect.ArrayOf(0, t), reflect.MapOf(TString, t))
	for _, tag := range tags {
		out = append(out, reflect.StructOf([]reflect.StructField{{Name: "F", Type: t, Tag: reflect.StructTag(tag)}}))
	}
	return out
}

// Types enumerates the run-time type grammar to depth 2:
//
//	level 0: leaves
//	level 1: every constructor over every leaf (+ map key variants, ** and *** pointers)
//	level 2: every constructor over every level-1 type built from the small leaves,
//	         plus two-field structs over the small leaves with every tag pair
//
// level: 1 or 2. The result is deterministic and simplest-first.
func Types(level int, decode bool) []reflect.Type {
	leaves, small := EncLeaves(), EncLeavesSmall()
	if decode {
		leaves, small = DecLeaves(), DecLeavesSmall()
	}
	seen := map[reflect.Type]bool{}
	var out []reflect.Type
	add := func(t reflect.Type) {
		if !seen[t] {
			seen[t] = true
			out = append(out, t)
		}
	}
	for _, l := range leaves {
		add(l)
	}
	var l1small []reflect.Type
	for _, l := range leaves {
		for _, w := range Wrap1(l, Tags, decode) {
			add(w)
		}
	}
	for _, l := range small {
		l1small = append(l1small, Wrap1(l, []string{``, `json:",omitempty"`}, decode)...)
	}
	for _, k := range MapKeys()[1:] {
		add(reflect.MapOf(k, TInt))
		add(reflect.MapOf(k, TIface))
	}
	if !decode {
		// json.Number as a key: a string type whose values are written as numbers everywhere else
		add(reflect.MapOf(TNumber, TInt))
	}
	if decode {
		// key types that cannot hold an object key in encoding/json (a pointer key once received the key's
		// number as its address)
		for _, k := range []reflect.Type{reflect.PtrTo(TInt), reflect.PtrTo(TString), TBool, TFloat64, reflect.ArrayOf(1, TInt), TIface, reflect.PtrTo(reflect.TypeOf(UT{}))} {
			add(reflect.MapOf(k, TInt))
		}
	}
	// member names made of every class of character a tag may or may not carry (encoding/json
	// takes the punctuation of isValidTag, letters and digits; anything else falls back to the
	// field name): quotes, backslash, HTML specials, space, non-ASCII, line separators, the
	// special name "-"
	for _, n := range TagZoo {
		zt := reflect.StructOf([]reflect.StructField{{Name: "F", Type: TInt, Tag: reflect.StructTag(`json:` + strconv.Quote(n))}, {Name: "G", Type: TString}})
		add(zt)
		// ... and behind every constructor: the key text of a member is compiled once per way of reaching the struct
		for _, w := range Wrap1(zt, []string{``}, decode) {
			add(w)
		}
	}
	for _, l := range small {
		add(reflect.PtrTo(reflect.PtrTo(l)))
		add(reflect.PtrTo(reflect.PtrTo(reflect.PtrTo(l))))
	}
	if level < 2 {
		return out
	}
	for _, t := range l1small {
		for _, w := range Wrap1(t, []string{``, `json:",omitempty"`, `json:",string"`}, decode) {
			add(w)
		}
	}
	// every level-1 type once more under the basic constructors
	l1all := append([]reflect.Type(nil), out[len(leaves):]...)
	for _, t := range l1all {
		add(reflect.PtrTo(t))
		add(reflect.SliceOf(t))
		add(reflect.MapOf(TString, t))
		add(reflect.StructOf([]reflect.StructField{{Name: "F", Type: t}}))
		add(reflect.StructOf([]reflect.StructField{{Name: "F", Type: t, Tag: `json:",omitempty"`}, {Name: "G", Type: TInt}}))
	}
	tags2 := []string{``, `json:",omitempty"`, `json:"x"`}
	for _, a := range small {
		for _, b := range small {
			for _, ta := range tags2 {
				for _, tb := range tags2 {
					add(reflect.StructOf([]reflect.StructField{
						{Name: "F", Type: a, Tag: reflect.StructTag(ta)},
						{Name: "G", Type: b, Tag: reflect.StructTag(tb)},
					}))
				}
			}
		}
	}
	// pointer members next to other members (comma surgery, omitempty on the last member)
	for _, a := range []reflect.Type{reflect.PtrTo(TInt), reflect.SliceOf(TInt), reflect.MapOf(TString, TInt), reflect.PtrTo(reflect.TypeOf(MP{}))} {
		for _, ta := range tags2 {
			add(reflect.StructOf([]reflect.StructField{
				{Name: "F", Type: TInt},
				{Name: "G", Type: a, Tag: reflect.StructTag(ta)},
				{Name: "H", Type: a, Tag: reflect.StructTag(ta)},
			}))
		}
	}
	// every leaf, and a pointer to it, as the middle member of three: the interpreters have one
	// opcode family for the first member of a struct, one for members in the middle and one for
	// the last, each specialised by type, pointer-ness and tag
	for _, l := range leaves {
		for _, tag := range Tags {
			add(reflect.StructOf([]reflect.StructField{{Name: "A", Type: TInt}, {Name: "F", Type: l, Tag: reflect.StructTag(tag)}, {Name: "Z", Type: TString}}))
		}
		for _, tag := range []string{``, `json:",omitempty"`, `json:",string"`} {
			add(reflect.StructOf([]reflect.StructField{{Name: "A", Type: TInt}, {Name: "F", Type: reflect.PtrTo(l), Tag: reflect.StructTag(tag)}, {Name: "Z", Type: TString}}))
		}
	}
	return out
}

// Desc describes a type to the given depth (deeper parts are reduced to their kind).
func Desc(t reflect.Type, depth int) string {
	if t.Name() != "" && t.PkgPath() != "" {
		return t.Name()
	}
	if depth <= 0 {
		switch t.Kind() {
		case reflect.Ptr:
			return "*_"
		case reflect.Slice:
			if t.Elem().Kind() == reflect.Uint8 {
				return "[]byte"
			}
			return "[]_"
		case reflect.Array:
			return fmt.Sprintf("[%d]_", t.Len())
		case reflect.Map:
			return "map_"
		case reflect.Struct:
			if t.Name() != "" {
				return t.String()
			}
			return "struct_"
		case reflect.Interface:
			return "interface{}"
		}
		return t.String()
	}
	switch t.Kind() {
	case reflect.Ptr:
		return "*" + Desc(t.Elem(), depth-1)
	case reflect.Slice:
		if t.Elem().Kind() == reflect.Uint8 && t.Elem().Name() == "uint8" {
			return "[]byte"
		}
		return "[]" + Desc(t.Elem(), depth-1)
	case reflect.Array:
		return fmt.Sprintf("[%d]%s", t.Len(), Desc(t.Elem(), depth-1))
	case reflect.Map:
		return "map[" + Desc(t.Key(), 0) + "]" + Desc(t.Elem(), depth-1)
	case reflect.Struct:
		if t.Name() != "" {
			return t.String()
		}
		var sb strings.Builder
		sb.WriteString("struct{")
		for i := 0; i < t.NumField(); i++ {
			f := t.Field(i)
			if i > 0 {
				sb.WriteString("; ")
			}
			sb.WriteString(f.Name + " " + Desc(f.Type, depth-1))
			if f.Tag != "" {
				sb.WriteString(" `" + string(f.Tag) + "`")
			}
		}
		sb.WriteString("}")
		return sb.String()
	case reflect.Interface:
		return "interface{}"
	}
	return t.String()
}

// FatalEncodeShape reports whether encoding a top-level value (or a value
// held directly in an interface{}) of type t hits the listed fatal defect
// family of the encoder's handling of pointer chains and pointer-shaped
// values (types whose value is stored directly in the interface word):
// two or more pointer levels above a map, three or more above anything, a
// one-element array of pointers, or two or more pointer levels inside a
// single-field struct. Such cases kill the process (out of memory / fault),
// so they are executed one per process by the dedicated *.fatal harnesses and
// skipped (counted) elsewhere.
func FatalEncodeShape(t reflect.Type) bool {
	w, arr := 0, false
	for {
		if t.Kind() == reflect.Struct && t.NumField() == 1 && t != TTime {
			t = t.Field(0).Type
			w++
			continue
		}
		if t.Kind() == reflect.Array && t.Len() == 1 {
			t = t.Elem()
			w++
			arr = true
			continue
		}
		break
	}
	d := 0
	for t.Kind() == reflect.Ptr {
		d++
		t = t.Elem()
	}
	switch {
	case d >= 3:
		return true
	case d >= 2 && (t.Kind() == reflect.Map || w > 0):
		return true
	case (arr || w > 0) && d == 0 && t.Kind() == reflect.Map:
		return true // a map is itself pointer-shaped: struct{F map[...]} by value belongs to the family
	case arr && d >= 1:
		return true
	case w > 0 && d >= 1:
		// a pointer-shaped wrapper around a pointer to a composite: results depend on stale memory
		switch t.Kind() {
		case reflect.Interface, reflect.Struct, reflect.Map, reflect.Slice, reflect.Array:
			return t != TTime
		}
	}
	return false
}
