package universe

import (
	stdjson "encoding/json"
	"fmt"
	"math"
	"reflect"
	"strings"
	"time"
)

// Ch is the part of explore.Chooser the value builder needs.
type Ch interface {
	Deviate(n int) int
}

// ValOpts selects the value domains.
type ValOpts struct {
	NonFinite  bool // add NaN and +-Inf to the float domains (C03)
	BadNumbers bool // add ill-formed json.Number texts (C03)
	RoundTrip  bool // only values that survive a JSON round trip unchanged (C04)
	Boundaries bool // add every integer boundary of the width (C04)
	MaxDepth   int  // recursion limit for recursive types
}

var intDomain = map[reflect.Kind][]int64{
	reflect.Int:   {0, 1, -1, math.MinInt64, math.MaxInt64},
	reflect.Int8:  {0, 1, -1, math.MinInt8, math.MaxInt8},
	reflect.Int16: {0, 1, -1, math.MinInt16, math.MaxInt16},
	reflect.Int32: {0, 1, -1, math.MinInt32, math.MaxInt32},
	reflect.Int64: {0, 1, -1, math.MinInt64, math.MaxInt64},
}

var uintDomain = map[reflect.Kind][]uint64{
	reflect.Uint:    {0, 1, math.MaxUint64},
	reflect.Uint8:   {0, 1, math.MaxUint8},
	reflect.Uint16:  {0, 1, math.MaxUint16},
	reflect.Uint32:  {0, 1, math.MaxUint32},
	reflect.Uint64:  {0, 1, math.MaxUint64},
	reflect.Uintptr: {0, 1, math.MaxUint64},
}

var f64Domain = []float64{0, 1.5, math.Copysign(0, -1), 1e21, 1e-7, 5e-324, math.MaxFloat64, 0.1 + 0.2, 100, 1e20}
var f32Domain = []float64{0, 1.5, math.Copysign(0, -1), float64(float32(1e21)), float64(float32(1e-7)), float64(math.SmallestNonzeroFloat32), float64(math.MaxFloat32), float64(float32(0.1)), 16777216}
var nonFinite = []float64{math.NaN(), math.Inf(1), math.Inf(-1)}

var strDomain = []string{"", "a", "<&>\"\\", "  ", "\xff\xc3", "abcdefgh\n\x01", "é😀", "01234567<",
	// specials only in the last len%8 bytes of a string longer than one 8-byte word
	"abcdefgh" + string(rune(0x2028)), "abcdefghi\xff", "abcdefghijklmnop" + string(rune(0x2029)) + ">"}
var strDomainRT = []string{"", "a", "<&>\"\\", "  ", "abcdefgh\n\x01\x7f", "é😀", "\b\f\r\t/"}

// "1e400": a valid literal that no float64 holds (a json.Number keeps the text)
var numDomain = []string{"1", "", "-1.5e3", "0", "1e400", "-123456789012345678901234567890.5E+300"}
var badNumbers = []string{"1.", "+1", "--", "1e", "01", " 1", "1 ", "a", "\"", ".5", "-", "0x1", "1e+", "NaN", "1,2"}

var rawDomain = []string{`{"a": 1}`, ``, `[1, 2]`, `null`, `"s"`, " {\"a\":[1 ,2]}\n ", `[1e400]`}

var fixedTime = time.Unix(1, 5).UTC()

// IfaceValues is the domain of interface{} positions.
func IfaceValues(rt bool) []interface{} {
	if rt {
		return []interface{}{nil, float64(1), "s", 1.5, true, []interface{}{float64(1), "a"}, map[string]interface{}{"k": float64(1), "j": nil}, []interface{}{}, map[string]interface{}{}, map[string]interface{}{"a": float64(1), "a!": float64(2), "a b": float64(3)}}
	}
	one := 1
	return []interface{}{nil, 1, "s", 1.5, true, []interface{}{1, "a"}, map[string]interface{}{"k": 1, "j": nil}, MV{1}, &MP{2}, Plain{A: 1}, &RecP{V: 1}, &one, TV{3}, []int(nil), (*int)(nil), uint8(7), []byte("ab"), map[string]interface{}{"a": 1, "a!": 2, "a b": 3}}
}

// Build produces a value of type t; every position is a Deviate choice whose
// answer 0 is the simplest non-trivial content (containers non-nil with one
// element, so that the inner positions exist).
func Build(t reflect.Type, c Ch, o *ValOpts, depth int) reflect.Value {
	v := reflect.New(t).Elem()
	fill(v, c, o, depth)
	return v
}

func fill(v reflect.Value, c Ch, o *ValOpts, depth int) {
	t := v.Type()
	maxd := o.MaxDepth
	if maxd == 0 {
		maxd = 3
	}
	switch t {
	case TNumber:
		d := numDomain
		if o.RoundTrip {
			d = []string{"1", "-1.5e3", "0", "12345678901234567890"}
		}
		if o.BadNumbers {
			d = append(append([]string(nil), d...), badNumbers...)
		}
		v.SetString(d[c.Deviate(len(d))])
		return
	case TRaw:
		d := rawDomain
		if o.RoundTrip {
			d = []string{`{"a":1}`, `[1,2]`, `null`, `"s"`}
		}
		s := d[c.Deviate(len(d))]
		if s == "" {
			return
		}
		v.SetBytes([]byte(s))
		return
	case TTime:
		if c.Deviate(2) == 0 {
			v.Set(reflect.ValueOf(fixedTime))
		}
		return
	}
	switch t.Kind() {
	case reflect.Bool:
		v.SetBool(c.Deviate(2) == 1)
	case reflect.Int, reflect.Int8, reflect.Int16, reflect.Int32, reflect.Int64:
		d := intDomain[t.Kind()]
		v.SetInt(d[c.Deviate(len(d))])
	case reflect.Uint, reflect.Uint8, reflect.Uint16, reflect.Uint32, reflect.Uint64, reflect.Uintptr:
		d := uintDomain[t.Kind()]
		v.SetUint(d[c.Deviate(len(d))])
	case reflect.Float64:
		d := f64Domain
		if o.NonFinite {
			d = append(append([]float64(nil), d...), nonFinite...)
		}
		v.SetFloat(d[c.Deviate(len(d))])
	case reflect.Float32:
		d := f32Domain
		if o.NonFinite {
			d = append(append([]float64(nil), d...), nonFinite...)
		}
		v.SetFloat(d[c.Deviate(len(d))])
	case reflect.String:
		d := strDomain
		if o.RoundTrip {
			d = strDomainRT
		}
		v.SetString(d[c.Deviate(len(d))])
	case reflect.Ptr:
		if depth >= maxd {
			return
		}
		if c.Deviate(2) == 1 {
			return // nil
		}
		p := reflect.New(t.Elem())
		fill(p.Elem(), c, o, depth+1)
		v.Set(p)
	case reflect.Slice:
		if t.Elem().Kind() == reflect.Uint8 && t.Elem() == TUint8 {
			d := [][]byte{[]byte("ab"), nil, {}, {0, 255, '<'}}
			if b := d[c.Deviate(len(d))]; b != nil {
				v.Set(reflect.ValueOf(b).Convert(t))
			}
			return
		}
		if depth >= maxd {
			return
		}
		switch c.Deviate(4) {
		case 0:
			s := reflect.MakeSlice(t, 1, 1)
			fill(s.Index(0), c, o, depth+1)
			v.Set(s)
		case 1: // nil
		case 2:
			v.Set(reflect.MakeSlice(t, 0, 0))
		case 3:
			s := reflect.MakeSlice(t, 2, 2)
			fill(s.Index(0), c, o, depth+1)
			fill(s.Index(1), c, o, depth+1)
			v.Set(s)
		}
	case reflect.Array:
		for i := 0; i < t.Len(); i++ {
			fill(v.Index(i), c, o, depth+1)
		}
	case reflect.Map:
		if depth >= maxd {
			return
		}
		mk := func(i int) reflect.Value {
			k := reflect.New(t.Key()).Elem()
			switch t.Key().Kind() {
			case reflect.String:
				k.SetString([]string{"k", "a<"}[i])
			case reflect.Int, reflect.Int8, reflect.Int16, reflect.Int32, reflect.Int64:
				k.SetInt([]int64{-1, 2}[i])
			case reflect.Uint, reflect.Uint8, reflect.Uint16, reflect.Uint32, reflect.Uint64, reflect.Uintptr:
				k.SetUint([]uint64{7, 2}[i])
			case reflect.Struct:
				if k.NumField() > 0 && k.Field(0).Kind() == reflect.Int {
					k.Field(0).SetInt(int64(5 - i))
				}
			}
			return k
		}
		nm := 4
		if t.Key().Kind() == reflect.String {
			nm = 5
		}
		switch c.Deviate(nm) {
		case 4:
			// keys one of which is a proper prefix of the others, continued by bytes below and above '"':
			// the order of the members depends on what exactly the encoder compares
			m := reflect.MakeMap(t)
			for _, ks := range []string{"a", "a!", "a b", "ab"} {
				k := reflect.New(t.Key()).Elem()
				k.SetString(ks)
				m.SetMapIndex(k, reflect.New(t.Elem()).Elem())
			}
			v.Set(m)
		case 0:
			m := reflect.MakeMap(t)
			e := reflect.New(t.Elem()).Elem()
			fill(e, c, o, depth+1)
			m.SetMapIndex(mk(0), e)
			v.Set(m)
		case 1: // nil
		case 2:
			v.Set(reflect.MakeMap(t))
		case 3:
			m := reflect.MakeMap(t)
			for i := 0; i < 2; i++ {
				e := reflect.New(t.Elem()).Elem()
				fill(e, c, o, depth+1)
				m.SetMapIndex(mk(i), e)
			}
			v.Set(m)
		}
	case reflect.Struct:
		for i := 0; i < t.NumField(); i++ {
			f := t.Field(i)
			if f.PkgPath != "" && !f.Anonymous {
				continue
			}
			if !v.Field(i).CanSet() {
				continue
			}
			fill(v.Field(i), c, o, depth+1)
		}
	case reflect.Interface:
		d := IfaceValues(o.RoundTrip)
		x := d[c.Deviate(len(d))]
		if x != nil {
			v.Set(reflect.ValueOf(x))
		}
	}
}

// ValidHeader reports whether a string/slice header is well formed enough to
// be read (non-nil base or zero length).
func DescVal(v reflect.Value, depth int) string {
	switch v.Kind() {
	case reflect.Ptr:
		if v.IsNil() {
			return "nil"
		}
		if depth <= 0 {
			return "&_"
		}
		return "&" + DescVal(v.Elem(), depth-1)
	case reflect.Interface:
		if v.IsNil() {
			return "nil"
		}
		if depth <= 0 {
			return "i(_)"
		}
		return "i(" + Desc(v.Elem().Type(), 1) + ":" + DescVal(v.Elem(), depth-1) + ")"
	case reflect.Slice:
		if v.IsNil() {
			return "nil"
		}
		if v.Len() == 0 {
			return "[]"
		}
		if depth <= 0 || (v.Type().Elem().Kind() == reflect.Uint8) {
			return fmt.Sprintf("[%d]", v.Len())
		}
		var p []string
		for i := 0; i < v.Len(); i++ {
			p = append(p, DescVal(v.Index(i), depth-1))
		}
		return "[" + strings.Join(p, ",") + "]"
	case reflect.Array:
		if depth <= 0 {
			return fmt.Sprintf("[%d]", v.Len())
		}
		var p []string
		for i := 0; i < v.Len(); i++ {
			p = append(p, DescVal(v.Index(i), depth-1))
		}
		return "[" + strings.Join(p, ",") + "]"
	case reflect.Map:
		if v.IsNil() {
			return "nil"
		}
		if v.Len() == 0 {
			return "{}"
		}
		return fmt.Sprintf("map(%d)", v.Len())
	case reflect.Struct:
		if v.Type() == TTime {
			if v.IsZero() {
				return "zero"
			}
			return "nz"
		}
		if depth <= 0 {
			if v.IsZero() {
				return "zero"
			}
			return "nz"
		}
		var p []string
		for i := 0; i < v.NumField(); i++ {
			p = append(p, DescVal(v.Field(i), depth-1))
		}
		return "{" + strings.Join(p, ",") + "}"
	case reflect.Float32, reflect.Float64:
		f := v.Float()
		switch {
		case math.IsNaN(f):
			return "NaN"
		case math.IsInf(f, 0):
			return "Inf"
		case f == 0 && math.Signbit(f):
			return "-0"
		case f == 0:
			return "0"
		}
		return "nz"
	case reflect.String:
		s := v.String()
		if v.Type() == TNumber {
			return fmt.Sprintf("%q", s)
		}
		switch {
		case s == "":
			return `""`
		case strings.ContainsAny(s, "<>&"):
			return "html"
		case strings.Contains(s, " "):
			return "ls"
		case !stdValidUTF8(s):
			return "badutf8"
		case strings.ContainsAny(s, "\n\x01"):
			return "ctl"
		}
		return "s"
	}
	if v.IsZero() {
		return "0"
	}
	return "nz"
}

func stdValidUTF8(s string) bool {
	for _, r := range s {
		if r == 0xFFFD {
			return false
		}
	}
	return true
}

var _ = stdjson.Valid
