// Package universe holds the bounded-exhaustive generators: documents,
// alphabets, type shapes and value domains.
package universe

import "strings"

// Scalars of the document grammar (every number form, every escape class).
var Scalars = []string{
	`0`, `-1`, `1.5`, `1e2`, `-0.5E-1`, `10`, `"a"`, `""`, `"\u00e9x"`, `"\n\"\\\/"`, `"\ud83d\ude00"`, `"\u0041\uD800"`, "\"\xc3\xa9\"", `"\b\f\r\t"`, `true`, `false`, `null`,
}

// Reduced scalar set used inside wider containers.
var ScalarsR = []string{`0`, `"a"`, `true`, `null`, `-1.5e1`}

var containersR = []string{`[]`, `{}`, `[0]`, `{"a":0}`, `[0,"a"]`, `{"a":0,"b":"a"}`, `{"b":null}`}

// Docs returns the valid texts of the document grammar up to the given
// depth (1..3), without extra whitespace, simplest first, no duplicates.
func Docs(depth int) []string {
	seen := map[string]bool{}
	var out []string
	add := func(s string) {
		if !seen[s] {
			seen[s] = true
			out = append(out, s)
		}
	}
	for _, s := range Scalars {
		add(s)
	}
	if depth < 1 {
		return out
	}
	add(`[]`)
	add(`{}`)
	for _, s := range Scalars {
		add(`[` + s + `]`)
		add(`{"a":` + s + `}`)
		add(`{"b":` + s + `}`)
	}
	for _, x := range ScalarsR {
		for _, y := range ScalarsR {
			add(`[` + x + `,` + y + `]`)
			add(`{"a":` + x + `,"b":` + y + `}`)
			add(`{"a":` + x + `,"a":` + y + `}`)
			add(`{"A":` + x + `,"a":` + y + `}`)
		}
	}
	add(`[0,1,2]`)
	add(`{"a":0,"b":1,"c":2}`)
	add(`{"a":1}`)
	add(`{"":1}`)
	if depth < 2 {
		return out
	}
	l1 := append([]string(nil), out[len(Scalars):]...)
	for _, c := range l1 {
		add(`[` + c + `]`)
		add(`{"a":` + c + `}`)
	}
	for _, x := range containersR {
		for _, y := range containersR {
			add(`[` + x + `,` + y + `]`)
			add(`{"a":` + x + `,"b":` + y + `}`)
		}
		for _, y := range ScalarsR {
			add(`[` + x + `,` + y + `]`)
			add(`[` + y + `,` + x + `]`)
			add(`{"a":` + x + `,"b":` + y + `}`)
			add(`{"b":` + y + `,"a":` + x + `}`)
		}
	}
	if depth < 3 {
		return out
	}
	for _, x := range containersR {
		for _, y := range containersR {
			add(`[[` + x + `],` + y + `]`)
			add(`{"a":{"a":` + x + `},"b":` + y + `}`)
			add(`{"a":[` + x + `,` + y + `]}`)
			add(`[{"a":` + x + `,"b":` + y + `}]`)
			add(`{"b":[` + x + `],"a":{"b":` + y + `}}`)
		}
	}
	return out
}

// Tokens splits a valid JSON text into its tokens (no validation).
func Tokens(s string) []string {
	var t []string
	for i := 0; i < len(s); {
		c := s[i]
		switch {
		case strings.IndexByte("[]{},:", c) >= 0:
			t = append(t, s[i:i+1])
			i++
		case c == ' ' || c == '\n' || c == '\t' || c == '\r':
			i++
		case c == '"':
			j := i + 1
			for j < len(s) && s[j] != '"' {
				if s[j] == '\\' {
					j++
				}
				j++
			}
			t = append(t, s[i:j+1])
			i = j + 1
		default:
			j := i
			for j < len(s) && strings.IndexByte("[]{},: \n\t\r\"", s[j]) < 0 {
				j++
			}
			t = append(t, s[i:j])
			i = j
		}
	}
	return t
}

// WithSpace returns the text with ws inserted at token boundary k (0..len(tokens)).
func WithSpace(tokens []string, k int, ws string) string {
	var sb strings.Builder
	for i, t := range tokens {
		if i == k {
			sb.WriteString(ws)
		}
		sb.WriteString(t)
	}
	if k >= len(tokens) {
		sb.WriteString(ws)
	}
	return sb.String()
}
