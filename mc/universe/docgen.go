package universe

import (
	"fmt"
	"math"
	"reflect"
	"strings"
)

// Doc is a generated document tree, kept as a tree so that a failing
// (type, document) pair can be reduced to a failing sub-pair.
type Doc struct {
	Lit  string // literal text for scalars (and for wrong-kind replacements)
	Arr  []*Doc
	Obj  []Member
	Kind byte         // 'l' literal, 'a' array, 'o' object
	For  reflect.Type // the type this node was generated for
}

type Member struct {
	Key string // JSON text of the key, with quotes
	Val *Doc
}

func lit(t reflect.Type, s string) *Doc { return &Doc{Lit: s, Kind: 'l', For: t} }

func (d *Doc) Render(sb *strings.Builder, ws string) {
	switch d.Kind {
	case 'l':
		sb.WriteString(d.Lit)
	case 'a':
		sb.WriteString("[" + ws)
		for i, e := range d.Arr {
			if i > 0 {
				sb.WriteString("," + ws)
			}
			e.Render(sb, ws)
		}
		sb.WriteString(ws + "]")
	case 'o':
		sb.WriteString("{" + ws)
		for i, m := range d.Obj {
			if i > 0 {
				sb.WriteString("," + ws)
			}
			sb.WriteString(m.Key + ws + ":" + ws)
			m.Val.Render(sb, ws)
		}
		sb.WriteString(ws + "}")
	}
}

func (d *Doc) String() string {
	var sb strings.Builder
	d.Render(&sb, "")
	return sb.String()
}

// Skeleton abstracts the document for class signatures. A literal document is
// kept verbatim. In a composite with at most two members the member literals
// are kept verbatim too; in wider composites they are reduced to their JSON
// kind (n s t z=null), because there the other members only vary the context.
func (d *Doc) Skeleton(depth int) string {
	return d.skel(depth, true)
}

func litKind(s string) string {
	switch {
	case s == "null":
		return "z"
	case s == "true" || s == "false":
		return "t"
	case len(s) > 0 && s[0] == '"':
		return "s"
	case len(s) > 0 && (s[0] == '[' || s[0] == '{'):
		return s[:1] + "~"
	}
	return "n"
}

func (d *Doc) skel(depth int, verbatim bool) string {
	if depth <= 0 && d.Kind != 'l' {
		return "_"
	}
	switch d.Kind {
	case 'l':
		if !verbatim {
			return litKind(d.Lit)
		}
		if len(d.Lit) > 24 {
			return d.Lit[:24] + "~"
		}
		return d.Lit
	case 'a':
		var p []string
		for _, e := range d.Arr {
			p = append(p, e.skel(depth-1, len(d.Arr) <= 2))
		}
		return "[" + strings.Join(p, ",") + "]"
	default:
		var p []string
		for _, m := range d.Obj {
			p = append(p, m.Key+":"+m.Val.skel(depth-1, len(d.Obj) <= 2))
		}
		return "{" + strings.Join(p, ",") + "}"
	}
}

func intBounds(k reflect.Kind) (min int64, max uint64, signed bool) {
	switch k {
	case reflect.Int8:
		return math.MinInt8, math.MaxInt8, true
	case reflect.Int16:
		return math.MinInt16, math.MaxInt16, true
	case reflect.Int32:
		return math.MinInt32, math.MaxInt32, true
	case reflect.Int, reflect.Int64:
		return math.MinInt64, math.MaxInt64, true
	case reflect.Uint8:
		return 0, math.MaxUint8, false
	case reflect.Uint16:
		return 0, math.MaxUint16, false
	case reflect.Uint32:
		return 0, math.MaxUint32, false
	}
	return 0, math.MaxUint64, false
}

func plus1(s string) string {
	// decimal increment of a non-negative decimal string
	b := []byte(s)
	i := len(b) - 1
	for i >= 0 {
		if b[i] == '9' {
			b[i] = '0'
			i--
			continue
		}
		b[i]++
		return string(b)
	}
	return "1" + string(b)
}

func intDocs(k reflect.Kind) []string {
	min, max, signed := intBounds(k)
	maxs := fmt.Sprintf("%d", max)
	out := []string{"1", "0", maxs, plus1(maxs)}
	if signed {
		mins := fmt.Sprintf("%d", -min)
		if min == math.MinInt64 {
			mins = "9223372036854775808"
		}
		out = append(out, "-1", "-"+mins, "-"+plus1(mins))
	} else {
		out = append(out, "-1")
	}
	return append(out, "null", `"1"`, "1.0", "1e2", "true", "[1]", "{}", "-0", "1.5", "123456789012345678901234567890")
}

var (
	floatDocs  = []string{"1.5", "0", "-0", "1e400", "-1e400", "1e-400", "3.4028236e38", "1", "null", `"1.5"`, "true", "123456789012345678901234567890", "[]"}
	stringDocs = []string{`"a"`, `""`, `"é\n\"\\\/"`, `"😀"`, `"\ud83d"`, "null", "1", "true", "[]", "{}", "\"\xc3\xa9\"", "\"\xff\"", `"x\\\"]}"`}
	boolDocs   = []string{"true", "false", "null", "1", `"true"`, "[]"}
	bytesDocs  = []string{`"YWI="`, `""`, `"!!"`, "null", "[1,2]", `"YWI"`, "1", `"YQ=="`}
	numberDocs = []string{"1", "-1.5e3", "null", `"1"`, `"abc"`, "true", "[]", "0"}
	rawDocs    = []string{`{"a": 1}`, "null", "1", `"s"`, `[1, 2]`, "true", `["a\\\"]",{"k\\\\":"\\\"}"}]`}
	timeDocs   = []string{`"1970-01-01T00:00:01Z"`, "null", `"bad"`, "1", "{}"}
	ifaceDocs  = []string{"1", `"s"`, "null", "true", `[1,"a"]`, `{"k":1,"k":2}`, "-1.5e3", "12345678901234567890", "{}", "[]", `{"a":{"b":[null]}}`, `["a\\\"]",{"k\\\\":"\\\"}"}]`}
	ujDocs     = []string{`{"a": 1}`, "null", "1", `"s"`, `[1, 2]`, `["a\\\"]",{"k\\\\":"\\\"}"}]`}
	utDocs     = []string{`"txt"`, "null", "1", `""`, "true", `"é"`, "[]"}
	uiDocs     = []string{"5", `"5"`, "null", `"x"`, "[]"}
	quotedDocs = []string{`"1"`, "1", `""`, `"x"`, "null", `"null"`, `" 1"`, `"true"`, `"\"a\""`, `"1.5"`}
)

// JSONName returns the member name of a struct field and whether it is encoded at all.
func JSONName(f reflect.StructField) (name string, ok bool, quoted bool) {
	if f.PkgPath != "" && !f.Anonymous {
		return "", false, false
	}
	name = f.Name
	if tag, has := f.Tag.Lookup("json"); has {
		if tag == "-" {
			return "", false, false
		}
		parts := strings.Split(tag, ",")
		if parts[0] != "" {
			name = parts[0]
		}
		for _, o := range parts[1:] {
			if o == "string" {
				quoted = true
			}
		}
	}
	return name, true, quoted
}

// GenDoc generates a document for destination type t; every node is a Deviate
// choice whose answer 0 is a well-typed value.
func GenDoc(t reflect.Type, c Ch, depth int) *Doc {
	pick := func(d []string) *Doc { return lit(t, d[c.Deviate(len(d))]) }
	switch t {
	case TNumber:
		return pick(numberDocs)
	case TRaw:
		return pick(rawDocs)
	case TTime:
		return pick(timeDocs)
	case TBytes:
		return pick(bytesDocs)
	}
	switch t.Name() {
	case "UJ":
		return pick(ujDocs)
	case "UT", "UTS":
		return pick(utDocs)
	case "UI":
		return pick(uiDocs)
	}
	switch t.Kind() {
	case reflect.Bool:
		return pick(boolDocs)
	case reflect.Int, reflect.Int8, reflect.Int16, reflect.Int32, reflect.Int64,
		reflect.Uint, reflect.Uint8, reflect.Uint16, reflect.Uint32, reflect.Uint64, reflect.Uintptr:
		return pick(intDocs(t.Kind()))
	case reflect.Float32, reflect.Float64:
		return pick(floatDocs)
	case reflect.String:
		return pick(stringDocs)
	case reflect.Interface:
		return pick(ifaceDocs)
	case reflect.Ptr:
		if depth > 3 || c.Deviate(2) == 1 {
			return lit(t, "null")
		}
		d := GenDoc(t.Elem(), c, depth+1)
		return d
	case reflect.Slice:
		if depth > 4 {
			return lit(t, "null")
		}
		switch c.Deviate(6) {
		case 0:
			return &Doc{Kind: 'a', For: t, Arr: []*Doc{GenDoc(t.Elem(), c, depth+1)}}
		case 1:
			return lit(t, "null")
		case 2:
			return &Doc{Kind: 'a', For: t}
		case 3:
			return &Doc{Kind: 'a', For: t, Arr: []*Doc{GenDoc(t.Elem(), c, depth+1), GenDoc(t.Elem(), c, depth+1), lit(t.Elem(), "null")}}
		case 4:
			return lit(t, "{}")
		default:
			return lit(t, "1")
		}
	case reflect.Array:
		n := t.Len()
		mk := func(k int) *Doc {
			d := &Doc{Kind: 'a', For: t}
			for i := 0; i < k; i++ {
				d.Arr = append(d.Arr, GenDoc(t.Elem(), c, depth+1))
			}
			return d
		}
		switch c.Deviate(6) {
		case 0:
			return mk(n)
		case 1:
			return lit(t, "null")
		case 2:
			return &Doc{Kind: 'a', For: t}
		case 3:
			return mk(n + 1)
		case 4:
			if n > 0 {
				return mk(n - 1)
			}
			return lit(t, `"s"`)
		default:
			return lit(t, "{}")
		}
	case reflect.Map:
		if depth > 4 {
			return lit(t, "null")
		}
		keys := []string{`"k"`, `"j"`}
		switch t.Key().Kind() {
		case reflect.Int, reflect.Int8, reflect.Int16, reflect.Int32, reflect.Int64:
			keys = []string{`"1"`, `"-1"`}
		case reflect.Uint, reflect.Uint8, reflect.Uint16, reflect.Uint32, reflect.Uint64, reflect.Uintptr:
			keys = []string{`"1"`, `"2"`}
		case reflect.Ptr, reflect.Array:
			keys = []string{`"5"`, `"6"`}
		case reflect.Bool:
			keys = []string{`"true"`, `"false"`}
		case reflect.Float64, reflect.Float32:
			keys = []string{`"1.5"`, `"2"`}
		}
		e := func() *Doc { return GenDoc(t.Elem(), c, depth+1) }
		switch c.Deviate(8) {
		case 0:
			return &Doc{Kind: 'o', For: t, Obj: []Member{{keys[0], e()}}}
		case 1:
			return lit(t, "null")
		case 2:
			return &Doc{Kind: 'o', For: t}
		case 3:
			return &Doc{Kind: 'o', For: t, Obj: []Member{{keys[0], e()}, {keys[1], e()}}}
		case 4:
			return &Doc{Kind: 'o', For: t, Obj: []Member{{keys[0], e()}, {keys[0], e()}}}
		case 5:
			return lit(t, "[]")
		case 6:
			// a key the key type cannot take
			bad := `"x"`
			switch t.Key().Kind() {
			case reflect.String:
				bad = `"k"`
			case reflect.Int8:
				bad = `"128"`
			}
			return &Doc{Kind: 'o', For: t, Obj: []Member{{bad, e()}}}
		default:
			return &Doc{Kind: 'o', For: t, Obj: []Member{{keys[0], lit(t.Elem(), "null")}}}
		}
	case reflect.Struct:
		switch c.Deviate(3) {
		case 1:
			return lit(t, "null")
		case 2:
			return lit(t, "[]")
		}
		d := &Doc{Kind: 'o', For: t}
		for i := 0; i < t.NumField(); i++ {
			f := t.Field(i)
			if f.Anonymous {
				// members of embedded structs are addressed by their own names
				ft := f.Type
				if ft.Kind() == reflect.Ptr && ft.Elem().Kind() == reflect.Struct {
					ft = ft.Elem() // an embedded pointer: same members, allocated on demand
				}
				if ft.Kind() == reflect.Struct {
					sub := GenDoc(ft, c, depth+1)
					if sub.Kind == 'o' {
						d.Obj = append(d.Obj, sub.Obj...)
					}
				}
				continue
			}
			name, ok, quoted := JSONName(f)
			if !ok {
				// the name of an ignored field may still appear in the document
				if c.Deviate(2) == 1 {
					d.Obj = append(d.Obj, Member{`"` + f.Name + `"`, lit(f.Type, "1")})
				}
				continue
			}
			val := func() *Doc {
				if quoted {
					switch f.Type.Kind() {
					case reflect.Bool, reflect.Int, reflect.Int8, reflect.Int16, reflect.Int32, reflect.Int64,
						reflect.Uint, reflect.Uint8, reflect.Uint16, reflect.Uint32, reflect.Uint64, reflect.Uintptr,
						reflect.Float32, reflect.Float64, reflect.String:
						return lit(f.Type, quotedDocs[c.Deviate(len(quotedDocs))])
					}
				}
				return GenDoc(f.Type, c, depth+1)
			}
			key := `"` + name + `"`
			switch c.Deviate(7) {
			case 0:
				d.Obj = append(d.Obj, Member{key, val()})
			case 1: // omitted
			case 2:
				d.Obj = append(d.Obj, Member{key, lit(f.Type, "null")})
			case 3:
				alt := strings.ToLower(name)
				if alt == name {
					alt = strings.ToUpper(name)
				}
				d.Obj = append(d.Obj, Member{`"` + alt + `"`, val()})
			case 4:
				d.Obj = append(d.Obj, Member{key, val()}, Member{key, val()})
			case 5:
				d.Obj = append(d.Obj, Member{`"zz"`, lit(f.Type, `[1,{"a":2,"q\\\"}":"\\\\\\\"]x"},"e\\\\"]`)}, Member{key, val()})
			case 6:
				d.Obj = append(d.Obj, Member{key, val()}, Member{`"` + name + `x"`, lit(f.Type, "1")})
			}
		}
		return d
	}
	return lit(t, "null")
}

// Prefill fills v with non-zero sentinel contents: integers 7, strings "pre",
// pointers non-nil, slices with two elements and spare capacity, maps with
// members "k" and "old".
func Prefill(v reflect.Value, depth int) {
	if depth > 5 {
		return
	}
	t := v.Type()
	switch t {
	case TNumber:
		v.SetString("77")
		return
	case TRaw:
		v.SetBytes([]byte(`"pre"`))
		return
	case TTime:
		v.Set(reflect.ValueOf(fixedTime))
		return
	}
	switch t.Kind() {
	case reflect.Bool:
		v.SetBool(true)
	case reflect.Int, reflect.Int8, reflect.Int16, reflect.Int32, reflect.Int64:
		v.SetInt(7)
	case reflect.Uint, reflect.Uint8, reflect.Uint16, reflect.Uint32, reflect.Uint64, reflect.Uintptr:
		v.SetUint(7)
	case reflect.Float32, reflect.Float64:
		v.SetFloat(7.5)
	case reflect.String:
		v.SetString("pre")
	case reflect.Ptr:
		p := reflect.New(t.Elem())
		Prefill(p.Elem(), depth+1)
		v.Set(p)
	case reflect.Slice:
		s := reflect.MakeSlice(t, 2, 4)
		Prefill(s.Index(0), depth+1)
		Prefill(s.Index(1), depth+1)
		v.Set(s)
	case reflect.Array:
		for i := 0; i < t.Len(); i++ {
			Prefill(v.Index(i), depth+1)
		}
	case reflect.Map:
		m := reflect.MakeMap(t)
		for _, ks := range []string{"k", "old"} {
			k := reflect.New(t.Key()).Elem()
			switch t.Key().Kind() {
			case reflect.String:
				k.SetString(ks)
			case reflect.Int, reflect.Int8, reflect.Int16, reflect.Int32, reflect.Int64:
				k.SetInt(int64(len(ks)))
			case reflect.Uint, reflect.Uint8, reflect.Uint16, reflect.Uint32, reflect.Uint64, reflect.Uintptr:
				k.SetUint(uint64(len(ks)))
			default:
				continue
			}
			e := reflect.New(t.Elem()).Elem()
			Prefill(e, depth+1)
			m.SetMapIndex(k, e)
		}
		v.Set(m)
	case reflect.Struct:
		for i := 0; i < t.NumField(); i++ {
			if v.Field(i).CanSet() {
				Prefill(v.Field(i), depth+1)
			}
		}
	case reflect.Interface:
		v.Set(reflect.ValueOf("pre"))
	}
}
