package universe

import (
	"encoding/json"
	"testing"
)

func TestDocsValid(t *testing.T) {
	for d := 0; d <= 3; d++ {
		docs := Docs(d)
		t.Logf("depth %d: %d docs", d, len(docs))
		for _, s := range docs {
			if !json.Valid([]byte(s)) {
				t.Fatalf("invalid doc %q", s)
			}
		}
	}
}
