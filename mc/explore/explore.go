// Package explore is a stateless depth-first explorer over choice points.
//
// A body is a deterministic function of the answers it receives from a
// Chooser. The explorer runs the body with a prefix of forced answers and
// answer 0 afterwards, records every choice point it met, and then re-runs
// the body once for every alternative answer of every point at or after the
// end of the prefix whose cumulative deviation cost fits the bound. Every
// leaf (= complete execution) is therefore visited exactly once.
package explore

import "fmt"

// Chooser hands out answers during one execution.
type Chooser struct {
	prefix []int
	taken  []int
	arity  []int
	costly []bool
	// Owned is false when this execution is run only to discover the
	// subtree below it (sharding): the body should run but not be counted.
	Owned bool
}

func (c *Chooser) next(n int, costly bool) int {
	if n <= 0 {
		panic("explore: choice point with no alternatives")
	}
	k := len(c.taken)
	v := 0
	if k < len(c.prefix) {
		v = c.prefix[k]
		if v >= n {
			panic(fmt.Sprintf("explore: replay divergence at point %d: forced %d, arity %d", k, v, n))
		}
	}
	c.taken = append(c.taken, v)
	c.arity = append(c.arity, n)
	c.costly = append(c.costly, costly)
	return v
}

// Pick is a free choice among n alternatives: all are explored.
func (c *Chooser) Pick(n int) int { return c.next(n, false) }

// Deviate is a choice whose non-zero alternatives each cost one deviation.
func (c *Chooser) Deviate(n int) int { return c.next(n, true) }

// Choices returns the answers given so far.
func (c *Chooser) Choices() []int { return append([]int(nil), c.taken...) }

// Replay returns a chooser that forces the given answers (and 0 afterwards).
func Replay(prefix []int) *Chooser { return &Chooser{prefix: prefix, Owned: true} }

// Explorer drives a body through its whole choice tree.
type Explorer struct {
	Bound    int // maximum number of deviations (<0: unbounded)
	Shard    int
	NShards  int
	Leaves   int64 // executions owned by this shard
	Runs     int64 // executions including discovery runs
	Points   int64
	MaxDepth int
	// Stop, if set and returning true, ends the exploration early
	// (the caller must then report exhaustive=false).
	Stop    func() bool
	Stopped bool
}

type node struct {
	prefix []int
	level  int // number of alternatives taken = recursion depth
	devs   int
}

// Run explores body. body must be deterministic in the chooser's answers.
func (e *Explorer) Run(body func(c *Chooser)) {
	if e.NShards <= 0 {
		e.NShards = 1
	}
	var ordinal int64
	stack := []node{{}}
	for len(stack) > 0 {
		if e.Stop != nil && e.Stop() {
			e.Stopped = true
			return
		}
		nd := stack[len(stack)-1]
		stack = stack[:len(stack)-1]
		c := &Chooser{prefix: nd.prefix}
		// levels 0 and 1 are run by every shard (to discover level 2) but
		// owned by shard 0 only; from level 2 on a node is only on the stack
		// of the shard that owns it.
		c.Owned = nd.level >= 2 || e.Shard == 0
		body(c)
		e.Runs++
		if c.Owned {
			e.Leaves++
			e.Points += int64(len(c.taken))
		}
		if len(c.taken) > e.MaxDepth {
			e.MaxDepth = len(c.taken)
		}
		if len(c.taken) < len(nd.prefix) {
			panic(fmt.Sprintf("explore: replay divergence: body consumed %d of %d forced answers", len(c.taken), len(nd.prefix)))
		}
		// children, pushed in reverse so that the simplest is explored first
		var kids []node
		devs := nd.devs
		for i := len(nd.prefix); i < len(c.taken); i++ {
			cost := devs
			if c.costly[i] {
				cost++
			}
			if e.Bound >= 0 && cost > e.Bound {
				continue
			}
			for alt := 1; alt < c.arity[i]; alt++ {
				if nd.level == 1 {
					o := ordinal
					ordinal++
					if int(o%int64(e.NShards)) != e.Shard {
						continue
					}
				}
				p := make([]int, i+1)
				copy(p, c.taken[:i])
				p[i] = alt
				kids = append(kids, node{prefix: p, level: nd.level + 1, devs: cost})
			}
		}
		for i := len(kids) - 1; i >= 0; i-- {
			stack = append(stack, kids[i])
		}
	}
}
