#!/bin/bash
# seed_verify.sh <name>  — confirm a seeded change from /tmp/mut/<name>/mutant (or /verif/seeded/<name>) in a fresh scratch worktree:
#   patch applies to /repo HEAD, suite passes with it, demo fails with it, demo passes without it. Removes the scratch worktree.
set -u
name=$1
export GOFLAGS=-mod=mod GOPROXY=off GOSUMDB=off GOTOOLCHAIN=local
src=/tmp/mut/$name/mutant
dst=/verif/seeded/$name
mkdir -p $dst
if [ -d $src ]; then cp $src/patch.diff $src/demo_test.go $dst/ 2>/dev/null; cp $src/meta.json $dst/meta.agent.json 2>/dev/null; fi
wt=/tmp/mut/verify-$name
git -C /repo worktree remove --force $wt 2>/dev/null
git -C /repo worktree add --detach $wt HEAD -q || exit 2
log=$dst/verify.log
{
echo "== verify $name at repo $(git -C /repo rev-parse --short HEAD) =="
cd $wt
cp $dst/demo_test.go ./zz_mutant_demo_test.go
echo "-- demo on clean tree (must pass)"
go test -vet=off -count=1 -run TestMutantDemo . 2>&1 | tail -3; clean=${PIPESTATUS[0]}
echo "-- apply patch"
if git apply $dst/patch.diff; then applied=0; else applied=1; fi
echo "applied=$applied"
echo "-- demo with change (must fail)"
go test -vet=off -count=1 -run TestMutantDemo . 2>&1 | tail -6; with=${PIPESTATUS[0]}
rm -f ./zz_mutant_demo_test.go
echo "-- suite with change (must pass)"
go build ./... && go test -vet=off -count=1 ./... 2>&1 | grep -v "no test files"; suite=${PIPESTATUS[0]}
echo "RESULT name=$name applied=$applied demo_clean_exit=$clean demo_mutant_exit=$with suite_exit=$suite"
} > $log 2>&1
cd /
git -C /repo worktree remove --force $wt
tail -1 $log
