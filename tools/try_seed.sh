#!/bin/bash
# try_seed.sh <seed-name> <prop> [tier] — apply a seeded change to /repo, run the check, undo it.
name=$1; prop=$2; tier=${3:-quick}
cd /repo || exit 2
if ! git diff --quiet; then echo "/repo has uncommitted changes"; exit 2; fi
git apply /verif/seeded/$name/patch.diff 2>/dev/null || { git checkout -- . ; git reset -q; echo "patch does not apply to the current tree"; exit 2; }
git reset -q
cd /verif
cp evidence/$prop.json /tmp/evidence-$prop.save 2>/dev/null
./check $prop $tier > /tmp/try-$name-$prop.out 2>&1; rc=$?
git -C /repo checkout -- . 
cp /tmp/evidence-$prop.save evidence/$prop.json 2>/dev/null
git -C /repo status --short | grep -v '^??' 
echo "seed=$name prop=$prop tier=$tier exit=$rc"
grep -a -A3 "^VIOLATION" /tmp/try-$name-$prop.out | head -${4:-24}
tail -1 /tmp/try-$name-$prop.out
