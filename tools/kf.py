#!/usr/bin/env python3
"""Curate known_findings.json (never used at check time).

  kf.py accept <prop> <tier>   merge .work/<prop>-<tier>-proposals.json (written by `vcheck -propose`)
  kf.py stats                  entries per property
"""
import json, sys, os
V = os.path.dirname(os.path.dirname(os.path.abspath(__file__)))
KF = os.path.join(V, 'known_findings.json')

def load():
    if os.path.exists(KF):
        return json.load(open(KF))
    return {"findings": [], "fixed": []}

def save(d):
    d['findings'].sort(key=lambda k: (k['property'], k['class']))
    json.dump(d, open(KF, 'w'), indent=1, ensure_ascii=False)
    open(KF, 'a').write('\n')

SUF = ' [more failing cases than the listed finding covers]'
def accept(prop, tier, group=None):
    d = load()
    p = os.path.join(V, '.work', f'{prop}-{tier}-proposals.json')
    props = json.load(open(p))
    idx = {(k['property'], k['class']): k for k in d['findings']}
    n_new = n_upd = 0
    for pr in props:
        cls = pr['class']
        if cls.endswith(SUF):
            cls = cls[:-len(SUF)]
        k = idx.get((prop, cls))
        cnt = pr['max_count'][tier]
        if k is None:
            k = {"property": prop, "class": cls, "description": pr['description'], "witness": pr['witness'],
                 "status": "open", "max_count": {tier: cnt}}
            if group: k['root_cause'] = group
            d['findings'].append(k); idx[(prop, cls)] = k; n_new += 1
        else:
            k.setdefault('max_count', {})[tier] = max(cnt, k['max_count'].get(tier, 0)); n_upd += 1
    save(d)
    print(f'{prop} {tier}: {n_new} new, {n_upd} updated, total {len(d["findings"])}')

def prune(prop):
    """after a full run of prop (evidence/<prop>.json): listed classes the run did not hit lose their count for
    the run's tier and are dropped when no tier is left; counts of the classes it hit are tightened.
    (Never after a VERIF_ADHOC single-harness run: it would drop what the other harnesses own.)"""
    d = load()
    ev = json.load(open(os.path.join(V, 'evidence', prop + '.json')))
    tier = ev['tier']
    if ev.get('violations'):
        # hit counts are capped at the listed count when the surplus is a violation: tightening would undo an accept
        print(f'{prop}: the run has violations - accept or fix them first, nothing pruned'); return
    hits = ev['coverage']['known_finding_hits']
    keep = []; dropped = 0; tightened = 0; untier = 0
    for k in d['findings']:
        if k['property'] != prop:
            keep.append(k); continue
        mc = k.setdefault('max_count', {})
        if k['class'] in hits:
            if mc.get(tier) != hits[k['class']]:
                mc[tier] = hits[k['class']]; tightened += 1
            keep.append(k)
        else:
            if tier in mc:
                del mc[tier]; untier += 1
            if mc:
                keep.append(k)
            else:
                dropped += 1
    d['findings'] = keep
    save(d)
    print(f'{prop} ({tier}): dropped {dropped} stale, {untier} lost their {tier} count, tightened {tightened}, kept {sum(1 for k in keep if k["property"]==prop)}')

if __name__ == '__main__':
    if sys.argv[1] == 'accept':
        accept(sys.argv[2], sys.argv[3], sys.argv[4] if len(sys.argv) > 4 else None)
    elif sys.argv[1] == 'prune':
        for p in sys.argv[2:]:
            prune(p)
    elif sys.argv[1] == 'stats':
        d = load()
        from collections import Counter
        print(Counter(k['property'] for k in d['findings']))
