#!/bin/bash
# runall.sh [tier] [props...] — run checks, print one summary line each plus any violations
tier=${1:-quick}; shift
props=${@:-$(jq -r '.checks[].property_id' /verif/MANIFEST.json)}
cd /verif
for p in $props; do
  ./check $p $tier > /tmp/run-$p.out 2>&1; rc=$?
  echo "$p exit=$rc $(grep SUMMARY /tmp/run-$p.out | cut -c1-220)"
  grep -A2 "^VIOLATION\|^HARNESS" /tmp/run-$p.out | cut -c1-260 | head -${MAXV:-12}
done
