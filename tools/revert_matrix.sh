#!/bin/bash
# revert_matrix.sh <commit:prop>... — for each pair: scratch worktree of /repo HEAD with <commit> reverted, run the
# property's quick check against it (VERIF_REPO), append "<date> revert=<commit> check=<prop> exit=<rc> class=<first class>" to
# seeded/reverts.log. exit=1 means the check reports the repaired defect again. /repo is not touched.
cd /verif
for pair in "$@"; do
  cm=${pair%%:*}; p=${pair##*:}
  wt=/tmp/mut/revert-$cm-$p; out=/tmp/mut/revert-$cm-$p.out.d
  git -C /repo worktree remove --force $wt 2>/dev/null
  git -C /repo worktree add --detach $wt HEAD -q || exit 2
  if ! git -C $wt revert -n $cm >/dev/null 2>&1; then
    echo "$(date -u +%F) revert=$cm check=$p does-not-revert-cleanly" | tee -a seeded/reverts.log
    git -C /repo worktree remove --force $wt; continue
  fi
  mkdir -p $out
  VERIF_REPO=$wt VERIF_OUT=$out ./check $p quick > /tmp/mut/revert-$cm-$p.log 2>&1; rc=$?
  cls=$(grep -a -A1 '^VIOLATION' /tmp/mut/revert-$cm-$p.log | grep -a '^  class=' | head -1 | cut -c9-180)
  echo "$(date -u +%F) revert=$cm check=$p exit=$rc class=${cls:-none} ($(git -C /repo log -1 --format=%s $cm | cut -c1-70))" | tee -a seeded/reverts.log
  git -C /repo worktree remove --force $wt; rm -rf $out
done
