#!/bin/bash
# try_seed_wt.sh <seed-name> <prop> [tier] — run a check against a scratch worktree of /repo carrying a seeded
# change (/repo itself is not touched, evidence/ is not overwritten). Worktree and outputs are removed afterwards.
name=$1; prop=$2; tier=${3:-quick}
wt=/tmp/mut/try-$name-$prop
out=/tmp/mut/try-$name-$prop.out.d
git -C /repo worktree remove --force $wt 2>/dev/null
git -C /repo worktree add --detach $wt HEAD -q || exit 2
( cd $wt && git apply /verif/seeded/$name/patch.diff ) || { echo "patch does not apply"; git -C /repo worktree remove --force $wt; exit 2; }
mkdir -p $out
cd /verif
VERIF_REPO=$wt VERIF_OUT=$out ./check $prop $tier > /tmp/mut/try-$name-$prop.log 2>&1; rc=$?
git -C /repo worktree remove --force $wt
rm -rf $out
echo "seed=$name prop=$prop tier=$tier exit=$rc"
grep -a -A3 "^VIOLATION" /tmp/mut/try-$name-$prop.log | head -${4:-16} | cut -c1-400
tail -1 /tmp/mut/try-$name-$prop.log | cut -c1-300
