#!/bin/bash
# seed_matrix.sh [tier] <seed:prop>... — try each seeded change against a check (scratch worktree; /repo untouched)
# and append one line per trial to seeded/trials.log:  <date> <seed> <prop> <tier> exit=<rc> first-class=<...>
tier=${1:-quick}; shift
cd /verif
for pair in "$@"; do
  s=${pair%%:*}; p=${pair##*:}
  out=$(tools/try_seed_wt.sh $s $p $tier 4 2>&1)
  rc=$(echo "$out" | grep -a -o 'exit=[0-9]*' | head -1)
  cls=$(echo "$out" | grep -a '^  class=' | head -1 | cut -c9-200)
  echo "$(date -u +%F) seed=$s check=$p tier=$tier $rc class=${cls:-none}" | tee -a seeded/trials.log
done
