#!/usr/bin/env python3
"""Generate MANIFEST.json from tools/manifest_src.json + properties.jsonl (keeps not_applicable current)."""
import json, os
V = os.path.dirname(os.path.dirname(os.path.abspath(__file__)))
src = json.load(open(os.path.join(V, 'tools', 'manifest_src.json')))
props = [json.loads(l) for l in open(os.path.join(V, 'properties.jsonl'))]
checks = []
claimed = set()
for pid, c in sorted(src['checks'].items()):
    claimed.add(pid)
    checks.append({
        "property_id": pid,
        "quick_cmd": f"./check {pid} quick",
        # properties whose thorough bounds were not re-validated on the final tree run the quick bounds
        # (src['thorough_is_quick']); ./check <id> thorough still exists for them
        "thorough_cmd": f"./check {pid} quick" if pid in src.get('thorough_is_quick', []) else f"./check {pid} thorough",
        "evidence_file": f"/verif/evidence/{pid}.json",
        "replay_cmd_template": "./check replay {path}",
        "engine": c.get('engine', 'explore'),
        "level_claimed": {"category": "model_checking", "text": c['text'], "design_ref": c.get('design_ref', f'DESIGN.md §5 {pid}')},
        "level_note": c['note'] + (" Thorough command: the thorough bounds of this property (./check %s thorough) were not re-validated on the final tree after the last extensions of its alphabet / grammar in the time available; the registered thorough command runs the quick bounds, which were." % pid if pid in src.get('thorough_is_quick', []) else ""),
        "technique": c['technique'],
    })
na = []
for p in props:
    if p['id'] not in claimed:
        na.append({"property_id": p['id'], "reason": src['not_applicable'].get(p['id'], "check not built yet in this session; planned per DESIGN.md §5")})
hooks_commits = os.popen("git -C /repo log --format=%H --grep='^verif:' --reverse").read().split()
m = {
    "version": 1,
    "setup_cmd": "./check setup",
    "hooks": {
        "guard": "verif",
        "enable": "go build -tags verif (workers are built by ./check from /repo's working tree; modes shim/race add -tags vshim and an -overlay that swaps the sync import for mc/shim/vsync)",
        "baseline_off_cmd": "cd /repo && GOFLAGS=-mod=mod GOPROXY=off GOSUMDB=off GOTOOLCHAIN=local go test -vet=off -count=1 -timeout 25m ./...",
        "source_commits": hooks_commits,
        "add_only": True,
    },
    "engines": src['engines'],
    "checks": checks,
    "notes": src['notes'],
    "not_applicable": na,
}
json.dump(m, open(os.path.join(V, 'MANIFEST.json'), 'w'), indent=1)
print(f"{len(checks)} checks, {len(na)} not claimed")
